"""Lockset dataflow (LOCK engine, DESIGN §2.3).

State per program point: (must, may) sets of tokens; token 'L' = lock L held,
'-L' = L released without having been acquired in this function (only appears
inside unlock wrappers).  Lock identity = the mutex field name the primitive is
applied to (`msg_mutex`, `process_mutex`, `mutex`).  Wrapper functions are
summarised automatically (fixpoint over the call graph, depth-limited).
"""
from .ir import strip_casts, walk

LOCK_PRIMS = {'pthread_mutex_lock': +1, 'pthread_mutex_unlock': -1,
              # acquisitions that may give up (op 0): the lock joins the may set only
              'pthread_mutex_timedlock': 0, 'pthread_mutex_trylock': 0}
# pthread_cond_wait releases and re-acquires its mutex: net effect none.


def _mutex_name(fn, arg):
    p = fn.path(arg)
    if p is None:
        return None
    f = p.last_field()
    return f or p.root


def _apply(state, lock, op):
    s = set(state)
    if op > 0:
        if '-' + lock in s:
            s.discard('-' + lock)
        else:
            s.add(lock)
    else:
        if lock in s:
            s.discard(lock)
        else:
            s.add('-' + lock)
    return frozenset(s)


class Locksets:
    def __init__(self, P):
        self.P = P
        self.summaries = {}       # fn name -> list of (lock, op) applied in order, when the function is a pure wrapper
        self.results = {}         # fn name -> {(block id, idx): (must, may)} state BEFORE the event
        self.exit_state = {}      # fn name -> (must, may) at exit
        self.imbalance = {}       # fn name -> list of descriptions
        self._compute_summaries()

    def _ops_of_event(self, fn, ev):
        if ev.k != 'call':
            return []
        if ev.callee in LOCK_PRIMS:
            m = _mutex_name(fn, ev.args[0])
            if m is None:
                return []
            return [(m, LOCK_PRIMS[ev.callee])]
        s = self.summaries.get(ev.callee)
        if s:
            # a lock named after a parameter of the wrapper is the mutex the caller passes
            callee = self.P.functions.get(ev.callee) if hasattr(self.P, 'functions') else None
            params = [q.get('name') if isinstance(q, dict) else q for q in (callee.params if callee is not None else [])]
            out = []
            for lock, op in s:
                if lock in params and params.index(lock) < len(ev.args):
                    m = _mutex_name(fn, ev.args[params.index(lock)])
                    if m is None:
                        continue
                    lock = m
                out.append((lock, op))
            return out
        return []

    def analyse(self, fn):
        """Forward dataflow; returns (states, exit_state)."""
        must_in = {}
        may_in = {}
        must_in[fn.entry.id] = frozenset()
        may_in[fn.entry.id] = frozenset()
        work = [fn.entry]
        states = {}
        must_out = {}
        may_out = {}
        n = 0
        while work:
            b = work.pop()
            n += 1
            if n > 20000:
                raise RuntimeError('lockset: no fixpoint in %s' % fn.name)
            must = must_in[b.id]
            may = may_in[b.id]
            for ev in b.events:
                states[(b.id, ev.idx)] = (must, may)
                for lock, op in self._ops_of_event(fn, ev):
                    if op == 0:
                        may = _apply(may, lock, +1)
                        continue
                    must = _apply(must, lock, op)
                    # may: apply to may set, but a release of a lock not in may is a '-L'
                    may = _apply(may, lock, op)
            states[(b.id, len(b.events))] = (must, may)
            must_out[b.id], may_out[b.id] = must, may
            for s, _ in b.succs:
                if s.id not in must_in:
                    must_in[s.id] = must
                    may_in[s.id] = may
                    work.append(s)
                else:
                    nm = must_in[s.id] & must
                    ny = may_in[s.id] | may
                    if nm != must_in[s.id] or ny != may_in[s.id]:
                        must_in[s.id] = nm
                        may_in[s.id] = ny
                        work.append(s)
        ex = (must_in.get(fn.exit.id, frozenset()), may_in.get(fn.exit.id, frozenset()))
        return states, ex

    def _compute_summaries(self):
        # iterate: functions whose exit state has must == may != empty are wrappers
        for _ in range(4):
            changed = False
            for fn in self.P.all_functions():
                if not any(ev.callee in LOCK_PRIMS or ev.callee in self.summaries for ev in fn.calls()):
                    continue
                states, ex = self.analyse(fn)
                must, may = ex
                if must != may and may and not must and all(not t.startswith('-') for t in may) \
                        and any(op == 0 for ev in fn.calls() for _, op in self._ops_of_event(fn, ev)):
                    # acquires on some returns only: summarised as a may-acquire (op 0)
                    summ = [(t, 0) for t in sorted(may)]
                    if self.summaries.get(fn.name) != summ:
                        self.summaries[fn.name] = summ
                        changed = True
                elif must == may and must:
                    summ = []
                    for t in sorted(must):
                        if t.startswith('-'):
                            summ.append((t[1:], -1))
                        else:
                            summ.append((t, +1))
                    if self.summaries.get(fn.name) != summ:
                        self.summaries[fn.name] = summ
                        changed = True
            if not changed:
                break

    def state_before(self, fn, ev):
        if fn.name not in self.results:
            self.results[fn.name], self.exit_state[fn.name] = self.analyse(fn)
        return self.results[fn.name].get((ev.block.id, ev.idx), (frozenset(), frozenset()))

    def state_at_cond(self, fn, block):
        if fn.name not in self.results:
            self.results[fn.name], self.exit_state[fn.name] = self.analyse(fn)
        return self.results[fn.name].get((block.id, len(block.events)), (frozenset(), frozenset()))

    def exit_of(self, fn):
        if fn.name not in self.results:
            self.results[fn.name], self.exit_state[fn.name] = self.analyse(fn)
        return self.exit_state[fn.name]
