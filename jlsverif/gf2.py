"""GF2 engine: abstract interpretation of the table-driven CRC kernels in the
domain of GF(2)-affine forms (DESIGN Appendix B).

A 32-bit value is 32 rows; each row is an int bitmask over the columns
[crc bit 0..31 | data bit 0..8*nbytes-1 | constant].  ^ adds rows, >> << & with
constants select rows, a table lookup with an affine 8-bit index is a matrix
product with the table's 8 basis rows (the table must be linear: checked from
its constants), a load from the tracked input pointer introduces the data
columns (little-endian; `char` loads sign-extend).  Anything else is TOP.
"""
from .ir import strip_casts, const_of, kids


class NotLinear(Exception):
    pass


class Aff:
    __slots__ = ('rows',)

    def __init__(self, rows):
        self.rows = list(rows)

    @staticmethod
    def const(v, ccol, bits=32):
        return Aff([(1 << ccol) if (v >> i) & 1 else 0 for i in range(bits)])

    def xor(self, o):
        return Aff([a ^ b for a, b in zip(self.rows, o.rows)])

    def shr(self, k):
        n = len(self.rows)
        return Aff([self.rows[i + k] if i + k < n else 0 for i in range(n)])

    def shl(self, k):
        n = len(self.rows)
        return Aff([self.rows[i - k] if i - k >= 0 else 0 for i in range(n)])

    def mask(self, m):
        return Aff([r if (m >> i) & 1 else 0 for i, r in enumerate(self.rows)])

    def is_const(self, ccol):
        return all(r in (0, 1 << ccol) for r in self.rows)

    def const_value(self, ccol):
        return sum(1 << i for i, r in enumerate(self.rows) if r == (1 << ccol))


def table_linear(vals):
    if len(vals) != 256 or vals[0] != 0:
        return False
    for v in range(256):
        acc = 0
        for j in range(8):
            if (v >> j) & 1:
                acc ^= vals[1 << j]
        if acc != vals[v]:
            return False
    return True


class Kernel:
    """Evaluate a straight-line list of events."""

    def __init__(self, P, fn, nbytes, crc_var, ptr_var, tables):
        self.P, self.fn = P, fn
        self.nbytes = nbytes
        self.ccol = 32 + 8 * nbytes
        self.crc_var, self.ptr_var = crc_var, ptr_var
        self.tables = tables          # name -> 256 ints (linear tables only)
        self.env = {crc_var: Aff([1 << i for i in range(32)])}
        self.off = 0                  # byte offset of ptr_var
        self.max_off = 0

    def load(self, width_bytes, signed_char=False, at=None):
        off = self.off if at is None else at
        if off + width_bytes > self.nbytes:
            raise NotLinear('load past the modelled input (%d + %d > %d)' % (off, width_bytes, self.nbytes))
        if at is not None:
            self.max_off = max(self.max_off, off + width_bytes)
        rows = []
        for i in range(32):
            if i < 8 * width_bytes:
                rows.append(1 << (32 + 8 * off + i))
            elif signed_char and width_bytes == 1:
                rows.append(1 << (32 + 8 * off + 7))
            else:
                rows.append(0)
        return Aff(rows)

    def ev(self, e):
        e0 = strip_casts_keep(e)
        op = e0.get('op')
        if op == 'cast':
            v = self.ev(e0['k'][0])
            t = e0.get('t', '')
            if t in ('u8', 'i8'):
                return v.mask(0xFF)
            if t in ('u16', 'i16'):
                return v.mask(0xFFFF)
            return v
        c = const_of(e0)
        if c is not None and op in ('lit', 'sizeof') or (c is not None and op == 'un'):
            return Aff.const(c & 0xFFFFFFFF, self.ccol)
        if op == 'ref':
            if e0['name'] in self.env:
                return self.env[e0['name']]
            raise NotLinear('unknown variable %s' % e0['name'])
        if op == 'bin':
            o = e0['o']
            if o == '^':
                return self.ev(e0['k'][0]).xor(self.ev(e0['k'][1]))
            if o in ('>>', '<<', '&'):
                k = const_of(e0['k'][1])
                if k is None:
                    kv = self.ev(e0['k'][1])
                    if not kv.is_const(self.ccol):
                        raise NotLinear('non-constant right operand of %s' % o)
                    k = kv.const_value(self.ccol)
                a = self.ev(e0['k'][0])
                return a.shr(k) if o == '>>' else (a.shl(k) if o == '<<' else a.mask(k))
            raise NotLinear('operator %s is not GF(2)-affine' % o)
        if op == 'sub':
            base = strip_casts(e0['k'][0])
            if base.get('op') == 'ref' and base.get('name') in self.tables:
                idx = self.ev(e0['k'][1])
                if any(idx.rows[i] for i in range(8, 32)):
                    raise NotLinear('table index wider than 8 bits')
                T = self.tables[base['name']]
                rows = [0] * 32
                for j in range(8):
                    tj = T[1 << j]
                    for i in range(32):
                        if (tj >> i) & 1:
                            rows[i] ^= idx.rows[j]
                return Aff(rows)
            # ((const uint32_t *) p)[k]: a word of the input at a constant index
            width = {'u32': 4, 'i32': 4, 'u8': 1, 'i8': 1, 'u16': 2}.get(e0.get('t', ''))
            if base.get('op') == 'ref' and base.get('name') == self.ptr_var and const_of(e0['k'][1]) is not None and width:
                return self.load(width, signed_char=(e0.get('t') == 'i8'), at=self.off + const_of(e0['k'][1]) * width)
            raise NotLinear('subscript of %s' % base.get('name'))
        if op == 'un' and e0['o'] == '*':
            inner = strip_casts_keep(e0['k'][0])
            # *(uint32_t*) p  /  *p  / *p++
            t = e0.get('t', '')
            width = {'u32': 4, 'i32': 4, 'u8': 1, 'i8': 1, 'u16': 2, 'u64': 8}.get(t)
            if width is None or width > 4:
                raise NotLinear('load of type %s' % t)
            post = False
            while inner.get('op') == 'cast':
                inner = strip_casts_keep(inner['k'][0])
            if inner.get('op') == 'un' and inner['o'] == 'post++':
                post = True
                inner = strip_casts(inner['k'][0])
            if inner.get('op') != 'ref' or inner.get('name') != self.ptr_var:
                raise NotLinear('load through %s' % inner.get('name'))
            v = self.load(width, signed_char=(t == 'i8'))
            if post:
                self.off += 1      # element size of char pointer
                self.max_off = max(self.max_off, self.off)
            return v
        raise NotLinear('expression kind %s' % op)

    def run(self, events):
        for ev in events:
            if ev.k == 'decl':
                if ev.e is not None:
                    self.env[ev.name] = self.ev(ev.e)
            elif ev.k == 'store':
                lhs, rhs, o = ev.store_parts()
                l0 = strip_casts(lhs)
                if l0.get('op') != 'ref':
                    raise NotLinear('store to %s' % l0.get('op'))
                name = l0['name']
                if name == self.ptr_var:
                    if rhs is None and o in ('post++', 'pre++'):
                        # already accounted for when it was evaluated as part of a load expression?
                        continue
                    if o == '+=' and const_of(rhs) is not None:
                        self.off += const_of(rhs)
                        self.max_off = max(self.max_off, self.off)
                        continue
                    raise NotLinear('pointer update %s' % o)
                if rhs is None:
                    continue          # loop counters
                if o == '=':
                    self.env[name] = self.ev(rhs)
                elif o == '^=':
                    self.env[name] = self.env[name].xor(self.ev(rhs))
                else:
                    raise NotLinear('compound %s' % o)
            elif ev.k in ('call', 'ret'):
                raise NotLinear('call/return inside the kernel')
        return self.env[self.crc_var]


def strip_casts_keep(e):
    """like strip_casts but keeps narrowing casts visible"""
    return e


def reference_matrix(nbytes, poly=0x82F63B78):
    """Rows of the exact CRC-32C register update for nbytes input bytes, over columns [crc | data | const]."""
    def upd(crc, data):
        for byte in data:
            crc ^= byte
            for _ in range(8):
                crc = (crc >> 1) ^ (poly if crc & 1 else 0)
        return crc
    ncols = 32 + 8 * nbytes
    rows = [0] * 32
    for col in range(ncols):
        if col < 32:
            out = upd(1 << col, [0] * nbytes)
        else:
            bit = col - 32
            data = [0] * nbytes
            data[bit // 8] = 1 << (bit % 8)
            out = upd(0, data)
        for i in range(32):
            if (out >> i) & 1:
                rows[i] |= 1 << col
    return rows


def slice_table(k, poly=0x82F63B78):
    base = []
    for i in range(256):
        x = i
        for _ in range(8):
            x = (x >> 1) ^ (poly if x & 1 else 0)
        base.append(x)
    if k == 0:
        return base
    out = []
    for i in range(256):
        c = base[i]
        for _ in range(k):
            c = base[c & 0xFF] ^ (c >> 8)
        out.append(c)
    return out
