"""CFG engines: dominators, post-dominators, control dependence, and path
search with the branch-on-same-variable refinement (DESIGN Appendix B, MPT)."""
from collections import defaultdict

from .ir import strip_casts, const_of, path_of, walk, show, kids


# --------------------------------------------------------------------------
# dominators (iterative set algorithm; CFGs here have < 150 blocks)

def _dom_sets(nodes, entry, preds):
    allb = set(nodes)
    dom = {n: set(allb) for n in nodes}
    dom[entry] = {entry}
    changed = True
    order = list(nodes)
    while changed:
        changed = False
        for n in order:
            if n == entry:
                continue
            ps = [p for p in preds(n) if p in dom]
            if ps:
                new = set.intersection(*(dom[p] for p in ps)) | {n}
            else:
                new = {n}
            if new != dom[n]:
                dom[n] = new
                changed = True
    return dom


def reachable_blocks(fn):
    seen = {fn.entry.id}
    work = [fn.entry]
    while work:
        b = work.pop()
        for s, _ in b.succs:
            if s.id not in seen:
                seen.add(s.id)
                work.append(s)
    return seen


def dominators(fn):
    if fn._dom is None:
        reach = reachable_blocks(fn)
        nodes = [i for i in fn.blocks if i in reach]
        fn._dom = _dom_sets(nodes, fn.entry.id, lambda n: [p.id for p, _ in fn.blocks[n].preds if p.id in reach])
    return fn._dom


def postdominators(fn):
    if fn._pdom is None:
        # blocks that reach the exit
        can = {fn.exit.id}
        work = [fn.exit]
        while work:
            b = work.pop()
            for p, _ in b.preds:
                if p.id not in can:
                    can.add(p.id)
                    work.append(p)
        nodes = [i for i in fn.blocks if i in can]
        fn._pdom = _dom_sets(nodes, fn.exit.id, lambda n: [s.id for s, _ in fn.blocks[n].succs if s.id in can])
    return fn._pdom


def block_dominates(fn, a, b):
    """Block a dominates block b."""
    d = dominators(fn)
    return b in d and a in d[b]


def ev_dominates(a, b):
    """Event a dominates event b (same function)."""
    if a.block.id == b.block.id:
        return a.idx < b.idx
    return block_dominates(a.fn, a.block.id, b.block.id)


def ev_postdominates(a, b):
    """Event a post-dominates event b: every path from b to the exit passes a."""
    if a.block.id == b.block.id:
        return a.idx > b.idx
    pd = postdominators(a.fn)
    return b.block.id in pd and a.block.id in pd[b.block.id]


def control_deps(fn):
    """block id -> set of (cond block id, label) edges the block is directly
    control dependent on."""
    pd = postdominators(fn)
    cd = defaultdict(set)
    for a in fn.blocks.values():
        if len(a.succs) < 2:
            continue
        for s, label in a.succs:
            if s.id not in pd:
                continue
            # every block that post-dominates s (incl. s) but does not strictly post-dominate a
            apd = pd.get(a.id, set()) - {a.id}
            for b in pd[s.id]:
                if b not in apd:
                    cd[b].add((a.id, label))
    return cd


def control_deps_transitive(fn, block_id):
    cd = control_deps(fn)
    seen = set()
    work = [block_id]
    out = set()
    while work:
        b = work.pop()
        for (a, label) in cd.get(b, ()):
            if (a, label) not in out:
                out.add((a, label))
            if a not in seen:
                seen.add(a)
                work.append(a)
    return out


def back_edges(fn):
    """(src block id, dst block id) edges where dst dominates src."""
    d = dominators(fn)
    res = []
    for b in fn.blocks.values():
        if b.id not in d:
            continue
        for s, _ in b.succs:
            if s.id in d[b.id]:
                res.append((b.id, s.id))
    return res


def natural_loop(fn, back):
    src, hdr = back
    body = {hdr, src}
    work = [src]
    while work:
        n = work.pop()
        if n == hdr:
            continue
        for p, _ in fn.blocks[n].preds:
            if p.id not in body:
                body.add(p.id)
                work.append(p.id)
    return body


def loops(fn):
    """header id -> set of body block ids (natural loops merged per header)."""
    res = defaultdict(set)
    for be in back_edges(fn):
        res[be[1]] |= natural_loop(fn, be)
    return res


# --------------------------------------------------------------------------
# facts for the refinement

def _var_key(fn, e):
    e = strip_casts(e)
    if e is None:
        return None
    if e.get('op') == 'ref' and e.get('rk') in ('local', 'param'):
        return e['name']
    if e.get('op') == 'member':
        p = path_of(e)
        if p is not None and p.root_kind in ('local', 'param'):
            return str(p)
    return None


def cond_facts(fn, cond, label):
    """Facts implied by taking edge `label` ('T'/'F') of a leaf condition.
    Returns list of (var, 'eq'|'ne', const)."""
    if cond is None or label not in ('T', 'F'):
        return []
    truth = (label == 'T')
    e = strip_casts(cond)
    while e.get('op') == 'un' and e['o'] == '!':
        truth = not truth
        e = strip_casts(e['k'][0])
    if e.get('op') == 'bin' and e['o'] in ('==', '!='):
        l, r = strip_casts(e['k'][0]), strip_casts(e['k'][1])
        cl, cr = const_of(l), const_of(r)
        var, c = None, None
        if cr is not None and cl is None:
            var, c = _var_key(fn, l), cr
        elif cl is not None and cr is None:
            var, c = _var_key(fn, r), cl
        if var is None:
            return []
        eq = (e['o'] == '==') == truth
        return [(var, 'eq' if eq else 'ne', c)]
    var = _var_key(fn, e)
    if var is not None:
        return [(var, 'ne' if truth else 'eq', 0)]
    return []


SENTINEL = 1 << 62


def sentinel_infeasible(fn, cond, label, facts):
    """Refinement R2: `x < v` (or `x <= v`) cannot be false when v is known to hold a
    sentinel constant >= 2^62 (idiom: chunk_sample_id = INT64_MAX - INT32_MAX to force the
    following compare).  Sample ids / offsets never reach 2^62."""
    if cond is None or label not in ('T', 'F'):
        return False
    e = strip_casts(cond)
    if e.get('op') != 'bin' or e['o'] not in ('<', '<=', '>', '>='):
        return False
    l, r = strip_casts(e['k'][0]), strip_casts(e['k'][1])
    o = e['o']
    big = None
    for (v, k, c) in facts:
        if k == 'eq' and isinstance(c, int) and c >= SENTINEL:
            if _var_key(fn, r) == v and o in ('<', '<='):
                big = 'F'          # x < BIG is never false
            if _var_key(fn, l) == v and o in ('>', '>='):
                big = 'F'
    return big is not None and label == big


def _contradicts(facts, new):
    for var, kind, c in new:
        for (v2, k2, c2) in facts:
            if v2 != var:
                continue
            if kind == 'eq' and k2 == 'eq' and c != c2:
                return True
            if kind == 'eq' and k2 == 'ne' and c == c2:
                return True
            if kind == 'ne' and k2 == 'eq' and c == c2:
                return True
    return False


def _add_facts(facts, new):
    s = set(facts)
    for var, kind, c in new:
        if kind == 'eq':
            s = {f for f in s if f[0] != var}
        s.add((var, kind, c))
    return frozenset(s)


import re as _re


def _kill(facts, var):
    out = []
    for f in facts:
        if f[0] == var or f[0].startswith(var + '.') or f[0].startswith(var + '['):
            continue
        if f[1] == 'cnd' and _re.search(r'(?<![A-Za-z0-9_])' + _re.escape(var) + r'(?![A-Za-z0-9_])', f[0]):
            continue
        out.append(f)
    return frozenset(out)


def cond_key(fn, cond):
    """Refinement R3: a condition over locals/params and constants only evaluates the same way again as
    long as none of its variables was stored in between.  Returns a text key or None."""
    if cond is None:
        return None
    for n in walk(cond):
        op = n.get('op')
        if op in ('call', 'member', 'sub', 'str', 'flit', 'other', 'stmtexpr'):
            return None
        if op == 'un' and n['o'] in ('*', '&', 'post++', 'post--', 'pre++', 'pre--'):
            return None
        if op == 'ref' and n.get('rk') not in ('local', 'param', 'enum'):
            return None
        if op == 'bin' and n['o'] in ('=', '+=', '-=', '*=', '/=', '|=', '&=', '^=', '<<=', '>>=', '%='):
            return None
    return 'C:' + show(cond)


def transfer(fn, ev, facts):
    """Effect of one event on the fact set."""
    if not facts and ev.k not in ('store', 'decl'):
        return facts
    if ev.k in ('store', 'decl'):
        lhs, rhs, o = ev.store_parts()
        var = _var_key(fn, lhs)
        if var is None:
            p = path_of(lhs)
            if p is not None:
                return _kill(facts, str(p))
            return facts
        facts = _kill(facts, var)
        if o == '|=' and rhs is not None and const_of(strip_casts(rhs)) not in (None, 0):
            return _add_facts(facts, [(var, 'ne', 0)])
        if o == '=' and rhs is not None:
            r = strip_casts(rhs)
            c = const_of(r)
            if c is not None and r.get('op') != 'call':
                return _add_facts(facts, [(var, 'eq', c)])
            rv = _var_key(fn, r)
            if rv is not None:
                copied = [(var, k, c2) for (v2, k, c2) in facts if v2 == rv]
                if copied:
                    return _add_facts(facts, copied)
        return facts
    if ev.k == 'call':
        # &v passed to a call, or any field path: forget
        out = facts
        for a in ev.args:
            a = strip_casts(a)
            if a.get('op') == 'un' and a['o'] == '&':
                p = path_of(a)
                if p is not None:
                    out = _kill(out, p.root)
        # field facts do not survive calls (callee may store through the pointer)
        out = frozenset(f for f in out if '.' not in f[0] and '[' not in f[0])
        return out
    return facts


def ret_class(fn, ev, facts):
    """'zero' | 'nonzero' | 'unknown' for a return event under path facts."""
    e = strip_casts(ev.e) if ev.e else None
    if e is None:
        return 'void'
    c = const_of(e)
    if c is not None and e.get('op') != 'call':
        return 'zero' if c == 0 else 'nonzero'
    var = _var_key(fn, e)
    if var is not None:
        for (v, k, c2) in facts:
            if v == var:
                if k == 'eq':
                    return 'zero' if c2 == 0 else 'nonzero'
                if k == 'ne' and c2 == 0:
                    return 'nonzero'
    return 'unknown'


class Witness(list):
    """List of (block id, line, text) steps."""

    def render(self):
        return ' -> '.join('B%d@%d%s' % (b, ln, (':' + t) if t else '') for b, ln, t in self)


def find_path(fn, start, on_event, refine=True, start_facts=frozenset(), on_exit=None, edge_ok=None, max_states=200000, on_block_end=None):
    """Depth-first search for a feasible path.

    start: 'entry' | Event (search begins after it) | (Block, succ_index) edge
    on_event(ev, facts) -> 'target' (witness found) | 'stop' (prune path) | None
    on_exit(facts) -> True if reaching the exit block is a target
    edge_ok(block, succ_block, label) -> False to forbid an edge
    Returns Witness or None.
    """
    seen = set()
    stack = []

    def push_succs(b, facts, trail):
        for s, label in b.succs:
            if edge_ok is not None and not edge_ok(b, s, label):
                continue
            f2 = facts
            if refine and label in ('T', 'F') and sentinel_infeasible(fn, b.cond, label, facts):
                continue
            ck = cond_key(fn, b.cond) if (refine and label in ('T', 'F')) else None
            if ck is not None:
                other = 'F' if label == 'T' else 'T'
                if (ck, 'cnd', other) in facts:
                    continue
            if refine and label in ('T', 'F'):
                new = cond_facts(fn, b.cond, label)
                if new:
                    if _contradicts(facts, new):
                        continue
                    f2 = _add_facts(facts, new)
            elif refine and isinstance(label, tuple) and label[0] == 'case' and not label[2] and len(label[1]) == 1:
                var = _var_key(fn, b.cond)
                if var is not None:
                    new = [(var, 'eq', label[1][0])]
                    if _contradicts(facts, new):
                        continue
                    f2 = _add_facts(facts, new)
            if refine and label in ('T', 'F'):
                ck2 = cond_key(fn, b.cond)
                if ck2 is not None:
                    f2 = frozenset(set(f2) | {(ck2, 'cnd', label)})
            stack.append((s, 0, f2, trail + [(s.id, s.line, '' if label is None else str(label))]))

    if start == 'entry':
        stack.append((fn.entry, 0, frozenset(start_facts), [(fn.entry.id, fn.entry.line, 'entry')]))
    elif isinstance(start, tuple):
        b, si = start
        s, label = b.succs[si]
        facts = frozenset(start_facts)
        if refine:
            new = cond_facts(fn, b.cond, label)
            facts = _add_facts(facts, new)
        stack.append((s, 0, facts, [(b.id, b.line, 'edge %s' % (label,)), (s.id, s.line, '')]))
    else:
        ev = start
        facts = frozenset(start_facts) if refine else frozenset()   # facts describe the state after the event
        stack.append((ev.block, ev.idx + 1, facts, [(ev.block.id, ev.ln, 'after ' + show(ev.e)[:40] if ev.e else 'start')]))

    n = 0
    while stack:
        b, idx, facts, trail = stack.pop()
        key = (b.id, idx, facts)
        if key in seen:
            continue
        seen.add(key)
        n += 1
        if n > max_states:
            raise RuntimeError('find_path: state budget exceeded in %s' % fn.name)
        pruned = False
        for ev in b.events[idx:]:
            r = on_event(ev, facts)
            if r == 'target':
                return Witness(trail + [(b.id, ev.ln, show(ev.e)[:60] if ev.e else '')])
            if r == 'stop':
                pruned = True
                break
            if refine:
                facts = transfer(fn, ev, facts)
        if pruned:
            continue
        if on_block_end is not None:
            r = on_block_end(b, facts)
            if r == 'target':
                return Witness(trail + [(b.id, b.line, 'cond ' + (show(b.cond)[:50] if b.cond else ''))])
            if r == 'stop':
                continue
        if b.id == fn.exit.id:
            if on_exit is not None and on_exit(facts):
                return Witness(trail + [(b.id, 0, 'exit')])
            continue
        push_succs(b, facts, trail)
    return None


def reaches(fn, start, target_pred, avoid_pred=None, refine=True):
    """Is there a feasible path from start to an event satisfying target_pred
    that does not pass an event satisfying avoid_pred?  Returns Witness/None."""
    def on_event(ev, facts):
        if avoid_pred is not None and avoid_pred(ev):
            return 'stop'
        if target_pred(ev, facts):
            return 'target'
        return None
    return find_path(fn, start, on_event, refine=refine)


def success_return(fn):
    """Predicate for 'a return that may yield 0 / not provably an error'."""
    def pred(ev, facts):
        if ev.k != 'ret':
            return False
        return ret_class(fn, ev, facts) in ('zero', 'unknown', 'void')
    return pred


def find_spin(fn, is_progress, max_states=100000):
    """Search the (block, facts) state graph for a cycle that passes no progress
    event.  Returns a Witness (the cycle) or None.  Facts come from the same
    branch-on-same-variable refinement as find_path, so `quit = 1; continue;`
    followed by `while (!quit)` is not a cycle."""
    start = (fn.entry.id, frozenset())
    succs = {}
    order = []
    work = [start]
    seen = {start}
    while work:
        node = work.pop()
        bid, facts = node
        b = fn.blocks[bid]
        progress = False
        f = facts
        for ev in b.events:
            if is_progress(ev):
                progress = True
            f = transfer(fn, ev, f)
        outs = []
        for s, label in b.succs:
            f2 = f
            if label in ('T', 'F'):
                new = cond_facts(fn, b.cond, label)
                if new:
                    if _contradicts(f, new):
                        continue
                    f2 = _add_facts(f, new)
            n2 = (s.id, f2)
            outs.append((n2, progress))
            if n2 not in seen:
                seen.add(n2)
                work.append(n2)
                if len(seen) > max_states:
                    raise RuntimeError('find_spin: state budget exceeded in %s' % fn.name)
        succs[node] = outs
    # cycle detection on non-progress edges (iterative DFS with colours)
    WHITE, GREY, BLACK = 0, 1, 2
    colour = {n: WHITE for n in seen}
    for root in seen:
        if colour[root] != WHITE:
            continue
        stack = [(root, iter(succs.get(root, [])))]
        colour[root] = GREY
        pathl = [root]
        while stack:
            node, it = stack[-1]
            advanced = False
            for (n2, prog) in it:
                if prog:
                    continue
                if colour[n2] == GREY:
                    i = pathl.index(n2)
                    cyc = pathl[i:] + [n2]
                    return Witness([(n[0], fn.blocks[n[0]].line, '') for n in cyc])
                if colour[n2] == WHITE:
                    colour[n2] = GREY
                    stack.append((n2, iter(succs.get(n2, []))))
                    pathl.append(n2)
                    advanced = True
                    break
            if not advanced:
                colour[node] = BLACK
                stack.pop()
                pathl.pop()
    return None
