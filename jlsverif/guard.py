"""Guard / sanitizer engine (TAINT + callee summaries, DESIGN §3 E1, E15).

A *use* of variable v at event U is guarded w.r.t. a predicate family when no
path from the function entry reaches U without crossing a sanitizing edge:
  * the edge of a compare on v that implies the predicate (v < K), or
  * the zero-result edge of a call to a gate g(.., v, ..) whose own summary says
    "returns 0 => the predicate holds for that parameter" (derived, not listed).
"""
from .ir import strip_casts, const_of, walk, show, kids
from .graph import find_path, ret_class, cond_facts
from . import df

FLIP = {'<': '>', '>': '<', '<=': '>=', '>=': '<=', '==': '==', '!=': '!='}


def var_of(fn, e):
    """Name of a plain local/param reference, or the access path string of a
    field chain rooted at a local/param."""
    e = strip_casts(e)
    if e is None:
        return None
    if e.get('op') == 'ref' and e.get('rk') in ('local', 'param'):
        return e['name']
    if e.get('op') == 'member':
        from .ir import path_of
        p = path_of(e)          # deliberately without alias substitution: the spelled variable
        if p is not None and p.root_kind in ('local', 'param'):
            return str(p)
    return None


def bound_edges(fn, v, K):
    """Edges (block id, label) implying v < K (v unsigned or also tested >= 0)."""
    out = set()
    for b in fn.blocks.values():
        if b.cond is None or len(b.succs) < 2:
            continue
        e = strip_casts(b.cond)
        neg = False
        while e.get('op') == 'un' and e['o'] == '!':
            neg = not neg
            e = strip_casts(e['k'][0])
        if e.get('op') != 'bin' or e['o'] not in FLIP:
            continue
        l, r = e['k']
        o = e['o']
        if var_of(fn, l) == v and const_of(r) is not None:
            c = const_of(r)
        elif var_of(fn, r) == v and const_of(l) is not None:
            c = const_of(l)
            o = FLIP[o]
        else:
            continue
        # label under which v < K is implied
        lab = None
        if o == '<' and c <= K:
            lab = 'T'
        elif o == '<=' and c < K:
            lab = 'T'
        elif o == '>=' and c <= K:
            lab = 'F'
        elif o == '>' and c < K:
            lab = 'F'
        elif o == '==' and 0 <= c < K:
            lab = 'T'
        elif o == '!=' and 0 <= c < K:
            lab = 'F'
        if lab is None:
            continue
        if neg:
            lab = 'F' if lab == 'T' else 'T'
        out.add((b.id, lab))
    return out


def nonneg_edges(fn, v):
    """Edges implying v >= 0 for a signed variable."""
    out = set()
    for b in fn.blocks.values():
        if b.cond is None or len(b.succs) < 2:
            continue
        e = strip_casts(b.cond)
        neg = False
        while e.get('op') == 'un' and e['o'] == '!':
            neg = not neg
            e = strip_casts(e['k'][0])
        if e.get('op') != 'bin' or e['o'] not in FLIP:
            continue
        l, r = e['k']
        o = e['o']
        if var_of(fn, l) == v and const_of(r) is not None:
            c = const_of(r)
        elif var_of(fn, r) == v and const_of(l) is not None:
            c = const_of(l)
            o = FLIP[o]
        else:
            continue
        lab = None
        if o == '<' and c <= 0:
            lab = 'F'
        elif o == '<=' and c < 0:
            lab = 'F'
        elif o == '>=' and c >= 0:
            lab = 'T'
        elif o == '>' and c >= -1:
            lab = 'T'
        elif o == '==' and c >= 0:
            lab = 'T'
        if lab is None:
            continue
        if neg:
            lab = 'F' if lab == 'T' else 'T'
        out.add((b.id, lab))
    return out


def zero_edges_of_call(fn, call_ev):
    """Edges on which the call's result is known to be zero."""
    cid = call_ev.e.get('id')
    b = call_ev.block
    out = set()
    if b.cond is not None and any(n.get('id') == cid for n in walk(b.cond)):
        e = strip_casts(b.cond)
        neg = False
        while e.get('op') == 'un' and e['o'] == '!':
            neg = not neg
            e = strip_casts(e['k'][0])
        if e.get('id') == cid:
            out.add((b.id, 'T' if neg else 'F'))
        elif e.get('op') == 'bin' and e['o'] in ('==', '!='):
            l, r = strip_casts(e['k'][0]), strip_casts(e['k'][1])
            other = r if l.get('id') == cid else (l if r.get('id') == cid else None)
            if other is not None and const_of(other) == 0:
                eq_true = (e['o'] == '==') != neg
                out.add((b.id, 'T' if eq_true else 'F'))
        return out
    # assigned to a variable, then tested
    rv = None
    st = None
    for ev in b.events[call_ev.idx + 1:]:
        if ev.k in ('store', 'decl'):
            lhs, rhs, o = ev.store_parts()
            if rhs is not None and strip_casts(rhs).get('id') == cid and o == '=':
                l0 = strip_casts(lhs)
                if l0.get('op') == 'ref':
                    rv = l0['name']
                    st = ev
                break
    if rv is None:
        return out
    for b2 in fn.blocks.values():
        if b2.cond is None:
            continue
        for label in ('T', 'F'):
            for (var, kind, c) in cond_facts(fn, b2.cond, label):
                if var == rv and kind == 'eq' and c == 0:
                    defs, entry = df.reaching_defs(fn, rv, b2, len(b2.events))
                    if defs == [st] and not entry:
                        out.add((b2.id, label))
    return out


class Gates:
    """Derived gate summaries: gate(g, i, pred_key) -> bool."""

    def __init__(self, P):
        self.P = P
        self.memo = {}
        self.used = set()      # (callee, param index, kind) summaries that some rule relied on
        # a summary evaluated while one of its callees was cut off (depth limit, or a function of a
        # call cycle still being evaluated) may be pessimistic: it is returned but not cached, so the
        # order in which rules ask cannot turn one cut-off into a lasting `no gate`.
        self._progress = set()
        self._cut = False

    def _summarise(self, key, depth, compute):
        if key in self.memo:
            return self.memo[key]
        if key in self._progress or depth > 4:
            self._cut = True
            return False
        self._progress.add(key)
        outer, self._cut = self._cut, False
        try:
            res = compute()
        finally:
            self._progress.discard(key)
        cut = self._cut
        self._cut = outer or cut
        if res or not cut:
            self.memo[key] = res          # `True` relied on a subset of the sanitizing edges: sound either way
        return res

    def param_index(self, fn, name):
        for i, p in enumerate(fn.params):
            if p['name'] == name:
                return i
        return None

    # ---- predicate: param < K
    def bounds_param(self, g, i, K, depth=0):
        key = ('lt', g.name, i, K)
        if i >= len(g.params):
            return False

        def compute():
            v = g.params[i]['name']
            san = self.sanitizing_edges_lt(g, v, K, depth)
            w = find_path(g, 'entry', lambda ev, facts: 'target' if ev.k == 'ret' and ret_class(g, ev, facts) in ('zero', 'unknown', 'void') else None,
                          edge_ok=lambda b, s, label: (b.id, label) not in san)
            return w is None and bool(san)
        return self._summarise(key, depth, compute)

    def sanitizing_edges_lt(self, fn, v, K, depth=0):
        san = set(bound_edges(fn, v, K))
        for ev in fn.calls():
            g = self.P.functions.get(ev.callee)
            if g is None or g is fn:
                continue
            for i, a in enumerate(ev.args):
                if var_of(fn, a) == v and self.bounds_param(g, i, K, depth + 1):
                    ze = zero_edges_of_call(fn, ev)
                    if ze:
                        self.used.add((g.name, i, 'lt'))
                    san |= ze
        return san

    # ---- predicate: the signal `param` is defined and of type T (typed gate)
    def typed_param(self, g, i, type_const, depth=0):
        """g returns 0 => signal_info[param_i].signal_def.signal_type == type_const"""
        key = ('typed', g.name, i, type_const)
        if i >= len(g.params):
            return False

        def compute():
            v = g.params[i]['name']
            san = self.sanitizing_edges_typed(g, v, type_const, depth)
            w = find_path(g, 'entry', lambda ev, facts: 'target' if ev.k == 'ret' and ret_class(g, ev, facts) in ('zero', 'unknown', 'void') else None,
                          edge_ok=lambda b, s, label: (b.id, label) not in san)
            return w is None and bool(san)
        return self._summarise(key, depth, compute)

    def sanitizing_edges_typed(self, fn, v, type_const, depth=0):
        san = set()
        # direct compare: <..signal_info[v]..>.signal_def.signal_type == T  (or a param compared with the type, when the
        # caller passes the constant)
        for b in fn.blocks.values():
            if b.cond is None or len(b.succs) < 2:
                continue
            e = strip_casts(b.cond)
            neg = False
            while e.get('op') == 'un' and e['o'] == '!':
                neg = not neg
                e = strip_casts(e['k'][0])
            if e.get('op') != 'bin' or e['o'] not in ('==', '!='):
                continue
            l, r = strip_casts(e['k'][0]), strip_casts(e['k'][1])
            for x, y in ((l, r), (r, l)):
                if x.get('op') == 'member' and x.get('field') == 'signal_type' and self._indexed_by(fn, x, v):
                    c = const_of(y)
                    ok = (c == type_const)
                    if c is None and isinstance(type_const, tuple):
                        ok = False
                    if c is None:
                        # compared with a parameter that carries the requested type
                        yn = var_of(fn, y)
                        if yn is not None and ('param:' + yn) == type_const:
                            ok = True
                    if ok:
                        eq_true = (e['o'] == '==') != neg
                        san.add((b.id, 'T' if eq_true else 'F'))
        for ev in fn.calls():
            g = self.P.functions.get(ev.callee)
            if g is None or g is fn:
                continue
            for i, a in enumerate(ev.args):
                if var_of(fn, a) != v:
                    continue
                # direct typed gate with a constant type argument, or parametric
                for j, a2 in enumerate(ev.args):
                    c2 = const_of(a2)
                    if j != i and c2 is not None and c2 == type_const and j < len(g.params) and \
                            self.typed_param(g, i, 'param:' + g.params[j]['name'], depth + 1):
                        ze = zero_edges_of_call(fn, ev)
                        if ze:
                            self.used.add((g.name, i, 'typed'))
                        san |= ze
                if self.typed_param(g, i, type_const, depth + 1):
                    ze = zero_edges_of_call(fn, ev)
                    if ze:
                        self.used.add((g.name, i, 'typed'))
                    san |= ze
        return san

    def _indexed_by(self, fn, member_node, v):
        """the member chain contains signal_info[v] (after alias expansion of locals)"""
        seen = 0
        stack = [member_node]
        while stack and seen < 50:
            n = stack.pop()
            seen += 1
            if n.get('op') == 'sub':
                base = strip_casts(n['k'][0])
                if base.get('op') == 'member' and base.get('field') == 'signal_info' and var_of(fn, n['k'][1]) == v:
                    return True
            if n.get('op') == 'ref' and n.get('rk') == 'local':
                # single-assignment alias
                defs = [s for s in fn.stores() if s.k == 'decl' and s.name == n['name'] and s.e is not None]
                if len(defs) == 1:
                    stack.append(defs[0].e)
            for k in n.get('k', []):
                stack.append(k)
        return False
