"""Sample-id frames: API-relative ids (first sample = 0) versus file ids (absolute, offset by the signal's
sample_id_offset).  A forward dataflow over each function that mentions the offset assigns one of
{'api', 'file'} to access paths:

    x + O  : api -> file          x - O : file -> api           (O = a value loaded from .sample_id_offset)
    <payload header>.timestamp and <utc summary>.entries[].sample_id read from a chunk buffer are file ids
    copies keep the frame; adding or subtracting an unframed quantity keeps the frame
    re-assigning a pointer forgets what was known about the object it pointed to

and reports: a compare (or min/max style selection) whose two sides are known to be in different frames, the
offset added to a file id, the offset subtracted from an api id.  Unknown never reports.
"""
from ..ir import strip_casts, const_of, walk, show, kids

API, FILE = 'api', 'file'


def _is_offset_member(e):
    e = strip_casts(e)
    return e is not None and e.get('op') == 'member' and e.get('field') == 'sample_id_offset'


class Frames:
    def __init__(self, fn, P=None):
        self.fn = fn
        self.P = P
        self.offs = set()
        for ev in fn.stores():
            lhs, rhs, o = ev.store_parts()
            l0 = strip_casts(lhs)
            if rhs is not None and o == '=' and l0.get('op') == 'ref' and _is_offset_member(rhs):
                self.offs.add(l0['name'])
        self.reports = []
        self._seen = set()
        self.reporting = False
        # a parameter or local that is never assigned after its definition and to which the offset is
        # added (subtracted) somewhere is an api (file) id wherever it is used: the function says so itself
        assigned = {}
        for ev in fn.events():
            if ev.k == 'store':
                l0 = strip_casts(ev.store_parts()[0])
                if l0.get('op') == 'ref':
                    assigned[l0['name']] = assigned.get(l0['name'], 0) + 1
        self.fixed = {}
        self.expects = {}      # what a caller should pass: parameters only ever compared with ids read from the file
        # a parameter whose only modifications add (subtract) the offset is an api (file) id from the entry to that point
        self.initial = {}
        pnames = {q['name'] for q in fn.params}
        mods = {}
        for ev in fn.events():
            if ev.k == 'store':
                l0 = strip_casts(ev.store_parts()[0])
                if l0.get('op') == 'ref' and l0.get('name') in pnames:
                    mods.setdefault(l0['name'], []).append(ev)
        for name, evs in mods.items():
            kinds = set()
            for ev in evs:
                lhs, rhs, o = ev.store_parts()
                kinds.add(o if (o in ('+=', '-=') and rhs is not None and self.is_off(rhs)) else 'other')
            if kinds == {'+='}:
                self.initial[name] = API
            elif kinds == {'-='}:
                self.initial[name] = FILE
        # a parameter that is never assigned and is compared with a value read from the file is expected to be a file id
        for b in fn.blocks.values():
            for e in [ev.e for ev in b.events if ev.e is not None] + ([b.cond] if b.cond is not None else []):
                for n in walk(e):
                    if n.get('op') == 'bin' and n['o'] in ('<', '<=', '>', '>=', '==', '!='):
                        for x, y in ((n['k'][0], n['k'][1]), (n['k'][1], n['k'][0])):
                            x0 = strip_casts(x)
                            if x0.get('op') == 'ref' and x0.get('rk') == 'param' and not assigned.get(x0['name']) and self.default(strip_casts(y)) == frozenset([FILE]):
                                self.expects.setdefault(x0['name'], set()).add(FILE)
        for b in fn.blocks.values():
            for e in [ev.e for ev in b.events if ev.e is not None] + ([b.cond] if b.cond is not None else []):
                for n in walk(e):
                    if n.get('op') == 'bin' and n['o'] in ('+', '-') and self.is_off(n['k'][1]):
                        a = strip_casts(n['k'][0])
                        if a.get('op') == 'ref' and a.get('rk') == 'param' and not assigned.get(a['name']):
                            self.fixed.setdefault(a['name'], set()).add(API if n['o'] == '+' else FILE)

    def relevant(self):
        if self.offs:
            return True
        for b in self.fn.blocks.values():
            for e in [ev.e for ev in b.events if ev.e is not None] + ([b.cond] if b.cond is not None else []):
                if any(_is_offset_member(n) for n in walk(e)):
                    return True
        return False

    def is_off(self, e):
        e = strip_casts(e)
        if e is None:
            return False
        if _is_offset_member(e):
            return True
        return e.get('op') == 'ref' and e.get('name') in self.offs

    def key(self, e):
        e = strip_casts(e)
        if e is None:
            return None
        if e.get('op') in ('ref', 'member', 'sub', 'un'):
            p = self.fn.path(e)
            if p is not None:
                return str(p)
        return None

    def default(self, e):
        """frame of a value as it is read from a chunk buffer"""
        op = e.get('op')
        if op == 'member' and e.get('field') == 'timestamp':
            base = strip_casts(e['k'][0]) if e.get('k') else None
            if base is not None and base.get('op') == 'member' and base.get('field') == 'header':
                return frozenset([FILE])          # payload header of a chunk read from the file
        if op == 'member' and e.get('field') == 'timestamp' and e.get('rec') == 'jls_index_entry_s':
            if any(n.get('op') == 'member' and n.get('field') == 'entries' for n in walk(e)):
                return frozenset([FILE])          # entry of a time-series index read from the file
        if op == 'member' and e.get('field') == 'sample_id' and e.get('rec') == 'jls_utc_summary_entry_s':
            if any(n.get('op') == 'member' and n.get('field') == 'entries' for n in walk(e)):
                return frozenset([FILE])          # entry of a UTC summary payload read from the file
        return frozenset()

    def frame(self, e, st):
        """set of frames the value may be in on some path to this point (empty = not known)"""
        e = strip_casts(e)
        if e is None:
            return frozenset()
        k = self.key(e)
        if k is not None and k in st:
            v = st[k]
            if '?' in v:
                return frozenset()
            if 'D' in v:
                d = self.default(e)
                if not d:
                    return frozenset()       # unknown on some path: say nothing
                v = (v - {'D'}) | d
            return frozenset(v)
        d = self.default(e)
        if d:
            return d
        op = e.get('op')
        if op == 'ref' and e.get('name') in self.fixed and len(self.fixed[e['name']]) == 1:
            return frozenset(self.fixed[e['name']])
        if op == 'bin' and e['o'] in ('+', '-'):
            a, b = e['k']
            if self.is_off(b):
                return frozenset([FILE if e['o'] == '+' else API])
            if e['o'] == '+' and self.is_off(a):
                return frozenset([FILE])
            fa, fb = self.frame(a, st), self.frame(b, st)
            if fa and fb:
                return frozenset()
            return fa or (fb if e['o'] == '+' else frozenset())
        if op == 'cond':
            ks = kids(e)
            if len(ks) == 3:
                return self.frame(ks[1], st) | self.frame(ks[2], st)
        return frozenset()

    def report(self, where, what, key):
        if self.reporting and key not in self._seen:
            self._seen.add(key)
            self.reports.append((where, what))

    def check_expr(self, e, st, ln):
        for n in walk(e):
            if n.get('op') == 'bin' and n['o'] in ('<', '<=', '>', '>=', '==', '!='):
                fa, fb = self.frame(n['k'][0], st), self.frame(n['k'][1], st)
                if fa and fb and (len(fa | fb) > 1):
                    self.report('%s:%d' % (self.fn.file, n.get('ln', ln)),
                                'the compare %s can take %s as %s id while %s is a%s id' % (show(n)[:70], show(n['k'][0])[:30], '/'.join(sorted(fa)), show(n['k'][1])[:30], ' ' + '/'.join(sorted(fb))),
                                ('cmp', show(n)))
            if n.get('op') == 'bin' and n['o'] in ('+', '-') and self.is_off(n['k'][1]):
                fa = self.frame(n['k'][0], st)
                if (n['o'] == '+' and FILE in fa) or (n['o'] == '-' and API in fa):
                    self.report('%s:%d' % (self.fn.file, n.get('ln', ln)),
                                'the offset is %s %s, which can already be a%s id' % ('added to' if n['o'] == '+' else 'subtracted from', show(n['k'][0])[:40], ' file' if n['o'] == '+' else 'n api'),
                                ('twice', show(n)))

    def transfer(self, ev, st):
        st = dict(st)
        if ev.e is not None:
            self.check_expr(ev.e, st, ev.ln)
        if ev.k == 'decl' and ev.e is not None and ev.e.get('op') == 'init' and ev.e.get('fields'):
            for fname, sub in zip(ev.e['fields'], ev.e.get('k', [])):
                f = self.frame(sub, st)
                st['%s.%s' % (ev.name, fname)] = f if f else frozenset(['?'])
            return st
        if ev.k in ('store', 'decl'):
            lhs, rhs, o = ev.store_parts()
            k = self.key(lhs)
            l0 = strip_casts(lhs)
            indexed = any(n.get('op') == 'sub' and const_of(n['k'][1]) is None for n in walk(lhs))
            if o in ('+=', '-=') and rhs is not None and self.is_off(rhs) and indexed:
                # one element of an array per iteration: the elements are not told apart, so this is a weak update
                if k:
                    st[k] = frozenset(st.get(k, frozenset(['D']))) | frozenset([FILE if o == '+=' else API])
            elif o in ('+=', '-=') and rhs is not None and self.is_off(rhs):
                cur = self.frame(lhs, st)
                if (o == '+=' and FILE in cur) or (o == '-=' and API in cur):
                    self.report(ev.where(), 'the offset is %s %s, which can already be a%s id' % ('added to' if o == '+=' else 'subtracted from', show(lhs)[:40], ' file' if o == '+=' else 'n api'),
                                ('twice', show(ev.e)))
                if k:
                    st[k] = frozenset([FILE if o == '+=' else API])
            elif o == '=' and rhs is not None:
                f = self.frame(rhs, st)
                # a pointer that is re-assigned: forget facts about the object it pointed to
                if l0.get('op') == 'ref':
                    pre = str(l0['name'])
                    for kk in list(st):
                        if kk == pre or kk.startswith(pre + '.') or kk.startswith(pre + '->') or kk.startswith(pre + '['):
                            del st[kk]
                if k:
                    st[k] = f if f else frozenset(['?'])
            elif k and o not in ('+=', '-=', 'pre++', 'post++', 'pre--', 'post--'):
                st[k] = frozenset(['?'])
        elif ev.k == 'call':
            # a helper of the same unit that itself adds (subtracts) the offset to a parameter it never assigns
            # expects an api (file) id there
            g = self.P.functions.get(ev.callee) if (self.P is not None and ev.callee) else None
            if g is not None and g is not self.fn:
                if not hasattr(g, '_frames_fixed'):
                    fg_ = Frames(g)
                    g._frames_fixed = dict(fg_.expects)
                    g._frames_fixed.update(fg_.fixed)
                for i_, a in enumerate(ev.args):
                    if i_ >= len(g.params):
                        break
                    want = g._frames_fixed.get(g.params[i_]['name'])
                    if not want or len(want) != 1:
                        continue
                    fa = self.frame(a, st)
                    if fa and not (fa & want):
                        self.report(ev.where(), '%s() treats its parameter %s as a%s id (it %s the offset), but %s is a%s id here' %
                                    (g.name, g.params[i_]['name'], 'n api' if API in want else ' file', 'adds' if API in want else 'subtracts it or compares the value with ids read from the file; it never adds',
                                     show(a)[:40], 'n api' if API in fa else ' file'), ('arg', show(ev.e)))
            # out-parameters: &x passed to a callee is no longer known
            for a in ev.args:
                a0 = strip_casts(a)
                if a0 is not None and a0.get('op') == 'un' and a0.get('o') == '&':
                    k = self.key(a0['k'][0])
                    if k:
                        for kk in list(st):
                            if kk == k or kk.startswith(k + '.'):
                                del st[kk]
        return st

    def run(self):
        fn = self.fn
        IN = {fn.entry.id: {k_: frozenset([v_]) for k_, v_ in self.initial.items()}}
        work = [fn.entry]
        visits = {}
        while work:
            b = work.pop()
            visits[b.id] = visits.get(b.id, 0) + 1
            if visits[b.id] > 50:
                continue
            st = dict(IN.get(b.id, {}))
            for ev in b.events:
                st = self.transfer(ev, st)
            if b.cond is not None:
                self.check_expr(b.cond, st, b.line)
            for s, _ in b.succs:
                if s.id not in IN:
                    IN[s.id] = dict(st)
                    work.append(s)
                else:
                    # may-analysis: union of what is possible on either path ('D' = as read from the buffer, '?' = unknown)
                    merged = {}
                    for k in set(IN[s.id]) | set(st):
                        merged[k] = frozenset(IN[s.id].get(k, frozenset(['D']))) | frozenset(st.get(k, frozenset(['D'])))
                    if merged != IN[s.id]:
                        IN[s.id] = merged
                        work.append(s)
        # report from the fixpoint only
        self.reporting = True
        for b in fn.blocks.values():
            if b.id not in IN:
                continue
            st = dict(IN[b.id])
            for ev in b.events:
                st = self.transfer(ev, st)
            if b.cond is not None:
                self.check_expr(b.cond, st, b.line)
        return self.reports


# which property a function that handles the offset belongs to (a report in a function of another
# property's read path would be an alarm on code where this property holds)
def kind_of(fn):
    n = fn.name
    if 'annotation' in n:
        return 'annotation'
    if 'utc' in n:
        return 'utc'
    if 'statistics' in n:
        return 'statistics'
    return 'samples'


def frames_rule(ctx, P, rule, files=('src/reader.c', 'src/core.c'), kinds=('samples',), minimum=1):
    n = 0
    for fn in P.all_functions():
        if fn.file not in files or kind_of(fn) not in kinds:
            continue
        F = Frames(fn, P)
        if not F.relevant():
            continue
        n += 1
        ctx.saw(fn, 1)
        reps = F.run()
        ctx.ob(rule, not reps, fn.name, 'sample-id frames (api vs file ids)', reps[0][0] if reps else fn.where(),
               'offset applied once per value; no compare mixes an api id with a file id' if not reps else '; '.join(r[1] for r in reps[:2]))
    ctx.floor('functions handling the sample-id offset (%s)' % '/'.join(kinds), n, minimum)
