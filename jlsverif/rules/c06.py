"""C06 — threaded writer applies accepted calls exactly once, in order.

Decides the locking / publication / typestate clauses of DESIGN §4 C06; the
ring arithmetic (C08) and content equality are not decided.
"""
from ..export import AnalysisBroken
from ..ir import strip_casts, const_of, walk, show, kids, maximal_lvalues
from ..graph import find_path, ret_class, ev_dominates, control_deps_transitive, cond_facts
from ..lockset import Locksets
from .. import df
from .common import exceptions, consumed

EXPL = ('Lockset dataflow (must/may) over threaded_writer.c and the POSIX backend with automatically summarised lock wrappers; '
        'access rules for the message ring and the synchronous writer; publish-after-fill; typestate of the peeked message '
        '(no use after pop, exactly one pop per processed message, pop only after processing); no trace on a failed send; '
        'message-type table agreement.')
NOT_DECIDED = 'Equality of the produced file with the synchronous reference; FIFO integrity of the ring arithmetic (C08).'

TW = 'src/threaded_writer.c'
MSG, PROC = 'msg_mutex', 'process_mutex'


def setup(sess, config='default'):
    P = sess.prog(config)
    L = Locksets(P)
    L.may_acquire = {}
    for w, want in (('jls_bkt_msg_lock', [(MSG, +1)]), ('jls_bkt_msg_unlock', [(MSG, -1)]),
                    ('jls_bkt_process_lock', [(PROC, +1)]), ('jls_bkt_process_unlock', [(PROC, -1)])):
        P.fn(w)
        got = L.summaries.get(w)
        if got == [(want[0][0], 0)] and want[0][1] > 0:
            # the wrapper acquires on some returns only (timed / try acquisition): reported under
            # C06.3; the callers are then analysed as if it had acquired, so that this one cause
            # is not repeated at every access of the ring.
            L.may_acquire[w] = want[0][0]
            L.summaries[w] = want
            L.results.clear()
            L.exit_state.clear()
            continue
        if got != want:
            raise AnalysisBroken('lock wrapper %s summarised as %s, expected %s' % (w, got, want))
    return P, L


def run(ctx, sess):
    ctx.explanation = EXPL
    ctx.not_decided = NOT_DECIDED
    P, L = setup(sess)
    exc = exceptions('C06')
    rules(ctx, P, L, exc)


def run_thorough(ctx, sess):
    # the debug-log configuration makes diagnostic reads of the queue live code
    P, L = setup(sess, 'logall')
    exc = exceptions('C06')
    rules(ctx, P, L, exc, suffix='[logall]')


def rules(ctx, P, L, exc, suffix=''):
    R = lambda r: r
    ctx.rule('C06.1', 'every jls_mrb_* call and every access to the ring (self->mrb.*) holds the message lock, or precedes the start of the writer thread')
    ctx.rule('C06.2', 'every call into the synchronous writer (jls_wr_*) from the threaded writer holds the process lock, or happens before the thread starts / after it was joined')
    ctx.rule('C06.3', 'lock pairing: no lock is held at any exit, and may-held equals must-held at every lock operation')
    ctx.rule('C06.4', 'lock order: no lock is acquired while another may be held')
    ctx.rule('C06.5', 'publish after fill: every store/copy through the pointer returned by jls_mrb_alloc holds the message lock')
    ctx.rule('C06.6', 'typestate of the peeked message: no use after pop; a processed message is popped exactly once before the next peek; pop only after processing')
    ctx.rule('C06.7', 'a failed allocation leaves no trace: no signal, no success return on the NULL edge of jls_mrb_alloc')
    ctx.rule('C06.8', 'message kinds: every msg_type a sender stores has a case in the dispatch switch; the name table covers every kind; every queue allocation is sizeof(header) + payload')
    ctx.rule('C06.10', 'the ring never reports a full queue as empty and never hands out bytes of a message that was not popped: on every path of the ring allocator to a non-NULL return the next write index stays strictly below the read index (size + 4 < tail) or inside the ring with room for a wrap marker (size + 8 <= ring size)')
    ctx.rule('C06.11', 'nothing accepted is abandoned: the consumer leaves its drain loop only on an empty queue and examines `quit` only in the outer loop')
    ctx.rule('C06.12', 'same bytes as the synchronous call: where the synchronous entry derives the payload length from the text (strlen) instead of the caller\'s data_size, the threaded entry that queues the same call does so too before it copies the payload into the queue')
    ctx.rule('C06.13', 'all the bits of a sample block are queued: the byte length jls_twr_fsr hands to the queue equals ceil(sample count x entry size / 8) for every accepted entry size and every count residue (set-of-constants evaluation of the length at the send)')
    ctx.rule('C06.14', 'no samples without a size: jls_twr_fsr reaches its send only with a non-zero cached entry size (evaluated with the size bound to 0: no path may reach msg_send) - a signal that was not defined through this writer has size 0, and a message that announces N samples with an empty payload makes the writer thread copy N samples from whatever follows it in the queue')
    ctx.rule('C06.15', 'same order as the synchronous writer: every call that changes what later data means travels through the queue - outside the consumer, the open and the close, the threaded writer calls the synchronous writer directly only for the two definition requests (confirmed by reading: a definition must exist before data for it is queued, and it touches no state of queued messages); a setting applied directly overtakes the data queued before it')
    ctx.rule('C06.9', 'flush tickets: flush_send_id is stored only under the message lock, flush_processed_id only under the process lock (or before the thread starts)')

    fns = P.fns_in(TW)
    if len(fns) < 12:
        raise AnalysisBroken('threaded_writer.c functions: %d' % len(fns))
    for f in fns:
        ctx.saw(f)

    def thread_not_running(fn, ev):
        """ev dominates the thread start in this function, or lies on its failure edge, or after the join."""
        starts = list(fn.calls('jls_bkt_initialize'))
        if starts and all(find_path(fn, s, lambda e2, facts: 'target' if e2 is ev else None, refine=False) is None for s in starts):
            return 'not reachable from the thread start (jls_bkt_initialize)'
        joins = list(fn.calls('jls_bkt_finalize'))
        if joins and any(ev_dominates(j, ev) for j in joins):
            return 'after jls_bkt_finalize (join)'
        if starts:
            # control dependent on the NULL result of initialise
            for (bid, label) in control_deps_transitive(fn, ev.block.id):
                c = fn.blocks[bid].cond
                for (var, kind, cv) in cond_facts(fn, c, label):
                    if var.endswith('.bk') and kind == 'eq' and cv == 0:
                        return 'thread failed to start'
        return None

    # ---- C06.1
    n = 0
    for fn in fns:
        for ev in fn.events():
            if ev.k == 'call' and ev.callee and ev.callee.startswith('jls_mrb_'):
                n += 1
                ctx.saw(fn, 1)
                must, may = L.state_before(fn, ev)
                why = None if MSG in must else thread_not_running(fn, ev)
                k = '%s:%s' % (fn.name, ev.callee)
                if MSG not in must and why is None and k in exc and not list(P.fn(ev.callee).events('store')) \
                        and not list(P.fn(ev.callee).calls()):
                    ctx.note('exception %s (callee verified store-free): %s' % (k, exc[k]))
                    continue
                ctx.ob('C06.1', MSG in must or why is not None, fn.name, '%s()' % ev.callee, ev.where(),
                       'message lock held' if MSG in must else (why or 'ring operation without the message lock (must-held: %s)' % sorted(must)))
        # direct field accesses of the ring
        for b in fn.blocks.values():
            items = [(ev, ev.e) for ev in b.events if ev.e is not None]
            if b.cond is not None:
                items.append((None, b.cond))
            for ev, e in items:
                if ev is not None and ev.k == 'call' and ev.callee and ev.callee.startswith('jls_mrb_'):
                    continue
                for node in walk(e):
                    if node.get('op') == 'member' and node.get('rec') == 'jls_mrb_s':
                        n += 1
                        must, may = (L.state_before(fn, ev) if ev is not None else L.state_at_cond(fn, b))
                        k = '%s:mrb.%s' % (fn.name, node['field'])
                        if MSG not in must and k in exc:
                            ctx.note('exception %s: %s' % (k, exc[k]))
                            continue
                        ctx.ob('C06.1', MSG in must, fn.name, 'access mrb.%s%s' % (node['field'], suffix), '%s:%d' % (fn.file, node.get('ln', 0)),
                               'direct ring field access; message lock held: %s' % (MSG in must))
    ctx.floor('ring operations found', n, 4)

    # ---- C06.2
    n = 0
    for fn in fns:
        for ev in fn.calls():
            if not (ev.callee and ev.callee.startswith('jls_wr_') and P.has_fn(ev.callee) and P.fn(ev.callee).api):
                continue
            n += 1
            ctx.saw(fn, 1)
            must, may = L.state_before(fn, ev)
            why = None
            if PROC not in must:
                if ev.callee == 'jls_wr_open':
                    why = 'creates the writer (no thread yet)'
                else:
                    why = thread_not_running(fn, ev)
            ctx.ob('C06.2', PROC in must or why is not None, fn.name, '%s()' % ev.callee, ev.where(),
                   'process lock held' if PROC in must else (why or 'synchronous writer entered without the process lock while the writer thread may run'))
    ctx.floor('jls_wr_* call sites in threaded_writer.c', n, 9)

    # ---- C06.3 / C06.4 over threaded writer + backend
    scope = fns + [f for f in P.fns_in('src/backend_posix.c')]
    for fn in scope:
        has = [ev for ev in fn.calls() if L._ops_of_event(fn, ev)]
        if not has:
            continue
        ctx.saw(fn)
        must, may = L.exit_of(fn)
        wrapper = fn.name in L.summaries
        if fn.name in L.may_acquire or (wrapper and any(op == 0 for _, op in L.summaries[fn.name])):
            lock = L.may_acquire.get(fn.name) or L.summaries[fn.name][0][0]
            sites = [(g, ev) for g in scope for ev in g.calls(fn.name)]
            unchecked = [(g, ev) for g, ev in sites if not consumed(g, ev)[0]]
            ctx.ob('C06.3', not unchecked, fn.name, 'wrapper acquires on every return', fn.where(),
                   'callers test the result of the conditional acquisition' if not unchecked else
                   'may return without holding %s (timed or try acquisition) and %d of %d call sites ignore the result, e.g. %s at %s: '
                   'the caller then touches shared state without the lock' % (lock, len(unchecked), len(sites), unchecked[0][0].name, unchecked[0][1].where()))
        elif wrapper:
            ctx.ob('C06.3', must == may, fn.name, 'wrapper exit state', fn.where(), 'wrapper: exit must=%s may=%s' % (sorted(must), sorted(may)))
        else:
            ctx.ob('C06.3', not may, fn.name, 'locks at exit', fn.where(),
                   'no lock held at exit' if not may else 'may hold %s at an exit (must: %s)' % (sorted(may), sorted(must)))
        for ev in has:
            m0, y0 = L.state_before(fn, ev)
            ctx.ob('C06.3', m0 == y0, fn.name, 'lockset at %s' % ev.callee, ev.where(),
                   'must == may' if m0 == y0 else 'lock held on some paths only: must=%s may=%s' % (sorted(m0), sorted(y0)))
            ops = L._ops_of_event(fn, ev)
            for lock, op in ops:
                if op > 0:
                    others = set(t for t in y0 if not t.startswith('-')) - {lock}
                    ctx.ob('C06.4', not others and lock not in y0, fn.name, 'acquire %s' % lock, ev.where(),
                           'acquired with nothing held' if not others and lock not in y0 else
                           ('re-acquire of a held lock' if lock in y0 else 'acquired while %s may be held' % sorted(others)))

    # ---- C06.5 / C06.7
    n5 = 0
    for fn in fns:
        for al in fn.calls('jls_mrb_alloc'):
            n5 += 1
            # variable receiving the pointer
            var = None
            for ev in al.block.events[al.idx + 1:]:
                if ev.k in ('store', 'decl'):
                    lhs, rhs, o = ev.store_parts()
                    if rhs is not None and strip_casts(rhs).get('id') == al.e.get('id'):
                        var = strip_casts(lhs).get('name')
                        st = ev
                        break
            if var is None:
                ctx.ob('C06.5', False, fn.name, 'jls_mrb_alloc result', al.where(), 'result not bound to a local')
                continue
            # every event that writes through var
            for ev in fn.events():
                writes = False
                if ev.k == 'call' and ev.callee in ('memcpy', '__builtin_memcpy', 'memset', '__builtin___memcpy_chk', 'memmove'):
                    if any(n_.get('op') == 'ref' and n_.get('name') == var for n_ in walk(ev.args[0])):
                        writes = True
                elif ev.k == 'store' and ev is not st:
                    lhs, rhs, o = ev.store_parts()
                    l0 = strip_casts(lhs)
                    if l0.get('op') != 'ref' and any(n_.get('op') == 'ref' and n_.get('name') == var for n_ in walk(l0)):
                        writes = True
                if writes:
                    must, may = L.state_before(fn, ev)
                    ctx.ob('C06.5', MSG in must, fn.name, 'fill %s' % show(ev.e)[:40], ev.where(),
                           'filled under the message lock' if MSG in must else 'message bytes written after the lock was released (consumer may already see the message)')
            # C06.7: NULL edge
            def on_event(ev, facts):
                if ev.k == 'call' and ev.callee == 'jls_bkt_msg_signal':
                    return 'target'
                if ev.k == 'ret' and ret_class(fn, ev, facts) in ('zero', 'unknown'):
                    return 'target'
                return None
            w = find_path(fn, st, on_event, start_facts=frozenset([(var, 'eq', 0)]))
            ctx.ob('C06.7', w is None, fn.name, 'NULL edge of jls_mrb_alloc', al.where(),
                   'failure path neither signals nor returns success' if w is None else 'failed allocation reaches a signal or a success return',
                   w.render() if w else None)
            # C06.8 allocation size
            sz = al.args[1]
            def has_sizeof_hdr(n_):
                return n_.get('op') == 'sizeof' and n_.get('of', '').endswith('msg_header_s')
            ok = df.derives(fn, sz, has_sizeof_hdr, al.block, al.idx) and \
                strip_casts(sz).get('op') in ('ref', 'bin')
            ctx.ob('C06.8', ok, fn.name, 'allocation size', al.where(), 'size = %s includes sizeof(msg_header_s): %s' % (show(sz), ok))
    if n5 < 1:
        raise AnalysisBroken('jls_mrb_alloc call not found')

    # ---- C06.6 typestate in the consumer
    run = P.fn('jls_twr_run')
    pops = list(run.calls('jls_mrb_pop'))
    peeks = []
    popsrc = []
    for ev in run.stores():
        lhs, rhs, o = ev.store_parts()
        if rhs is not None and any(n_.get('op') == 'call' and n_.get('callee') == 'jls_mrb_peek' for n_ in walk(rhs)):
            peeks.append((ev, strip_casts(lhs).get('name')))
        if rhs is not None and any(n_.get('op') == 'call' and n_.get('callee') == 'jls_mrb_pop' for n_ in walk(rhs)):
            popsrc.append((ev, strip_casts(lhs).get('name')))
    if not peeks and not popsrc:
        raise AnalysisBroken('consumer anchor: jls_twr_run takes no message from the ring (no jls_mrb_peek / jls_mrb_pop result is used)')
    for ev, v in popsrc:
        # the pointer returned by pop refers to a slot that is already released
        def on_use(e2, facts, v=v, ev=ev):
            if e2 is ev:
                return None
            if e2.k in ('store', 'decl'):
                l0 = strip_casts(e2.store_parts()[0])
                if l0.get('op') == 'ref' and l0.get('name') == v and not any(n_.get('op') == 'ref' and n_.get('name') == v for n_ in walk(e2.store_parts()[1] or {})):
                    return 'stop'
            if e2.e is not None and e2.k in ('call', 'store', 'decl', 'ret') and any(n_.get('op') == 'ref' and n_.get('name') == v for n_ in walk(e2.e)):
                # a plain NULL test is not a use; everything else is
                return 'target'
            return None
        w = find_path(run, ev, on_use)
        ctx.ob('C06.6', w is None, run.name, 'message taken with jls_mrb_pop is not used after its slot was released', ev.where(),
               'not used' if w is None else 'the consumer processes a message whose ring slot is already released (a producer can overwrite it while it is being written to the file)',
               w.render() if w else None)
    if not peeks:
        peeks = popsrc
    msgvar = peeks[0][1]
    tracked = {msgvar}
    for _ in range(3):
        for ev in run.stores():
            lhs, rhs, o = ev.store_parts()
            l0 = strip_casts(lhs)
            if rhs is not None and l0.get('op') == 'ref' and any(n_.get('op') == 'ref' and n_.get('name') in tracked for n_ in walk(rhs)):
                if l0.get('t', ev.t or '').startswith('p') or (ev.t or '').startswith('p'):
                    tracked.add(l0['name'])
    peek_evs = [p[0] for p in peeks]

    def uses_var(ev, v):
        """dereference or pass of v (a plain NULL test or re-assignment is not a use)."""
        if ev.k in ('store', 'decl'):
            lhs, rhs, o = ev.store_parts()
            l0 = strip_casts(lhs)
            if l0.get('op') == 'ref' and l0.get('name') == v:
                return False
            return any(n_.get('op') == 'ref' and n_.get('name') == v for n_ in walk(ev.e)) if ev.e else False
        if ev.k == 'call':
            return any(n_.get('op') == 'ref' and n_.get('name') == v for a in ev.args for n_ in walk(a))
        if ev.k == 'ret':
            return any(n_.get('op') == 'ref' and n_.get('name') == v for n_ in walk(ev.e)) if ev.e else False
        return False

    for pop in pops:
        for v in sorted(tracked):
            def on_event(ev, facts, v=v):
                if ev.k in ('store', 'decl'):
                    lhs, rhs, o = ev.store_parts()
                    l0 = strip_casts(lhs)
                    if l0.get('op') == 'ref' and l0.get('name') == v:
                        if uses_var(ev, v):
                            return 'target'
                        # re-assigned: from a peek for msg, or from anything for derived pointers
                        if v != msgvar or ev in peek_evs:
                            return 'stop'
                if uses_var(ev, v):
                    return 'target'
                return None
            w = find_path(run, pop, on_event)
            ctx.ob('C06.6', w is None, run.name, 'no use of `%s` after pop' % v, pop.where(),
                   'released message never used' if w is None else 'the popped (released) message is still used', w.render() if w else None)
    # exactly one pop between a successful peek and the next peek
    for pk, v in peeks:
        def on_event(ev, facts):
            if ev.k == 'call' and ev.callee == 'jls_mrb_pop':
                return 'stop'
            if ev in peek_evs:
                return 'target'
            return None
        w = find_path(run, pk, on_event, start_facts=frozenset([(v, 'ne', 0)]))
        ctx.ob('C06.6', w is None, run.name, 'processed message is popped before the next peek', pk.where(),
               'every path pops' if w is None else 'a path from a non-NULL peek to the next peek pops nothing (message processed twice)', w.render() if w else None)
        # pop only after processing: between peek(non-NULL) and pop lies the dispatch (a jls_wr_* call or the quit store is reachable only before pop)
        def on_event2(ev, facts):
            if ev.k == 'call' and ev.callee == 'jls_bkt_process_lock':
                return 'stop'
            if ev.k == 'call' and ev.callee == 'jls_mrb_pop':
                return 'target'
            if ev in peek_evs:
                return 'stop'
            return None
        w = find_path(run, pk, on_event2, start_facts=frozenset([(v, 'ne', 0)]))
        ctx.ob('C06.6', w is None, run.name, 'pop only after the message was processed', pk.where(),
               'dispatch lies between peek and pop' if w is None else 'a message can be popped before it was dispatched', w.render() if w else None)
    for pop in pops:
        def on_event3(ev, facts):
            if ev in peek_evs:
                return 'stop'
            if ev.k == 'call' and ev.callee == 'jls_mrb_pop':
                return 'target'
            return None
        w = find_path(run, pop, on_event3)
        ctx.ob('C06.6', w is None, run.name, 'no second pop before the next peek', pop.where(),
               'single pop' if w is None else 'two pops without a peek in between (a message is lost)', w.render() if w else None)

    # ---- C06.8 tables
    cases = set()
    sw = None
    for b in run.blocks.values():
        if b.term and b.term.get('kind') == 'SwitchStmt':
            p = run.path(strip_casts(b.cond)) if b.cond else None
            if p is not None and p.last_field() == 'msg_type':
                sw = b
                for s, label in b.succs:
                    if isinstance(label, tuple) and label[0] == 'case':
                        cases.update(label[1])
    if sw is None:
        raise AnalysisBroken('dispatch switch on msg_type not found in jls_twr_run')
    en = P.enum('message_e')
    kinds = {it['name']: it['v'] for it in en['items']}
    count = kinds.get('MSG_ITEM_COUNT')
    if count is None:
        raise AnalysisBroken('MSG_ITEM_COUNT not found')
    sent = {}
    for fn in fns:
        for ev in fn.events('decl'):
            if ev.t == 's:msg_header_s' and ev.e is not None and ev.e.get('op') == 'init':
                fields = ev.e.get('fields', [])
                if 'msg_type' in fields:
                    v = const_of(kids(ev.e)[fields.index('msg_type')])
                    sent.setdefault(v, []).append((fn, ev))
        for ev in fn.events('store'):
            lhs, rhs, o = ev.store_parts()
            l0 = strip_casts(lhs)
            if l0.get('op') == 'member' and l0.get('field') == 'msg_type' and rhs is not None:
                sent.setdefault(const_of(rhs), []).append((fn, ev))
    if len(sent) < 5:
        raise AnalysisBroken('sender message kinds found: %d' % len(sent))
    for v, where in sorted(sent.items(), key=lambda x: (x[0] is None, x[0])):
        fn, ev = where[0]
        name = [k for k, x in kinds.items() if x == v]
        ctx.ob('C06.8', v in cases, fn.name, 'msg_type %s has a handler' % (name[0] if name else v), ev.where(),
               'case present' if v in cases else 'message kind is sent but the dispatch switch has no case for it')
    g = P.glob('message_str')
    ext = g.get('extent')
    ctx.ob('C06.8', ext is not None and ext >= count, 'message_str', 'name table covers every message kind', '%s:%d' % (g['file'], g['line']),
           'extent %s, MSG_ITEM_COUNT %d' % (ext, count))

    # ---- C06.9
    n9 = 0
    for fn in fns:
        for ev in fn.stores():
            lhs, rhs, o = ev.store_parts()
            l0 = strip_casts(lhs)
            if l0.get('op') == 'member' and l0.get('field') in ('flush_send_id', 'flush_processed_id'):
                n9 += 1
                must, may = L.state_before(fn, ev)
                need = MSG if l0['field'] == 'flush_send_id' else PROC
                why = None if need in must else thread_not_running(fn, ev)
                ctx.ob('C06.9', need in must or why is not None, fn.name, 'store to %s' % l0['field'], ev.where(),
                       '%s held' % need if need in must else (why or 'ticket stored without %s' % need))
    ctx.floor('flush ticket stores', n9, 3)
    for fn in fns:
        for b in fn.blocks.values():
            items = [(ev.e, ev) for ev in b.events if ev.e is not None]
            if b.cond is not None:
                items.append((b.cond, None))
            for e, ev in items:
                skip = None
                if ev is not None and ev.k == 'store' and ev.store_parts()[2] == '=':
                    skip = strip_casts(ev.store_parts()[0]).get('id')
                for nd in walk(e):
                    if nd.get('op') == 'member' and nd.get('field') == 'flush_send_id' and nd.get('id') != skip:
                        must, may = (L.state_before(fn, ev) if ev is not None else L.state_at_cond(fn, b))
                        why = None if MSG in must else (thread_not_running(fn, ev) if ev is not None else None)
                        ctx.ob('C06.9', MSG in must or why is not None, fn.name, 'load of flush_send_id', '%s:%d' % (fn.file, nd.get('ln', 0)),
                               'message lock held' if MSG in must else (why or 'the producers\' ticket counter is read without the message lock'))
    from .c10c import r15
    r15(ctx, P, 'C06.10')
    from .c07 import drain_rule
    drain_rule(ctx, P, 'C06.11')
    size_agreement(ctx, P, 'C06.12')
    sample_bytes_rule(ctx, P, 'C06.13')
    undefined_size_rule(ctx, P, 'C06.14')
    direct_calls_rule(ctx, P, 'C06.15')


def size_agreement(ctx, P, rule):
    STRLEN = ('strlen', '__builtin_strlen')
    n = 0
    for tw in P.fns_in(TW):
        if not tw.api or not tw.name.startswith('jls_twr_'):
            continue
        sync = P.functions.get('jls_wr_' + tw.name[len('jls_twr_'):])
        if sync is None:
            continue
        sends = [c for c in tw.calls() if c.callee in ('msg_send', 'msg_send_inner')]
        if not sends:
            continue
        # does the synchronous sibling take the length of one of its pointer parameters from strlen?
        sparams = {p['name'] for p in sync.params if p.get('t', '').startswith('p:')}
        uses = [c for c in sync.calls(STRLEN) if any(nd.get('op') == 'ref' and nd.get('name') in sparams for nd in walk(c.args[0]))]
        if not uses:
            continue
        n += 1
        ctx.saw(tw, 1)
        tparams = {p['name'] for p in tw.params if p.get('t', '').startswith('p:')}
        mine = [c for c in tw.calls(STRLEN) if any(nd.get('op') == 'ref' and nd.get('name') in tparams for nd in walk(c.args[0]))]
        # or through a helper of the same unit that measures the pointer it is given
        for c in tw.calls():
            g = P.functions.get(c.callee)
            if g is None or g.file != tw.file:
                continue
            for i_, a in enumerate(c.args):
                if i_ < len(g.params) and any(nd.get('op') == 'ref' and nd.get('name') in tparams for nd in walk(a)):
                    if any(any(nd.get('op') == 'ref' and nd.get('name') == g.params[i_]['name'] for nd in walk(c2.args[0])) for c2 in g.calls(STRLEN)):
                        mine.append(c)
        ok = bool(mine) and all(any(ev_dominates(m, sd) or _may_precede(tw, m, sd) for m in mine) for sd in sends)
        # a measuring helper stores the measured length on every path that accepts a text payload
        why_helper = None
        for c in mine:
            g = P.functions.get(c.callee)
            if g is None or g.file != tw.file or c.callee in STRLEN:
                continue
            outs = [ev for ev in g.stores() if strip_casts(ev.store_parts()[0]).get('op') == 'un' and strip_casts(ev.store_parts()[0]).get('o') == '*'
                    and strip_casts(strip_casts(ev.store_parts()[0])['k'][0]).get('rk') == 'param']
            text_consts = {P.enum_consts.get('JLS_STORAGE_TYPE_STRING'), P.enum_consts.get('JLS_STORAGE_TYPE_JSON')}
            for b in g.blocks.values():
                cc = strip_casts(b.cond) if b.cond is not None else None
                if cc is None or cc.get('op') != 'bin' or cc['o'] != '==' or const_of(cc['k'][1]) not in text_consts:
                    continue
                for i_, (s_, lab) in enumerate(b.succs):
                    if lab != 'T':
                        continue
                    wq = find_path(g, (b, i_), lambda e2, facts: 'stop' if e2 in outs else
                                   ('target' if (e2.k == 'ret' and e2.e is not None and const_of(strip_casts(e2.e)) == 0) else None), refine=False)
                    if wq is not None:
                        why_helper = '%s() accepts a text payload on a path that keeps the caller\'s data_size (%s)' % (g.name, wq.render()[:120])
            # the measured length never falls back to what the caller stated: follow the value stored through the out
            # parameter to its definitions
            for ev in outs:
                out_name = strip_casts(strip_casts(ev.store_parts()[0])['k'][0]).get('name')
                work = [ev.store_parts()[1]]
                seen_l = set()
                while work:
                    e_ = work.pop()
                    for nd in walk(e_ or {}):
                        if nd.get('op') == 'un' and nd.get('o') == '*' and strip_casts(nd['k'][0]).get('name') == out_name:
                            why_helper = why_helper or '%s() can hand back the caller\'s data_size as the length of a text payload (no terminator found inside it)' % g.name
                        if nd.get('op') == 'ref' and nd.get('rk') == 'local' and nd.get('name') not in seen_l:
                            seen_l.add(nd['name'])
                            for d_ in g.events():
                                if d_.k == 'decl' and d_.name == nd['name'] and d_.e is not None:
                                    work.append(d_.e)
                                elif d_.k == 'store' and strip_casts(d_.store_parts()[0]).get('name') == nd['name'] and d_.store_parts()[1] is not None:
                                    work.append(d_.store_parts()[1])
        if why_helper:
            ok = False
        ctx.ob(rule, ok, tw.name, 'payload length for text storage types', sends[0].where(),
               'length taken from the text before the copy, as %s does' % sync.name if ok else (why_helper + ': the queue then holds data_size bytes without the terminator and the writer thread measures past them') if why_helper else
               '%s stores strlen(data) + 1 bytes for STRING/JSON and ignores data_size (documented as 0 / ignored), but %s copies data_size bytes into the queue: the writer thread then measures and stores whatever follows in the ring' % (sync.name, tw.name))
    ctx.floor('threaded entries whose synchronous sibling measures text', n, 2)


def _may_precede(fn, a, b):
    w = find_path(fn, a, lambda ev, facts: 'target' if ev is b else None, refine=False)
    return w is not None


def sample_bytes_rule(ctx, P, rule):
    """the threaded FSR entry copies exactly the bytes that hold the caller's samples"""
    from ..fd import values_at
    from ..ir import path_of
    fn = P.fn('jls_twr_fsr')
    ctx.saw(fn)
    sends = [c for c in fn.calls() if c.callee in ('msg_send', 'msg_send_inner')]
    if not sends:
        raise AnalysisBroken('jls_twr_fsr: no msg_send call')
    # the per-signal entry size the function reads
    size_paths = set()
    for ev in fn.events():
        for nd in walk(ev.e or {}):
            if nd.get('op') == 'sub' and any(m.get('op') == 'member' and m.get('field') == 'fsr_entry_size_bits' for m in walk(nd['k'][0])):
                p = path_of(nd) or fn.path(nd)
                if p is not None:
                    size_paths.add(str(p))
    if len(size_paths) != 1:
        raise AnalysisBroken('jls_twr_fsr: entry size read through %s' % sorted(size_paths))
    sp = size_paths.pop()
    count = fn.params[4]['name']
    sig = fn.params[1]['name']
    n = 0
    for sd in sends:
        bad = None
        for bits in (1, 4, 8, 16, 24, 32, 64):
            for cnt in list(range(0, 18)) + [255, 256, 257, 1000, 1001]:
                vals = values_at(P, fn, sd, sd.args[3], {count: cnt, sp: bits, sig: 1})
                want = (cnt * bits + 7) // 8
                if vals != {want}:
                    bad = (bits, cnt, sorted(vals, key=str), want)
                    break
            if bad:
                break
        n += 1
        ctx.ob(rule, bad is None, fn.name, 'payload length of %s()' % sd.callee, sd.where(),
               'ceil(count x bits / 8) for every width and every count residue' if bad is None else
               '%d samples of %d bits occupy %d bytes, the queue receives %s: the last partial byte of a sub-byte block is %s' %
               (bad[1], bad[0], bad[3], bad[2], 'lost' if (bad[2] and bad[2][0] is not None and bad[2][0] < bad[3]) else 'not what the caller provided'))
    ctx.floor('msg_send sites of jls_twr_fsr', n, 2)



def undefined_size_rule(ctx, P, rule):
    from ..fd import values_at
    from ..ir import path_of
    fn = P.fn('jls_twr_fsr')
    sends = [c for c in fn.calls() if c.callee in ('msg_send', 'msg_send_inner')]
    size_paths = set()
    for ev in fn.events():
        for nd in walk(ev.e or {}):
            if nd.get('op') == 'sub' and any(m.get('op') == 'member' and m.get('field') == 'fsr_entry_size_bits' for m in walk(nd['k'][0])):
                p = path_of(nd) or fn.path(nd)
                if p is not None:
                    size_paths.add(str(p))
    for b in fn.blocks.values():
        for nd in walk(b.cond or {}):
            if nd.get('op') == 'sub' and any(m.get('op') == 'member' and m.get('field') == 'fsr_entry_size_bits' for m in walk(nd['k'][0])):
                p = path_of(nd) or fn.path(nd)
                if p is not None:
                    size_paths.add(str(p))
    if len(size_paths) != 1 or not sends:
        raise AnalysisBroken('jls_twr_fsr: entry size read through %s, %d sends' % (sorted(size_paths), len(sends)))
    sp = size_paths.pop()
    count, sig = fn.params[4]['name'], fn.params[1]['name']
    for sd in sends:
        reached = set()
        for cnt in (1, 1000):
            reached |= values_at(P, fn, sd, sd.args[3], {count: cnt, sp: 0, sig: 1})
        ctx.ob(rule, not reached, fn.name, '%s() with an unknown entry size' % sd.callee, sd.where(),
               'not reachable when the cached entry size is 0' if not reached else
               'with the cached entry size 0 (signal not defined through this writer) the call is accepted and a message of %s payload bytes that announces the caller\'s sample count is queued' % sorted(reached, key=str))


def direct_calls_rule(ctx, P, rule='C06.15'):
    """who may call the synchronous writer from the threaded writer"""
    F = 'src/threaded_writer.c'
    ALLOWED_DIRECT = {
        'jls_wr_source_def': 'definitions take effect before data for them can be queued',
        'jls_wr_signal_def': 'definitions take effect before data for them can be queued',
    }
    # the consumer: the function whose dispatch switch handles the message kinds; open / close own the writer object
    consumers = set()
    for fn in P.fns_in(F):
        if any(b.term and b.term.get('kind') == 'SwitchStmt' and any(nd.get('op') == 'member' and nd.get('field') == 'msg_type' for nd in walk(b.cond or {})) for b in fn.blocks.values()):
            consumers.add(fn.name)
    if not consumers:
        raise AnalysisBroken('threaded writer: consumer (dispatch on msg_type) not found')
    owners = set(fn.name for fn in P.fns_in(F) if any(c.callee in ('jls_wr_open', 'jls_wr_close') for c in fn.calls()))
    n = 0
    for fn in P.fns_in(F):
        if fn.name in consumers or fn.name in owners:
            continue
        for c in fn.calls():
            if not (c.callee or '').startswith('jls_wr_'):
                continue
            n += 1
            ctx.saw(fn, 1)
            ok = c.callee in ALLOWED_DIRECT
            ctx.ob(rule, ok, fn.name, 'direct call of %s' % c.callee, c.where(),
                   ALLOWED_DIRECT.get(c.callee, '') if ok else
                   '%s is applied at once instead of being queued: it takes effect before the data messages that were submitted earlier and are still in the queue, so the file differs from what the same calls give with the synchronous writer' % c.callee)
    ctx.floor('direct calls into the synchronous writer outside consumer / open / close', n, 2)
