"""C09 — gaps read back as fill values, overlapping writes keep the first-written samples."""
from ..export import AnalysisBroken
from ..ir import strip_casts, const_of, walk, show, kids
from ..graph import find_path, ret_class, ev_dominates, control_deps_transitive, cond_facts, loops
from ..fd import FD, Top, values_at
from .. import df
from .common import exceptions
from .defnorm import accepted_data_types

EXPL = ('Fill-value rules on the skip branch of the FSR writer (NaN stores for float types, zero fill otherwise), set-of-constants '
        'evaluation of the scratch-buffer sample count against the scratch size for every accepted data type, exactness of the '
        'overlap skip (8 * byte advance + bit shift == overlap * width) per width and overlap length, non-finite filtering of every '
        'accumulating statement in the summary reductions and of the reader-side entry-to-accumulator conversion, and the scratch '
        'subscript bound.')
NOT_DECIDED = 'Exact read-back of all other samples and the length arithmetic (ffwd subtraction) are value arithmetic.'


def is_finite_test(e):
    for nd in walk(e):
        if nd.get('op') == 'call' and 'isfinite' in (nd.get('callee') or ''):
            return True
        if nd.get('m') == 'isfinite':
            return True
        if nd.get('op') == 'call' and (nd.get('callee') or '') in ('__builtin_isnan', '__builtin_isinf_sign', '__builtin_fpclassify', '__finite', '__finitef', '__isnan', '__isinf'):
            return True
    return False


def finite_guarded(fn, ev):
    for (bid, label) in control_deps_transitive(fn, ev.block.id):
        c = fn.blocks[bid].cond
        if c is not None and is_finite_test(c) and label == 'T':
            return True
    return False


def run(ctx, sess):
    ctx.explanation = EXPL
    ctx.not_decided = NOT_DECIDED
    ctx.rule('C09.10', 'distances between sample ids are narrowed only when bounded: every conversion of a 64-bit difference of two ids to 32 bits in the block writer is preceded on every path by a 64-bit compare that relates the same two ids to a third quantity (the length), so a distance of 2^32 or more is never mistaken for a small one')
    ctx.rule('C09.12', '"the signal length equals last id + 1 - first id": a block is left out only when it is full - the sample count of a partial block (zeros written behind a gap, then the end of the signal) exists only in its data chunk (shared with C15.7 / C01.h)')
    ctx.rule('C09.13', 'a block the queue refused can be submitted again ("every other sample reads back exactly" through the threaded writer): before the message is queued, a producer call stores nothing into the writer object that its own conditions test - a refused call leaves no state behind that changes how the retry is treated')
    ctx.rule('C09.14', 'an all-gap summary entry stays absent whatever its weight: in the reader the count of a statistics accumulator is set by the decoders (which test the entry for NaN and then store 0), by the accumulator functions, or to 0 - never assigned a weight directly')
    ctx.rule('C09.11', 'a window without samples is absent, not a set of sentinels: where the reader turns an accumulator into a {mean, min, max, std} entry, the fields are delivered only behind a test of the sample count (an empty accumulator becomes NaN, as on the level-0 path)')
    ctx.rule('C09.8', 'an all-gap piece is absent, not NaN: combining with an empty accumulator copies the other operand / resets the target (shared with C20.2)')
    from .common import relay
    from . import c20 as _src_c20
    relay(ctx, sess, _src_c20.run, {'C20.2': 'C09.8'})
    P = sess.prog('default')
    exc = exceptions('C09')
    fd = FD(P)
    ctx.rule('C09.1', 'fill values: in the skip branch every store into the scratch under a float data type is NaN; other types zero the whole scratch')
    ctx.rule('C09.2', 'scratch bound: for every accepted data type the sample count handed to the block writer with the scratch satisfies ceil(count * width / 8) <= sizeof(scratch)')
    ctx.rule('C09.3', 'the overlap is skipped exactly: in the overlap branch 8 * (byte advance of the data pointer) + (bit shift) equals overlap * width, and the shift is below 8, for every accepted sample width and every overlap length 1..64 (finite-domain evaluation of the branch\'s own expressions)')
    ctx.rule('C09.4', 'non-finite values are skipped at every level: each accumulating statement of the summary reductions is control dependent on an isfinite test, and the reader converts a non-finite summary entry to an empty accumulator')
    ctx.rule('C09.6', 'single packer: every function that adds entries to the level-0 sample block also honours the pending partial byte (reads shift_amount), i.e. goes through the bit packer')
    ctx.rule('C09.7', 'level-0 data is left out only on request or when a predicate that examines every byte of the block said it is constant')
    ctx.rule('C09.9', 'the realign of a sub-byte overlap reads exactly the caller bytes that hold new samples: traced for small overlaps and lengths (widths 1 and 4), the source bytes read are the interval from the byte of the first new sample to the last byte of the caller\'s buffer, none skipped, none beyond it')
    ctx.rule('C09.5', 'scratch subscripts stay inside the scratch array: every subscript of the scratch, directly or through a local pointer initialised from it, has an upper bound (loop condition, min-clamp, per-width evaluation) inside its 32 KiB')
    f = P.fn('jls_wr_fsr_data')
    ctx.saw(f)
    rec = P.record('jls_core_fsr_s')
    scratch = [fl for fl in rec['fields'] if fl['name'] == 'buffer_u64']
    if not scratch:
        raise AnalysisBroken('scratch buffer field buffer_u64 not found')
    scratch_bytes = scratch[0]['size_bits'] // 8
    scratch_words = scratch_bytes // 8
    # the skip branch: blocks control dependent on sample_id > sample_id_next, i.e. the F edge of (sample_id < sample_id_next)
    inner_calls = [c for c in f.calls('wr_data_inner') if f.path(c.args[1]) is not None and f.path(c.args[1]).last_field() == 'buffer_u64']
    skip_calls = [c for c in inner_calls if any(nd.get('op') == 'ref' and nd.get('name') == 'buf_sz' for nd in walk(c.args[2]))]
    scratch_fill = bool(skip_calls)
    if not skip_calls:
        ctx.note('C09.1/C09.2: no scratch-based gap fill found (wr_data_inner(self, scratch, count)); fill rules on the scratch are vacuous, C09.6 decides the replacement')
    single_packer(ctx, P)
    omission_criterion(ctx, P)
    # ---- C09.1
    dts = accepted_data_types(P)
    psz = P.fn('jls_datatype_parse_size')
    pbase = P.fn('jls_datatype_parse_basetype')
    from ..export import macros
    mac = macros(sess.repo, 'wr_fsr.c')
    fl = mac.get('JLS_DATATYPE_BASETYPE_FLOAT', '').strip('() ')
    try:
        FLOAT = int(fl, 0)
    except ValueError:
        raise AnalysisBroken('JLS_DATATYPE_BASETYPE_FLOAT not a plain constant: %r' % fl)
    ssb = None
    for ev in f.events('decl'):
        if ev.e is not None and any(nd.get('op') == 'call' and nd.get('callee') == 'jls_datatype_parse_size' for nd in walk(ev.e)):
            ssb = ev.name
    if scratch_fill:
        floats = [dt for dt in dts if fd.call(pbase, [dt]) == FLOAT]
        nan_stores = 0
        # blocks from which a gap-writing call is reachable (the overlap branch returns before them)
        can_reach_skip = set()
        work = [c.block.id for c in skip_calls]
        while work:
            bid = work.pop()
            if bid in can_reach_skip:
                continue
            can_reach_skip.add(bid)
            work.extend(p_.id for p_, _ in f.blocks[bid].preds)
        # the pattern may be built by a helper of this file that the skip branch calls with the writer object
        def _touches_scratch(g_):
            return any(c_.callee in ('memset', '__builtin_memset', '__builtin___memset_chk') and g_.path(c_.args[0]) is not None and
                       g_.path(c_.args[0]).last_field() == 'buffer_u64' for c_ in g_.calls()) or \
                any(s_.k == 'decl' and s_.e is not None and any(nd.get('op') == 'member' and nd.get('field') == 'buffer_u64' for nd in walk(s_.e)) and
                    any(strip_casts(x.store_parts()[0]).get('op') == 'sub' and strip_casts(strip_casts(x.store_parts()[0])['k'][0]).get('name') == s_.name for x in g_.stores())
                    for s_ in g_.stores())
        fill_helpers = []
        for c_ in f.calls():
            g_ = P.functions.get(c_.callee)
            if g_ is not None and g_.file == f.file and g_ is not f and c_.block.id in can_reach_skip and g_.name != 'wr_data_inner' and _touches_scratch(g_) and g_ not in fill_helpers:
                fill_helpers.append(g_)
                ctx.saw(g_)
        for g, ev in [(f, ev_) for ev_ in f.stores()] + [(g_, ev_) for g_ in fill_helpers for ev_ in g_.stores()]:
            lhs, rhs, o = ev.store_parts()
            l0 = strip_casts(lhs)
            if l0.get('op') != 'sub' or (g is f and ev.block.id not in can_reach_skip):
                continue
            base = strip_casts(l0['k'][0])
            if base.get('op') != 'ref':
                continue
            # pointer local aliasing the scratch
            defs = [s for s in g.stores() if s.k == 'decl' and s.name == base['name'] and s.e is not None and
                    any(nd.get('op') == 'member' and nd.get('field') == 'buffer_u64' for nd in walk(s.e))]
            if not defs:
                continue
            # under which data type?
            under = None
            for (bid, label) in control_deps_transitive(g, ev.block.id):
                c = strip_casts(g.blocks[bid].cond) if g.blocks[bid].cond else None
                if c is not None and c.get('op') == 'bin' and c['o'] == '==' and label == 'T' and any(nd.get('op') == 'member' and nd.get('field') == 'data_type' for nd in walk(c['k'][0])):
                    under = strip_casts(c['k'][1]).get('m') or c['k'][1].get('m') or const_of(c['k'][1])
            r0 = strip_casts(rhs) if rhs is not None else None
            is_nan = r0 is not None and (r0.get('fc') == 'nan' or r0.get('m') == 'NAN' or any(nd.get('fc') == 'nan' or nd.get('m') == 'NAN' for nd in walk(r0)))
            nan_stores += 1
            ctx.ob('C09.1', is_nan, g.name, 'gap fill store under %s' % under, ev.where(), 'stores NaN' if is_nan else 'float gap samples are filled with %s instead of NaN' % show(rhs))
            # element type matches the data type
            et = defs[0].t
            want = {'JLS_DATATYPE_F32': 'p:f32', 'JLS_DATATYPE_F64': 'p:f64'}.get(under)
            if want:
                ctx.ob('C09.1', et == want, g.name, 'fill element type for %s' % under, ev.where(), 'fills through %s' % et)
        ctx.floor('NaN fill stores', nan_stores, 2)
        ctx.ob('C09.1', len(floats) == 2, f.name, 'float types covered', f.where(), 'float data types accepted: %s, fill branches: %d' % (['0x%x' % x for x in floats], nan_stores))
        ms = [c for c in f.calls(('memset', '__builtin_memset', '__builtin___memset_chk')) if f.path(c.args[0]) is not None and f.path(c.args[0]).last_field() == 'buffer_u64'
              and const_of(c.args[1]) == 0]
        ms_h = [(g_, c) for g_ in fill_helpers for c in g_.calls(('memset', '__builtin_memset', '__builtin___memset_chk'))
                if g_.path(c.args[0]) is not None and g_.path(c.args[0]).last_field() == 'buffer_u64' and const_of(c.args[1]) == 0]
        ms_all = ms + [c for _, c in ms_h]
        okz = bool(ms_all) and const_of(ms_all[0].args[2]) == scratch_bytes
        ctx.ob('C09.1', okz, (ms_h[0][0] if (ms_h and not ms) else f).name, 'integer gap fill zeroes the whole scratch', ms_all[0].where() if ms_all else f.where(), 'memset(scratch, 0, %s), scratch is %d bytes' % (const_of(ms_all[0].args[2]) if ms_all else None, scratch_bytes))
        # a helper counts as a fill only when every path through it builds the pattern
        helper_fills = {}
        for g_ in fill_helpers:
            gfill = [c for gg, c in ms_h if gg is g_]
            for ev in g_.stores():
                l0 = strip_casts(ev.store_parts()[0])
                if l0.get('op') == 'sub' and strip_casts(l0['k'][0]).get('op') == 'ref' and any(
                        s_.k == 'decl' and s_.name == strip_casts(l0['k'][0]).get('name') and s_.e is not None and
                        any(nd.get('op') == 'member' and nd.get('field') == 'buffer_u64' for nd in walk(s_.e)) for s_ in g_.stores()):
                    gfill.append(ev)
            ghdrs = set(h for h, body in loops(g_).items() if any(ev in gfill for bid in body for ev in g_.blocks[bid].events))
            wg = find_path(g_, 'entry', lambda e2, facts: 'stop' if e2 in gfill else ('target' if e2.k == 'ret' else None), refine=False,
                           on_block_end=lambda b, facts: 'stop' if b.id in ghdrs else None)
            helper_fills[g_.name] = wg
            ctx.ob('C09.1', wg is None, g_.name, 'every path through the fill helper builds the pattern', g_.where(),
                   'every return follows a fill' if wg is None else
                   'the helper can return without having written the pattern (it trusts that the scratch still holds it): the scratch is also the work area of the sub-byte realign, so a gap after an unaligned overlap is filled with whatever that left behind', wg.render() if wg else None)
        # every path of the skip branch to the block writer passes a fill
        fills = set(id(m) for m in ms)
        for c in skip_calls:
            # fill dominance: some fill store/memset on every path from entry to the call
            fill_events = [ev for ev in f.events() if (ev.k == 'call' and (id(ev) in fills or (ev.callee in helper_fills and helper_fills[ev.callee] is None)))]
            for ev in f.stores():
                l0 = strip_casts(ev.store_parts()[0])
                if l0.get('op') == 'sub' and strip_casts(l0['k'][0]).get('op') == 'ref' and strip_casts(l0['k'][0]).get('name') in ('f32', 'f64'):
                    fill_events.append(ev)
            hdrs = set(h for h, body in loops(f).items() if any(ev in fill_events for bid in body for ev in f.blocks[bid].events)
                       and not any(ev is c for bid in body for ev in f.blocks[bid].events))
            w = find_path(f, 'entry', lambda e2, facts: 'stop' if e2 in fill_events else ('target' if e2 is c else None), refine=False,
                          on_block_end=lambda b, facts: 'stop' if b.id in hdrs else None)
            ctx.ob('C09.1', w is None, f.name, 'scratch is filled before it is written as gap samples', c.where(), 'every path fills' if w is None else 'the scratch can be written as gap samples without having been filled', w.render() if w else None)
        # ---- C09.2
        dt_path = None
        for b in f.blocks.values():
            if b.cond is None:
                continue
            for nd in walk(b.cond):
                if nd.get('op') == 'member' and nd.get('field') == 'data_type':
                    from ..ir import path_of
                    dt_path = str(path_of(nd))
        if dt_path is None:
            for g_ in fill_helpers:
                for b in g_.blocks.values():
                    for nd in walk(b.cond or {}):
                        if nd.get('op') == 'member' and nd.get('field') == 'data_type':
                            from ..ir import path_of
                            dt_path = str(path_of(nd))
        if dt_path is None or ssb is None:
            if any(not o_['ok'] for o_ in ctx.obligations if o_['rule'] == 'C09.1'):
                ctx.note('C09.2: the skip branch no longer selects by data type; a fill obligation already failed')
                dt_path = None
            else:
                raise AnalysisBroken('data type path / sample size local not found in jls_wr_fsr_data')
        call = skip_calls[0]
        bad = []
        undecided = []
        okn = 0
        for dt in (dts if dt_path is not None else ()):
            w = fd.call(psz, [dt])
            env = {dt_path: dt, ssb: w, 'data_length': 1}
            vals = values_at(P, f, call, call.args[2], env)
            consts = [v for v in vals if v is not None]
            if not consts:
                undecided.append(dt)
                continue
            for v in consts:
                need = (v * w + 7) // 8
                if need > scratch_bytes:
                    bad.append('type 0x%x (width %d): up to %d samples = %d bytes are read from the %d-byte scratch' % (dt, w, v, need, scratch_bytes))
                else:
                    okn += 1
        if undecided and not bad:
            if not any(not o_['ok'] for o_ in ctx.obligations):
                raise AnalysisBroken('gap fill count not decidable for %d data types (the count is not a local expression of jls_wr_fsr_data)' % len(undecided))
            ctx.note('C09.2: gap fill count not decidable for %d data types; another obligation already failed' % len(undecided))
        ctx.ob('C09.2', not bad, f.name, 'gap fill count fits the scratch for every data type', call.where(),
               '%d (type, count) pairs within %d bytes' % (okn, scratch_bytes) if not bad else '; '.join(bad[:3]) + (' (+%d more)' % (len(bad) - 3) if len(bad) > 3 else ''))
        # the only non-constant definition of the count is the clamp to the remaining gap
        for d in [s for s in f.stores() if strip_casts(s.store_parts()[0]).get('name') == 'buf_sz' and s.k == 'store']:
            lhs, rhs, o = d.store_parts()
            if o == '=' and const_of(rhs) is None and strip_casts(rhs).get('op') == 'ref':
                clamp = False
                for (bid, label) in control_deps_transitive(f, d.block.id):
                    c = strip_casts(f.blocks[bid].cond) if f.blocks[bid].cond else None
                    if c is not None and c.get('op') == 'bin' and c['o'] == '<' and label == 'T' and strip_casts(c['k'][0]).get('name') == strip_casts(rhs).get('name') \
                            and strip_casts(c['k'][1]).get('name') == 'buf_sz':
                        clamp = True
                ctx.ob('C09.2', clamp, f.name, 'count only ever lowered to the remaining gap', d.where(), 'buf_sz = %s under %s < buf_sz: %s' % (show(rhs), show(rhs), clamp))
    # ---- C09.3: the overlap length `ov` (the difference of the expected and the submitted sample id) is skipped
    # exactly: for every accepted width w and every overlap 1..64, 8 * (byte advance) + (bit shift) == ov * w, shift < 8
    n3 = 0
    all_widths = sorted(set(fd.call(psz, [dt]) for dt in dts))
    ov = None
    for ev in f.stores():
        lhs, rhs, o = ev.store_parts()
        r0 = strip_casts(rhs) if rhs is not None else None
        if r0 is not None and r0.get('op') == 'bin' and r0['o'] == '-' and o == '=' and \
                {strip_casts(k).get('name') for k in r0['k']} == {'sample_id_next', 'sample_id'}:
            ov = strip_casts(lhs).get('name')
            ov_ev = ev
    if ov is None:
        raise AnalysisBroken('overlap length (sample_id_next - sample_id) not found in jls_wr_fsr_data')
    # stores in the overlap branch (dominated by the overlap definition), in source order
    branch = sorted([ev for ev in f.stores() if ev is not ov_ev and ev_dominates(ov_ev, ev)], key=lambda e_: (e_.ln, e_.idx))
    derived = {ov}
    for ev in branch:
        lhs, rhs, o = ev.store_parts()
        if rhs is not None and o == '=' and any(nd.get('op') == 'ref' and nd.get('name') in derived for nd in walk(rhs)):
            l0 = strip_casts(lhs)
            if l0.get('op') == 'ref' and not l0.get('t', '').startswith('p:'):
                derived.add(l0['name'])
    ptr_adv = [ev for ev in branch if strip_casts(ev.store_parts()[0]).get('op') == 'ref' and strip_casts(ev.store_parts()[0]).get('t', '').startswith('p:')
               and ev.store_parts()[1] is not None and any(nd.get('op') == 'ref' and nd.get('name') in derived and not nd.get('t', '').startswith('p:') for nd in walk(ev.store_parts()[1]))]
    shift_uses = set()
    for b2 in f.blocks.values():
        for e2 in [ev.e for ev in b2.events if ev.e is not None] + ([b2.cond] if b2.cond is not None else []):
            for nd in walk(e2):
                if nd.get('op') == 'bin' and nd['o'] in ('>>', '<<'):
                    r1 = strip_casts(nd['k'][1])
                    if r1.get('op') == 'ref' and r1.get('name') in derived:
                        shift_uses.add(r1['name'])
    bad3 = []
    checked = 0
    for w in all_widths:
        for ff in range(1, 65):
            env = {ssb: w, ov: ff}
            adv_bytes = None
            try:
                for ev in branch:
                    lhs, rhs, o = ev.store_parts()
                    l0 = strip_casts(lhs)
                    if rhs is None or l0.get('op') != 'ref' or (l0.get('name') not in derived and ev not in ptr_adv):
                        continue
                    # only definitions whose controlling width conditions hold for w
                    feasible = True
                    for (bid, label) in control_deps_transitive(f, ev.block.id):
                        c = f.blocks[bid].cond
                        if c is None or label not in ('T', 'F'):
                            continue
                        try:
                            v = fd.ev(f, c, env)
                        except (Top, ZeroDivisionError, KeyError):
                            continue
                        if bool(v) != (label == 'T'):
                            feasible = False
                    if not feasible:
                        continue
                    if l0.get('t', '').startswith('p:'):
                        if ev not in ptr_adv:
                            continue
                        r0 = strip_casts(rhs)
                        x = rhs
                        if o == '=' and r0.get('op') == 'bin' and r0['o'] == '+':
                            x = r0['k'][1] if strip_casts(r0['k'][0]).get('t', '').startswith('p:') else r0['k'][0]
                        adv_bytes = (adv_bytes or 0) + fd.ev(f, x, env)
                    elif o == '=':
                        try:
                            env[l0['name']] = fd.ev(f, rhs, env)
                        except Top:
                            pass        # depends on more than the overlap: not part of the skip
            except (Top, ZeroDivisionError, KeyError) as ex:
                bad3.append('width %d, overlap %d: %s not evaluable with %s' % (w, ff, show(ev.e)[:60], sorted(env)))
                continue
            sh = max([env.get(nm, 0) for nm in shift_uses] or [0])
            checked += 1
            if adv_bytes is None:
                adv_bytes = 0
            if 8 * adv_bytes + sh != ff * w or sh >= 8:
                bad3.append('width %d, overlap %d samples: advances %d bytes and shifts %d bits = %d bits, should skip %d' % (w, ff, adv_bytes, sh, 8 * adv_bytes + sh, ff * w))
    n3 = len(ptr_adv) + len(shift_uses)
    ctx.ob('C09.3', not bad3, f.name, 'overlap skip = byte advance (%s) + bit shift (%s)' % (', '.join(show(e_.e)[:40] for e_ in ptr_adv), ', '.join(sorted(shift_uses)) or 'none'),
           ov_ev.where(), '8 * advance + shift == overlap * width for %d (width, overlap) pairs' % checked if not bad3 else
           '; '.join(bad3[:3]) + (' (+%d more)' % (len(bad3) - 3) if len(bad3) > 3 else '') + ': the overlapped samples are not skipped exactly')
    ctx.floor('overlap advance/shift expressions', n3, 2)
    ctx.floor('overlap (width, length) pairs evaluated', checked, 64)
    # ---- C09.4 writer
    nacc = 0
    for fname in ('jls_core_fsr_summary1', 'jls_core_fsr_summaryN'):
        g = P.fn(fname)
        ctx.saw(g)
        acc = set()
        for c in g.calls('summary_entry_add'):
            for a in c.args[2:]:
                a0 = strip_casts(a)
                if a0.get('op') == 'ref':
                    acc.add(a0['name'])
        lp = loops(g)
        inner = set()
        for hdr, body in lp.items():
            # loops that contain no call to summary_entry_add are per-entry loops
            if not any(ev.k == 'call' and ev.callee == 'summary_entry_add' for bid in body for ev in g.blocks[bid].events):
                inner |= body
        for ev in g.stores():
            lhs, rhs, o = ev.store_parts()
            l0 = strip_casts(lhs)
            if l0.get('op') == 'ref' and l0.get('name') in acc and o == '+=' and ev.block.id in inner:
                nacc += 1
                ok = finite_guarded(g, ev)
                variant = ''
                for (bid, label) in control_deps_transitive(g, ev.block.id):
                    c = strip_casts(g.blocks[bid].cond) if g.blocks[bid].cond else None
                    if c is not None and c.get('op') == 'bin' and c['o'] == '==' and const_of(c['k'][1]) == 64 and label in ('T', 'F'):
                        variant = ' [%s summaries]' % ('f64' if label == 'T' else 'f32')
                ctx.ob('C09.4', ok, g.name, 'accumulate `%s`%s' % (show(ev.e)[:50], variant), ev.where(),
                       'under isfinite' if ok else 'non-finite entries (gap samples) are accumulated: one all-gap lower-level entry turns the variance of the whole upper-level entry into NaN')
    ctx.floor('accumulating statements in the summary reductions', nacc, 4)
    # ---- C09.4 reader
    nconv = 0
    for g in P.fns_in('src/reader.c'):
        kst = [ev for ev in g.stores() if strip_casts(ev.store_parts()[0]).get('op') == 'member' and strip_casts(ev.store_parts()[0]).get('field') == 'k'
               and strip_casts(ev.store_parts()[0]).get('rec') == 'jls_statistics_s']
        if not kst or not any(nd.get('op') == 'sub' for ev in g.stores() for nd in walk(ev.store_parts()[1] or {})):
            continue
        if len(g.params) < 2 or not g.params[1]['t'].startswith('p:f'):
            continue
        nconv += 1
        ctx.saw(g)
        for ev in kst:
            rhs = ev.store_parts()[1]
            ok = is_finite_test(rhs) or finite_guarded(g, ev)
            if not ok:
                # every call site guarded?
                sites = P.callers().get(g.name, [])
                ok = bool(sites) and all(finite_guarded(cf, cev) for cf, cev in sites)
            ctx.ob('C09.4', ok, g.name, 'non-finite summary entry becomes an empty accumulator', ev.where(),
                   'k depends on isfinite(entry)' if ok else
                   'a non-finite (all-gap) summary entry is combined with weight `count`: statistics over a window containing a gap return NaN mean/std and min/max of 0')
    ctx.floor('summary-entry converters in reader.c', nconv, 2)
    if scratch_fill:
        # ---- C09.5: every subscript of the scratch (directly or through a local pointer initialised from it) stays inside it
        n5 = 0
        targets5 = [(f, ssb)]
        for g_ in (fill_helpers if scratch_fill else []):
            # the width variable of a helper: the parameter that receives the caller's width
            for c_ in f.calls(g_.name):
                for i_, a_ in enumerate(c_.args):
                    if strip_casts(a_).get('op') == 'ref' and strip_casts(a_).get('name') == ssb and i_ < len(g_.params) and (g_, g_.params[i_]['name']) not in targets5:
                        targets5.append((g_, g_.params[i_]['name']))
        f_outer, ssb_outer = f, ssb
        for f, ssb in targets5:
            ESZ = {'p:u8': 1, 'p:i8': 1, 'p:f32': 4, 'p:f64': 8, 'p:u64': 8, 'p:u16': 2, 'p:u32': 4}
            aliases = {}
            for d in f.stores():
                if d.k == 'decl' and d.e is not None and (d.t or '').startswith('p:') and \
                        any(nd.get('op') == 'member' and nd.get('field') == 'buffer_u64' for nd in walk(d.e)):
                    aliases[d.name] = ESZ.get(d.t)
            lp = loops(f)

            def ub(e, block, idx, w, depth=0):
                """upper bound of an unsigned expression for sample width w (None = unbounded)"""
                e0 = strip_casts(e)
                if e0 is None or depth > 10:
                    return None
                try:
                    return fd.ev(f, e0, {ssb: w})
                except (Top, ZeroDivisionError, KeyError):
                    pass
                op = e0.get('op')
                if op == 'ref' and e0.get('rk') == 'local':
                    # loop variable: bounded by its loop condition  v < N
                    for h, body in lp.items():
                        if block.id in body:
                            c = strip_casts(f.blocks[h].cond) if f.blocks[h].cond else None
                            if c is not None and c.get('op') == 'bin' and c['o'] in ('<', '<=') and strip_casts(c['k'][0]).get('name') == e0['name']:
                                if block.id != h or True:
                                    n_ub = ub(c['k'][1], f.blocks[h], len(f.blocks[h].events), w, depth + 1)
                                    if n_ub is not None:
                                        return n_ub - (1 if c['o'] == '<' else 0)
                    defs, entry = df.reaching_defs(f, e0['name'], block, idx)
                    vals = []
                    for d in defs:
                        lhs, rhs, o = d.store_parts()
                        if rhs is None:
                            return None
                        if o == '=':
                            v = ub(rhs, d.block, d.idx, w, depth + 1)
                        elif o == '/=':
                            a_ = ub(lhs, d.block, d.idx, w, depth + 1)
                            try:
                                b_ = fd.ev(f, rhs, {ssb: w})
                            except (Top, ZeroDivisionError, KeyError):
                                b_ = None
                            v = a_ // b_ if (a_ is not None and b_) else None
                        elif o in ('-=',):
                            v = ub(lhs, d.block, d.idx, w, depth + 1)
                        else:
                            v = None
                        if v is None:
                            return None
                        vals.append(v)
                    return max(vals) if vals and not entry else None
                if op == 'cond':
                    ks = kids(e0)
                    c = strip_casts(ks[0])
                    # min idiom  (x < K) ? x : K
                    if c.get('op') == 'bin' and c['o'] in ('<', '<='):
                        if show(strip_casts(c['k'][0])) == show(strip_casts(ks[1])) and show(strip_casts(c['k'][1])) == show(strip_casts(ks[2])):
                            return ub(ks[2], block, idx, w, depth + 1)
                    a_, b_ = ub(ks[1], block, idx, w, depth + 1), ub(ks[2], block, idx, w, depth + 1)
                    return max(a_, b_) if a_ is not None and b_ is not None else None
                if op == 'bin':
                    o = e0['o']
                    a_ = ub(e0['k'][0], block, idx, w, depth + 1)
                    b_ = ub(e0['k'][1], block, idx, w, depth + 1)
                    if o == '+' and a_ is not None and b_ is not None:
                        return a_ + b_
                    if o == '*' and a_ is not None and b_ is not None:
                        return a_ * b_
                    if o == '/' and a_ is not None:
                        try:
                            d_ = fd.ev(f, e0['k'][1], {ssb: w})
                            return a_ // d_ if d_ else None
                        except (Top, ZeroDivisionError, KeyError):
                            return a_
                    if o == '%' and b_ is not None:
                        return b_ - 1
                    if o == '-' and a_ is not None:
                        return a_
                    if o == '>>' and a_ is not None:
                        return a_
                return None

            all_w = sorted(set(fd.call(psz, [dt]) for dt in dts))
            for b in f.blocks.values():
                items = [(ev.e, ev, ev.idx) for ev in b.events if ev.e is not None] + ([(b.cond, None, len(b.events))] if b.cond is not None else [])
                for e, ev, pos in items:
                    for nd in walk(e):
                        if nd.get('op') != 'sub':
                            continue
                        base = strip_casts(nd['k'][0])
                        if base.get('op') == 'member' and base.get('field') == 'buffer_u64':
                            esz = 8
                        elif base.get('op') == 'ref' and base.get('name') in aliases:
                            esz = aliases[base['name']]
                        else:
                            continue
                        se = f.sub_event(nd['id']) or ev
                        where = se.where() if se is not None else '%s:%d' % (f.file, b.line)
                        n5 += 1
                        if esz is None:
                            ctx.ob('C09.5', False, f.name, 'scratch via %s[%s]' % (base.get('name'), show(nd['k'][1])), where, 'element size of %s unknown' % base.get('name'))
                            continue
                        worst = None
                        # under `data_type == T` only the width of T occurs
                        widths_here = all_w
                        for (bid_, label_) in control_deps_transitive(f, b.id):
                            c_ = strip_casts(f.blocks[bid_].cond) if f.blocks[bid_].cond is not None else None
                            if c_ is not None and c_.get('op') == 'bin' and c_['o'] == '==' and label_ == 'T' and \
                                    any(m_.get('op') == 'member' and m_.get('field') == 'data_type' for m_ in walk(c_['k'][0])) and const_of(c_['k'][1]) is not None:
                                try:
                                    widths_here = [fd.call(psz, [const_of(c_['k'][1])])]
                                except (Top, ZeroDivisionError):
                                    pass
                        for w in widths_here:
                            u = ub(nd['k'][1], b, pos, w)
                            if u is None:
                                worst = (w, None)
                                break
                            if worst is None or (u + 1) * esz > (worst[1] + 1) * esz:
                                worst = (w, u)
                        ok5 = worst is not None and worst[1] is not None and (worst[1] + 1) * esz <= scratch_bytes
                        ctx.ob('C09.5', ok5, f.name, 'scratch[%s] via %s' % (show(nd['k'][1]), base.get('name') or 'buffer_u64'), where,
                               'largest index %s (width %s) x %d bytes within %d' % (worst[1], worst[0], esz, scratch_bytes) if ok5 else
                               ('index not bounded for width %s' % worst[0] if worst and worst[1] is None else
                                'index up to %s (width %s) x %d bytes exceeds the %d-byte scratch' % (worst[1], worst[0], esz, scratch_bytes)))

        f, ssb = f_outer, ssb_outer
        ctx.floor('scratch subscripts', n5, 3)
    realign_reads_rule(ctx, P, f, fd, psz, dts)
    level0_stats_rule(ctx, P)
    narrowing_rule(ctx, P)
    empty_window_rule(ctx, P)
    from .c15 import full_block_only
    full_block_only(ctx, P, 'C09.12')
    count_store_rule(ctx, P, 'C09.14')
    from .c07 import refused_send_rule
    refused_send_rule(ctx, P, 'C09.13')


def single_packer(ctx, P):
    n = 0
    for g in P.fns_in('src/wr_fsr.c'):
        adds = []
        for ev in g.stores():
            lhs, rhs, o = ev.store_parts()
            l0 = strip_casts(lhs)
            if l0.get('op') == 'member' and l0.get('field') == 'entry_count' and o in ('+=', 'pre++', 'post++'):
                p = g.path(l0)
                base_t = None
                for nd in walk(l0):
                    if nd.get('op') in ('ref', 'member') and nd.get('t', '').endswith('jls_fsr_data_s'):
                        base_t = nd.get('t')
                if base_t is not None:
                    adds.append(ev)
        if not adds:
            continue
        n += 1
        ctx.saw(g)
        reads_shift = any(nd.get('op') == 'member' and nd.get('field') == 'shift_amount' for b in g.blocks.values()
                          for e in ([ev.e for ev in b.events if ev.e is not None] + ([b.cond] if b.cond is not None else [])) for nd in walk(e))
        ctx.ob('C09.6', reads_shift, g.name, 'adds entries to the sample block through the bit packer', adds[0].where(),
               'honours shift_amount' if reads_shift else
               'this function appends samples to the level-0 block but ignores the pending partial byte (shift_amount / shift_buffer): sub-byte data before and after is displaced')
    ctx.floor('functions adding entries to the sample block', n, 1)


def full_scan_predicate(P, g):
    """g(mem, size, ...) examines every element: one loop whose pointer starts at mem, ends at mem + size, advances by one,
    returns false inside the loop only under a test of the current element, and true after the loop."""
    lp = loops(g)
    if len(lp) != 1 or len(g.params) < 2:
        return False
    hdr, body = list(lp.items())[0]
    rets = g.returns()
    if any(r.e is None or const_of(strip_casts(r.e)) is None for r in rets):
        return False
    inside = [r for r in rets if const_of(strip_casts(r.e)) == 0]       # early exits: "not constant"
    outside = [r for r in rets if const_of(strip_casts(r.e)) != 0]     # after the scan: "constant"
    if not inside or len(outside) != 1:
        return False
    # the early exit is decided by the element
    for r in inside:
        okc = False
        for (bid, label) in control_deps_transitive(g, r.block.id):
            c = g.blocks[bid].cond
            if c is not None and bid in body and any(nd.get('op') == 'un' and nd['o'] == '*' for nd in walk(c)):
                okc = True
        if not okc:
            return False
    # bounds: cursor local from param0, end local from param0 + param1
    p0, p1 = g.params[0]['name'], g.params[1]['name']
    cur = end = None
    for ev in g.events('decl'):
        if ev.e is None:
            continue
        names = set(nd.get('name') for nd in walk(ev.e) if nd.get('op') == 'ref')
        if names == {p0}:
            cur = ev.name
        if cur and names == {cur, p1} and strip_casts(ev.e).get('op') == 'bin' and strip_casts(ev.e)['o'] == '+':
            end = ev.name
    if cur is None or end is None:
        return False
    bound = False
    for bid in body:
        c = strip_casts(g.blocks[bid].cond) if g.blocks[bid].cond else None
        if c is not None and c.get('op') == 'bin' and c['o'] == '<' and strip_casts(c['k'][0]).get('name') == cur and strip_casts(c['k'][1]).get('name') == end:
            # leaving the loop on this condition's false edge
            bound = any(s.id not in body for s, l in g.blocks[bid].succs if l == 'F')
    if not bound:
        return False
    steps = [ev for bid in body for ev in g.blocks[bid].events if ev.k == 'store' and strip_casts(ev.store_parts()[0]).get('name') == cur]
    return len(steps) == 1 and steps[0].store_parts()[1] is None and '++' in steps[0].store_parts()[2]


def omission_criterion(ctx, P):
    f = P.fn('wr_data', 'src/wr_fsr.c')
    ctx.saw(f)
    defs = [ev for ev in f.stores() if strip_casts(ev.store_parts()[0]).get('op') == 'ref' and strip_casts(ev.store_parts()[0]).get('name') == 'omit_data'
            or (ev.k == 'decl' and ev.name == 'omit_data')]
    if not defs:
        raise AnalysisBroken('wr_data: no definition of omit_data')
    n = 0
    for d in defs:
        lhs, rhs, o = d.store_parts()
        calls = [nd.get('callee') for nd in walk(rhs or {}) if nd.get('op') == 'call']
        for (bid, label) in control_deps_transitive(f, d.block.id):
            c = f.blocks[bid].cond
            calls += [nd.get('callee') for nd in walk(c or {}) if nd.get('op') == 'call']
        fields = set(nd.get('field') for nd in walk(rhs or {}) if nd.get('op') == 'member')
        if o == '&=':
            continue                      # can only clear the flag
        if const_of(strip_casts(rhs)) == 0 and o == '=':
            continue
        n += 1
        helper_ok = {'sample_size_bits', 'jls_datatype_parse_size'}
        unverified = [c for c in calls if c not in helper_ok and not (P.functions.get(c) is not None and full_scan_predicate(P, P.functions[c]))]
        from_request = 'write_omit_data' in fields and not [c for c in calls if c not in helper_ok]
        from_scan = any(P.functions.get(c) is not None and full_scan_predicate(P, P.functions[c]) for c in calls) and not unverified
        ctx.ob('C09.7', from_request or from_scan, f.name, 'omission decided by `%s`' % show(d.e)[:50], d.where(),
               'explicit request' if from_request else ('predicate scanning every byte of the block' if from_scan else
               'the block is left out on the word of %s, which does not examine every sample: written samples inside such a block are lost and read back as synthesised values' % (unverified or 'an unverified criterion')))
    ctx.floor('definitions that can enable omission', n, 2)
    # the block is complete when it is examined: no store into the sample block can follow a scan of it
    scans = [c for c in f.calls() if P.functions.get(c.callee) is not None and full_scan_predicate(P, P.functions[c.callee])]
    aliases = set(ev.name for ev in f.events() if ev.k == 'decl' and ev.e is not None and (ev.t or '').startswith('p:') and
                  any(m.get('op') == 'member' and m.get('field') == 'data' for m in walk(ev.e)))
    late = []
    for ev in f.stores():
        l0 = strip_casts(ev.store_parts()[0])
        if ev.k != 'store' or l0.get('op') != 'sub':
            continue
        base = strip_casts(l0['k'][0])
        if not ((base.get('op') == 'ref' and base.get('name') in aliases) or (base.get('op') == 'member' and base.get('field') == 'data')):
            continue
        for c in scans:
            if find_path(f, c, lambda e2, facts: 'target' if e2 is ev else None, refine=False) is not None:
                late.append((ev, c))
    if scans:
        ctx.ob('C09.7', not late, f.name, 'the block is complete when it is examined', (late[0][0] if late else scans[0]).where(),
               'every store into the sample block precedes the scan' if not late else
               'the store %s into the sample block can follow the scan by %s: the predicate saw a stale byte there (the pending partial byte of a sub-byte signal), so a block whose last samples differ is taken for constant, left out, and the signal loses them' % (show(late[0][0].e)[:60], late[0][1].callee))


def realign_reads_rule(ctx, P, f, fd, psz, dts):
    from ..fd import trace_calls
    BASE = 0x600000
    # the local through which the caller's bytes are read: a pointer decl initialised from the `data` parameter
    src = None
    for d in f.events('decl'):
        if d.e is not None and (d.t or '').startswith('p:u8') and any(nd.get('op') == 'ref' and nd.get('name') == 'data' and nd.get('rk') == 'param' for nd in walk(d.e)):
            src = d.name
    if src is None:
        raise AnalysisBroken('jls_wr_fsr_data: byte pointer over the caller data not found')
    by_width = {}
    for dt in dts:
        by_width.setdefault(fd.call(psz, [dt]), dt)
    bad = []
    cases = 0
    for w in sorted(x for x in by_width if x < 8):
        dt = by_width[w]
        for ov in range(1, 12):
            if (ov * w) % 8 == 0:
                continue               # byte aligned: no realign
            for new in (1, 2, 3, 7, 8, 9, 16, 17):
                n = ov + new
                reads = set()

                def on_event(ev, env, sym, reads=reads):
                    if ev.e is None or ev.k not in ('decl', 'store'):
                        return
                    for nd in walk(ev.e):
                        if nd.get('op') == 'sub' and strip_casts(nd['k'][0]).get('op') == 'ref' and strip_casts(nd['k'][0]).get('name') == src and src in env:
                            try:
                                reads.add(env[src] + fd.ev(f, nd['k'][1], env) - BASE)
                            except (Top, ZeroDivisionError, KeyError):
                                reads.add(None)
                env = {'self': 1, 'sample_id': 100 - ov, 'data': BASE, 'data_length': n,
                       'self.parent.signal_def.data_type': dt, 'self.data': 1,
                       'self.data.header.timestamp': 0, 'self.data.header.entry_count': 100,
                       'b.header.timestamp': 0, 'b.header.entry_count': 100}
                try:
                    trace_calls(P, f, env, assume_calls=0, on_event=on_event, no_inline=('wr_data_inner', 'wr_data', 'jls_core_fsr_sample_buffer_alloc'), max_steps=60000)
                except Top:
                    bad.append('width %d overlap %d new %d: not decidable' % (w, ov, new))
                    continue
                cases += 1
                first = (ov * w) // 8
                last = (n * w + 7) // 8 - 1          # last byte of the caller's buffer
                want = set(range(first, last + 1))
                if None in reads:
                    bad.append('width %d overlap %d new %d: a source index is not decidable' % (w, ov, new))
                elif reads != want:
                    miss, extra = sorted(want - reads), sorted(reads - want)
                    bad.append('width %d, overlap %d, %d new samples: caller buffer is %d bytes; %s%s' % (
                        w, ov, new, last + 1, ('byte(s) %s holding new samples are never read (those samples read back as 0) ' % miss) if miss else '',
                        ('byte(s) %s outside the new part / the buffer are read' % extra) if extra else ''))
    ctx.ob('C09.9', not bad, f.name, 'realign reads exactly the bytes of the new samples', f.where(),
           '%d (width, overlap, length) cases traced' % cases if not bad else '; '.join(bad[:2]) + (' (+%d more)' % (len(bad) - 2) if len(bad) > 2 else ''))
    ctx.floor('realign cases traced', cases, 40)


def level0_stats_rule(ctx, P):
    """statistics computed from raw samples skip the NaN samples of a gap, like the stored summaries do"""
    g = P.fn('jls_core_fsr_statistics')
    ctx.saw(g, 1)
    # the sample variable: a local assigned from a dereference of the converted-sample pointer inside the main loop
    samples = set()
    for ev in g.stores():
        lhs, rhs, o = ev.store_parts()
        l0 = strip_casts(lhs)
        if rhs is not None and o == '=' and l0.get('op') == 'ref' and l0.get('t') == 'f64':
            r0 = strip_casts(rhs)
            if r0.get('op') == 'un' and r0.get('o') == '*':
                samples.add(l0['name'])
    n = 0
    for ev in g.stores():
        lhs, rhs, o = ev.store_parts()
        l0 = strip_casts(lhs)
        if rhs is None or not any(nd.get('op') == 'ref' and nd.get('name') in samples for nd in walk(rhs)):
            continue
        if l0.get('op') == 'ref' and l0.get('name') in samples:
            continue
        n += 1
        ok = finite_guarded(g, ev)
        ctx.ob('C09.4', ok, g.name, 'level-0 accumulation %s' % show(ev.e)[:40], ev.where(),
               'under an isfinite test' if ok else 'a NaN gap sample enters this accumulation: a window that holds gap samples and written samples returns NaN')
    ctx.floor('level-0 accumulating statements', n, 3)



def narrowing_rule(ctx, P):
    n = 0
    for fn in P.fns_in('src/wr_fsr.c'):
        casts = []
        for ev in fn.events():
            for nd in walk(ev.e or {}):
                if nd.get('op') == 'cast' and nd.get('t') in ('u32', 'i32', 'u16', 'u8'):
                    inner = nd['k'][0]
                    while inner.get('op') == 'cast' and inner.get('t') in ('i64', 'u64'):
                        inner = inner['k'][0]
                    i0 = inner
                    if i0.get('op') == 'paren':
                        i0 = i0['k'][0]
                    if i0.get('op') == 'bin' and i0['o'] == '-' and i0.get('t') in ('i64', 'u64'):
                        a, b = strip_casts(i0['k'][0]), strip_casts(i0['k'][1])
                        if a.get('op') == 'ref' and b.get('op') == 'ref' and a.get('t') in ('i64', 'u64') and b.get('t') in ('i64', 'u64'):
                            casts.append((ev, nd, a['name'], b['name']))
        for ev, nd, a, b in casts:
            n += 1
            ctx.saw(fn, 1)
            guards = set()
            for bb in fn.blocks.values():
                c = strip_casts(bb.cond) if bb.cond is not None else None
                if c is None or c.get('op') != 'bin' or c['o'] not in ('<', '<=', '>', '>='):
                    continue
                names = {m.get('name') for m in walk(c) if m.get('op') == 'ref' and m.get('rk') != 'enum'}
                narrowed = any(m.get('op') == 'cast' and m.get('t') in ('u32', 'i32') and strip_casts(m['k'][0]).get('t') in ('i64', 'u64') for m in walk(c))
                if a in names and b in names and len(names) >= 3 and not narrowed:
                    guards.add(bb.id)
            w = find_path(fn, 'entry', lambda e2, facts: 'target' if e2 is ev else None, refine=False,
                          edge_ok=lambda b_, s_, lab: b_.id not in guards)
            ctx.ob('C09.10', w is None, fn.name, 'narrowing of %s - %s' % (a, b), ev.where(),
                   'a 64-bit compare of %s, %s and the length lies on every path to the conversion' % (a, b) if w is None else
                   'the distance %s - %s is cut to 32 bits before anything bounds it: a write that lies 2^32 + k samples behind the next expected id is treated as lying k samples behind (its tail is appended, the following block loses its first samples)' % (a, b),
                   w.render() if w else None)
    ctx.floor('narrowed id distances in the block writer', n, 1)


def empty_window_rule(ctx, P):
    """an accumulator that holds no sample is delivered as an absent entry, not as the reset sentinels"""
    n = 0
    for fn in P.fns_in('src/reader.c'):
        # converters accumulator -> summary entry: stores  data[COLUMN] = stats->field
        outs = []
        for ev in fn.stores():
            lhs, rhs, o = ev.store_parts()
            l0 = strip_casts(lhs)
            if l0.get('op') == 'sub' and rhs is not None and any(m.get('op') == 'ref' and (m.get('name') or '').startswith('JLS_SUMMARY_FSR_') for m in walk(l0['k'][1])) and \
                    any(m.get('op') == 'member' and m.get('field') in ('mean', 'min', 'max') and m.get('rec') == 'jls_statistics_s' for m in walk(rhs)):
                outs.append(ev)
        if not outs:
            continue
        ctx.saw(fn, 1)
        for ev in outs:
            n += 1
            guarded = False
            for (bid, label) in control_deps_transitive(fn, ev.block.id):
                c = fn.blocks[bid].cond
                if c is not None and any(m.get('op') == 'member' and m.get('field') == 'k' for m in walk(c)):
                    guarded = True
            ctx.ob('C09.11', guarded, fn.name, 'delivery of %s' % show(strip_casts(ev.store_parts()[1]))[:30], ev.where(),
                   'behind a test of the sample count' if guarded else
                   'an accumulator without samples (a window that lies inside a gap) is delivered as it was reset: mean 0, min DBL_MAX, max -DBL_MAX - the level-0 path returns NaN for the same window')
    ctx.floor('accumulator fields delivered as summary columns', n, 3)


def count_store_rule(ctx, P, rule):
    n = 0
    decoders = set()
    for fn in P.fns_in('src/reader.c'):
        # a decoder tests its input for being finite / NaN and stores k on both arms
        if any(c.callee in ('isfinite', '__builtin_isfinite', 'isnan', '__builtin_isnan', '__builtin_isinf_sign') for c in fn.calls()) or \
                any(b.cond is not None and any(m.get('op') == 'call' and 'isfinite' in (m.get('callee') or '') or m.get('op') == 'call' and 'isnan' in (m.get('callee') or '') for m in walk(b.cond)) for b in fn.blocks.values()):
            if any(strip_casts(ev.store_parts()[0]).get('field') == 'k' for ev in fn.stores() if ev.k == 'store'):
                decoders.add(fn.name)
    bad = []
    for fn in P.fns_in('src/reader.c'):
        if fn.name in decoders:
            continue
        for ev in fn.stores():
            l0 = strip_casts(ev.store_parts()[0])
            if ev.k != 'store' or l0.get('op') != 'member' or l0.get('field') != 'k' or l0.get('rec') != 'jls_statistics_s':
                continue
            n += 1
            rhs = ev.store_parts()[1]
            if rhs is not None and const_of(strip_casts(rhs)) == 0:
                continue
            bad.append((fn, ev))
    ctx.ob(rule, not bad, (bad[0][0] if bad else P.fn('fsr_statistics')).name, 'weights of summary entries are set by the decoders', (bad[0][1] if bad else P.fn('fsr_statistics')).where(),
           'decoders: %s; no other store of a count in the reader' % sorted(decoders) if not bad else
           '%s assigns a weight to an accumulator directly: an entry the decoder marked absent (all-gap: NaN mean, count 0) becomes a NaN with weight and poisons the window it is merged into' % show(bad[0][1].e)[:50])
    if not decoders:
        raise AnalysisBroken('reader.c: summary entry decoders (NaN test + store of k) not found')
