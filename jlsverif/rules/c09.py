"""C09 — gaps read back as fill values, overlapping writes keep the first-written samples."""
from ..export import AnalysisBroken
from ..ir import strip_casts, const_of, walk, show, kids
from ..graph import find_path, ret_class, ev_dominates, control_deps_transitive, cond_facts, loops
from ..fd import FD, Top, values_at
from .. import df
from .common import exceptions
from .defnorm import accepted_data_types

EXPL = ('Fill-value rules on the skip branch of the FSR writer (NaN stores for float types, zero fill otherwise), set-of-constants '
        'evaluation of the scratch-buffer sample count against the scratch size for every accepted data type, degenerate '
        '(identically zero) advance/shift expressions in the overlap branch per sub-byte width, non-finite filtering of every '
        'accumulating statement in the summary reductions and of the reader-side entry-to-accumulator conversion, and the scratch '
        'subscript bound.')
NOT_DECIDED = 'Exact read-back of all other samples and the length arithmetic (ffwd subtraction) are value arithmetic.'


def is_finite_test(e):
    for nd in walk(e):
        if nd.get('op') == 'call' and 'isfinite' in (nd.get('callee') or ''):
            return True
        if nd.get('m') == 'isfinite':
            return True
        if nd.get('op') == 'call' and (nd.get('callee') or '') in ('__builtin_isnan', '__builtin_isinf_sign', '__builtin_fpclassify', '__finite', '__finitef', '__isnan', '__isinf'):
            return True
    return False


def finite_guarded(fn, ev):
    for (bid, label) in control_deps_transitive(fn, ev.block.id):
        c = fn.blocks[bid].cond
        if c is not None and is_finite_test(c) and label == 'T':
            return True
    return False


def run(ctx, sess):
    ctx.explanation = EXPL
    ctx.not_decided = NOT_DECIDED
    P = sess.prog('default')
    exc = exceptions('C09')
    fd = FD(P)
    ctx.rule('C09.1', 'fill values: in the skip branch every store into the scratch under a float data type is NaN; other types zero the whole scratch')
    ctx.rule('C09.2', 'scratch bound: for every accepted data type the sample count handed to the block writer with the scratch satisfies ceil(count * width / 8) <= sizeof(scratch)')
    ctx.rule('C09.3', 'no degenerate advance: in the overlap branch no pointer-advance or shift expression that depends on the overlap length is identically zero for a feasible sample width')
    ctx.rule('C09.4', 'non-finite values are skipped at every level: each accumulating statement of the summary reductions is control dependent on an isfinite test, and the reader converts a non-finite summary entry to an empty accumulator')
    ctx.rule('C09.6', 'single packer: every function that adds entries to the level-0 sample block also honours the pending partial byte (reads shift_amount), i.e. goes through the bit packer')
    ctx.rule('C09.7', 'level-0 data is left out only on request or when a predicate that examines every byte of the block said it is constant')
    ctx.rule('C09.5', 'scratch subscripts stay inside the scratch array')
    f = P.fn('jls_wr_fsr_data')
    ctx.saw(f)
    rec = P.record('jls_core_fsr_s')
    scratch = [fl for fl in rec['fields'] if fl['name'] == 'buffer_u64']
    if not scratch:
        raise AnalysisBroken('scratch buffer field buffer_u64 not found')
    scratch_bytes = scratch[0]['size_bits'] // 8
    scratch_words = scratch_bytes // 8
    # the skip branch: blocks control dependent on sample_id > sample_id_next, i.e. the F edge of (sample_id < sample_id_next)
    inner_calls = [c for c in f.calls('wr_data_inner') if f.path(c.args[1]) is not None and f.path(c.args[1]).last_field() == 'buffer_u64']
    skip_calls = [c for c in inner_calls if any(nd.get('op') == 'ref' and nd.get('name') == 'buf_sz' for nd in walk(c.args[2]))]
    scratch_fill = bool(skip_calls)
    if not skip_calls:
        ctx.note('C09.1/C09.2: no scratch-based gap fill found (wr_data_inner(self, scratch, count)); fill rules on the scratch are vacuous, C09.6 decides the replacement')
    single_packer(ctx, P)
    omission_criterion(ctx, P)
    if not scratch_fill:
        return
    # ---- C09.1
    dts = accepted_data_types(P)
    psz = P.fn('jls_datatype_parse_size')
    pbase = P.fn('jls_datatype_parse_basetype')
    from ..export import macros
    mac = macros(sess.repo, 'wr_fsr.c')
    fl = mac.get('JLS_DATATYPE_BASETYPE_FLOAT', '').strip('() ')
    try:
        FLOAT = int(fl, 0)
    except ValueError:
        raise AnalysisBroken('JLS_DATATYPE_BASETYPE_FLOAT not a plain constant: %r' % fl)
    floats = [dt for dt in dts if fd.call(pbase, [dt]) == FLOAT]
    nan_stores = 0
    for ev in f.stores():
        lhs, rhs, o = ev.store_parts()
        l0 = strip_casts(lhs)
        if l0.get('op') != 'sub':
            continue
        base = strip_casts(l0['k'][0])
        if base.get('op') != 'ref':
            continue
        # pointer local aliasing the scratch
        defs = [s for s in f.stores() if s.k == 'decl' and s.name == base['name'] and s.e is not None and
                any(nd.get('op') == 'member' and nd.get('field') == 'buffer_u64' for nd in walk(s.e))]
        if not defs:
            continue
        # under which data type?
        under = None
        for (bid, label) in control_deps_transitive(f, ev.block.id):
            c = strip_casts(f.blocks[bid].cond) if f.blocks[bid].cond else None
            if c is not None and c.get('op') == 'bin' and c['o'] == '==' and label == 'T' and any(nd.get('op') == 'member' and nd.get('field') == 'data_type' for nd in walk(c['k'][0])):
                under = strip_casts(c['k'][1]).get('m') or c['k'][1].get('m') or const_of(c['k'][1])
        r0 = strip_casts(rhs) if rhs is not None else None
        is_nan = r0 is not None and (r0.get('fc') == 'nan' or r0.get('m') == 'NAN' or any(nd.get('fc') == 'nan' or nd.get('m') == 'NAN' for nd in walk(r0)))
        nan_stores += 1
        ctx.ob('C09.1', is_nan, f.name, 'gap fill store under %s' % under, ev.where(), 'stores NaN' if is_nan else 'float gap samples are filled with %s instead of NaN' % show(rhs))
        # element type matches the data type
        et = defs[0].t
        want = {'JLS_DATATYPE_F32': 'p:f32', 'JLS_DATATYPE_F64': 'p:f64'}.get(under)
        if want:
            ctx.ob('C09.1', et == want, f.name, 'fill element type for %s' % under, ev.where(), 'fills through %s' % et)
    ctx.floor('NaN fill stores', nan_stores, 2)
    ctx.ob('C09.1', len(floats) == 2, f.name, 'float types covered', f.where(), 'float data types accepted: %s, fill branches: %d' % (['0x%x' % x for x in floats], nan_stores))
    ms = [c for c in f.calls(('memset', '__builtin_memset', '__builtin___memset_chk')) if f.path(c.args[0]) is not None and f.path(c.args[0]).last_field() == 'buffer_u64'
          and const_of(c.args[1]) == 0]
    okz = bool(ms) and const_of(ms[0].args[2]) == scratch_bytes
    ctx.ob('C09.1', okz, f.name, 'integer gap fill zeroes the whole scratch', ms[0].where() if ms else f.where(), 'memset(scratch, 0, %s), scratch is %d bytes' % (const_of(ms[0].args[2]) if ms else None, scratch_bytes))
    # every path of the skip branch to the block writer passes a fill
    fills = set(id(m) for m in ms)
    for c in skip_calls:
        # fill dominance: some fill store/memset on every path from entry to the call
        fill_events = [ev for ev in f.events() if (ev.k == 'call' and id(ev) in fills)]
        for ev in f.stores():
            l0 = strip_casts(ev.store_parts()[0])
            if l0.get('op') == 'sub' and strip_casts(l0['k'][0]).get('op') == 'ref' and strip_casts(l0['k'][0]).get('name') in ('f32', 'f64'):
                fill_events.append(ev)
        hdrs = set(h for h, body in loops(f).items() if any(ev in fill_events for bid in body for ev in f.blocks[bid].events)
                   and not any(ev is c for bid in body for ev in f.blocks[bid].events))
        w = find_path(f, 'entry', lambda e2, facts: 'stop' if e2 in fill_events else ('target' if e2 is c else None), refine=False,
                      on_block_end=lambda b, facts: 'stop' if b.id in hdrs else None)
        ctx.ob('C09.1', w is None, f.name, 'scratch is filled before it is written as gap samples', c.where(), 'every path fills' if w is None else 'the scratch can be written as gap samples without having been filled', w.render() if w else None)
    # ---- C09.2
    dt_path = None
    for b in f.blocks.values():
        if b.cond is None:
            continue
        for nd in walk(b.cond):
            if nd.get('op') == 'member' and nd.get('field') == 'data_type':
                from ..ir import path_of
                dt_path = str(path_of(nd))
    ssb = None
    for ev in f.events('decl'):
        if ev.e is not None and any(nd.get('op') == 'call' and nd.get('callee') == 'jls_datatype_parse_size' for nd in walk(ev.e)):
            ssb = ev.name
    if dt_path is None or ssb is None:
        raise AnalysisBroken('data type path / sample size local not found in jls_wr_fsr_data')
    call = skip_calls[0]
    bad = []
    okn = 0
    for dt in dts:
        w = fd.call(psz, [dt])
        env = {dt_path: dt, ssb: w, 'data_length': 1}
        vals = values_at(P, f, call, call.args[2], env)
        consts = [v for v in vals if v is not None]
        if not consts:
            bad.append('0x%x: count not decidable' % dt)
            continue
        for v in consts:
            need = (v * w + 7) // 8
            if need > scratch_bytes:
                bad.append('type 0x%x (width %d): up to %d samples = %d bytes are read from the %d-byte scratch' % (dt, w, v, need, scratch_bytes))
            else:
                okn += 1
    ctx.ob('C09.2', not bad, f.name, 'gap fill count fits the scratch for every data type', call.where(),
           '%d (type, count) pairs within %d bytes' % (okn, scratch_bytes) if not bad else '; '.join(bad[:3]) + (' (+%d more)' % (len(bad) - 3) if len(bad) > 3 else ''))
    # the only non-constant definition of the count is the clamp to the remaining gap
    for d in [s for s in f.stores() if strip_casts(s.store_parts()[0]).get('name') == 'buf_sz' and s.k == 'store']:
        lhs, rhs, o = d.store_parts()
        if o == '=' and const_of(rhs) is None and strip_casts(rhs).get('op') == 'ref':
            clamp = False
            for (bid, label) in control_deps_transitive(f, d.block.id):
                c = strip_casts(f.blocks[bid].cond) if f.blocks[bid].cond else None
                if c is not None and c.get('op') == 'bin' and c['o'] == '<' and label == 'T' and strip_casts(c['k'][0]).get('name') == strip_casts(rhs).get('name') \
                        and strip_casts(c['k'][1]).get('name') == 'buf_sz':
                    clamp = True
            ctx.ob('C09.2', clamp, f.name, 'count only ever lowered to the remaining gap', d.where(), 'buf_sz = %s under %s < buf_sz: %s' % (show(rhs), show(rhs), clamp))
    # ---- C09.3
    n3 = 0
    sub_widths = sorted(set(fd.call(psz, [dt]) for dt in dts if fd.call(psz, [dt]) < 8))
    all_widths = sorted(set(fd.call(psz, [dt]) for dt in dts))
    for ev in f.stores():
        lhs, rhs, o = ev.store_parts()
        if rhs is None:
            continue
        names = set(nd.get('name') for nd in walk(rhs) if nd.get('op') == 'ref')
        if 'ffwd' not in names:
            continue
        tgt = strip_casts(lhs).get('name')
        if tgt not in ('shift', 'data', 'shift_samples'):
            continue
        n3 += 1
        # feasible widths: controlling conditions on the sample size evaluated per width
        feasible = []
        for w in all_widths:
            ok = True
            for (bid, label) in control_deps_transitive(f, ev.block.id):
                c = f.blocks[bid].cond
                if c is None or label not in ('T', 'F'):
                    continue
                try:
                    v = fd.ev(f, c, {ssb: w})
                except (Top, ZeroDivisionError):
                    continue
                if bool(v) != (label == 'T'):
                    ok = False
            if ok:
                feasible.append(w)
        degenerate = []
        for w in feasible:
            vals = set()
            for ff in range(1, 33):
                try:
                    e2 = rhs
                    # pointer arithmetic data_u8 + X : evaluate X
                    r0 = strip_casts(rhs)
                    if r0.get('op') == 'bin' and r0['o'] == '+' and r0.get('t', '').startswith('p'):
                        e2 = r0['k'][1]
                    vals.add(fd.ev(f, e2, {ssb: w, 'ffwd': ff}))
                except (Top, ZeroDivisionError):
                    vals.add(None)
            if vals == {0}:
                degenerate.append(w)
        k = 'overlap %s = %s' % (tgt, show(rhs)[:50])
        ctx.ob('C09.3', not degenerate, f.name, k, ev.where(),
               'depends on the overlap for widths %s' % feasible if not degenerate else
               'identically 0 for width(s) %s although it should skip the overlapped samples: a sub-byte overlap appends the beginning of the new data again' % degenerate)
    ctx.floor('overlap advance expressions', n3, 3)
    # ---- C09.4 writer
    nacc = 0
    for fname in ('jls_core_fsr_summary1', 'jls_core_fsr_summaryN'):
        g = P.fn(fname)
        ctx.saw(g)
        acc = set()
        for c in g.calls('summary_entry_add'):
            for a in c.args[2:]:
                a0 = strip_casts(a)
                if a0.get('op') == 'ref':
                    acc.add(a0['name'])
        lp = loops(g)
        inner = set()
        for hdr, body in lp.items():
            # loops that contain no call to summary_entry_add are per-entry loops
            if not any(ev.k == 'call' and ev.callee == 'summary_entry_add' for bid in body for ev in g.blocks[bid].events):
                inner |= body
        for ev in g.stores():
            lhs, rhs, o = ev.store_parts()
            l0 = strip_casts(lhs)
            if l0.get('op') == 'ref' and l0.get('name') in acc and o == '+=' and ev.block.id in inner:
                nacc += 1
                ok = finite_guarded(g, ev)
                variant = ''
                for (bid, label) in control_deps_transitive(g, ev.block.id):
                    c = strip_casts(g.blocks[bid].cond) if g.blocks[bid].cond else None
                    if c is not None and c.get('op') == 'bin' and c['o'] == '==' and const_of(c['k'][1]) == 64 and label in ('T', 'F'):
                        variant = ' [%s summaries]' % ('f64' if label == 'T' else 'f32')
                ctx.ob('C09.4', ok, g.name, 'accumulate `%s`%s' % (show(ev.e)[:50], variant), ev.where(),
                       'under isfinite' if ok else 'non-finite entries (gap samples) are accumulated: one all-gap lower-level entry turns the variance of the whole upper-level entry into NaN')
    ctx.floor('accumulating statements in the summary reductions', nacc, 4)
    # ---- C09.4 reader
    nconv = 0
    for g in P.fns_in('src/reader.c'):
        kst = [ev for ev in g.stores() if strip_casts(ev.store_parts()[0]).get('op') == 'member' and strip_casts(ev.store_parts()[0]).get('field') == 'k'
               and strip_casts(ev.store_parts()[0]).get('rec') == 'jls_statistics_s']
        if not kst or not any(nd.get('op') == 'sub' for ev in g.stores() for nd in walk(ev.store_parts()[1] or {})):
            continue
        if len(g.params) < 2 or not g.params[1]['t'].startswith('p:f'):
            continue
        nconv += 1
        ctx.saw(g)
        for ev in kst:
            rhs = ev.store_parts()[1]
            ok = is_finite_test(rhs) or finite_guarded(g, ev)
            if not ok:
                # every call site guarded?
                sites = P.callers().get(g.name, [])
                ok = bool(sites) and all(finite_guarded(cf, cev) for cf, cev in sites)
            ctx.ob('C09.4', ok, g.name, 'non-finite summary entry becomes an empty accumulator', ev.where(),
                   'k depends on isfinite(entry)' if ok else
                   'a non-finite (all-gap) summary entry is combined with weight `count`: statistics over a window containing a gap return NaN mean/std and min/max of 0')
    ctx.floor('summary-entry converters in reader.c', nconv, 2)
    # ---- C09.5
    n5 = 0
    for b in f.blocks.values():
        items = [(ev.e, ev) for ev in b.events if ev.e is not None]
        for e, ev in items:
            for nd in walk(e):
                if nd.get('op') == 'sub' and nd.get('extent') == scratch_words and strip_casts(nd['k'][0]).get('field') == 'buffer_u64':
                    se = f.sub_event(nd['id']) or ev
                    idx = strip_casts(nd['k'][1])
                    c = const_of(idx)
                    n5 += 1
                    if c is not None:
                        ctx.ob('C09.5', 0 <= c < scratch_words, f.name, 'scratch[%d]' % c, se.where(), '')
                        continue
                    # index = f(sz) with sz <= sizeof - 8 (clamp) or idx < sz_words
                    vals = set()
                    ok = None
                    names = set(x.get('name') for x in walk(idx) if x.get('op') == 'ref')
                    if 'sz' in names:
                        try:
                            top = fd.ev(f, idx, {'sz': scratch_bytes - 8})
                            ok = top < scratch_words
                            detail = 'with sz at its clamp (%d) the index is %d, extent %d' % (scratch_bytes - 8, top, scratch_words)
                        except (Top, ZeroDivisionError):
                            ok, detail = False, 'not evaluable'
                    elif 'idx' in names:
                        # loop idx < sz_words, sz_words = (sz + 7) / 8 <= (sizeof - 8 + 7) / 8
                        try:
                            szw = (scratch_bytes - 8 + 7) // 8
                            top = fd.ev(f, idx, {'idx': szw - 1})
                            ok = top < scratch_words
                            detail = 'largest loop index %d gives %d, extent %d' % (szw - 1, top, scratch_words)
                        except (Top, ZeroDivisionError):
                            ok, detail = False, 'not evaluable'
                    else:
                        ok, detail = False, 'index %s not understood' % show(idx)
                    ctx.ob('C09.5', bool(ok), f.name, 'scratch[%s]' % show(idx), se.where(), detail if ok else detail + ': one word past the scratch array')
    ctx.floor('scratch subscripts', n5, 3)


def single_packer(ctx, P):
    n = 0
    for g in P.fns_in('src/wr_fsr.c'):
        adds = []
        for ev in g.stores():
            lhs, rhs, o = ev.store_parts()
            l0 = strip_casts(lhs)
            if l0.get('op') == 'member' and l0.get('field') == 'entry_count' and o in ('+=', 'pre++', 'post++'):
                p = g.path(l0)
                base_t = None
                for nd in walk(l0):
                    if nd.get('op') in ('ref', 'member') and nd.get('t', '').endswith('jls_fsr_data_s'):
                        base_t = nd.get('t')
                if base_t is not None:
                    adds.append(ev)
        if not adds:
            continue
        n += 1
        ctx.saw(g)
        reads_shift = any(nd.get('op') == 'member' and nd.get('field') == 'shift_amount' for b in g.blocks.values()
                          for e in ([ev.e for ev in b.events if ev.e is not None] + ([b.cond] if b.cond is not None else [])) for nd in walk(e))
        ctx.ob('C09.6', reads_shift, g.name, 'adds entries to the sample block through the bit packer', adds[0].where(),
               'honours shift_amount' if reads_shift else
               'this function appends samples to the level-0 block but ignores the pending partial byte (shift_amount / shift_buffer): sub-byte data before and after is displaced')
    ctx.floor('functions adding entries to the sample block', n, 1)


def full_scan_predicate(P, g):
    """g(mem, size, ...) examines every element: one loop whose pointer starts at mem, ends at mem + size, advances by one,
    returns false inside the loop only under a test of the current element, and true after the loop."""
    lp = loops(g)
    if len(lp) != 1 or len(g.params) < 2:
        return False
    hdr, body = list(lp.items())[0]
    rets = g.returns()
    if any(r.e is None or const_of(strip_casts(r.e)) is None for r in rets):
        return False
    inside = [r for r in rets if const_of(strip_casts(r.e)) == 0]       # early exits: "not constant"
    outside = [r for r in rets if const_of(strip_casts(r.e)) != 0]     # after the scan: "constant"
    if not inside or len(outside) != 1:
        return False
    # the early exit is decided by the element
    for r in inside:
        okc = False
        for (bid, label) in control_deps_transitive(g, r.block.id):
            c = g.blocks[bid].cond
            if c is not None and bid in body and any(nd.get('op') == 'un' and nd['o'] == '*' for nd in walk(c)):
                okc = True
        if not okc:
            return False
    # bounds: cursor local from param0, end local from param0 + param1
    p0, p1 = g.params[0]['name'], g.params[1]['name']
    cur = end = None
    for ev in g.events('decl'):
        if ev.e is None:
            continue
        names = set(nd.get('name') for nd in walk(ev.e) if nd.get('op') == 'ref')
        if names == {p0}:
            cur = ev.name
        if cur and names == {cur, p1} and strip_casts(ev.e).get('op') == 'bin' and strip_casts(ev.e)['o'] == '+':
            end = ev.name
    if cur is None or end is None:
        return False
    bound = False
    for bid in body:
        c = strip_casts(g.blocks[bid].cond) if g.blocks[bid].cond else None
        if c is not None and c.get('op') == 'bin' and c['o'] == '<' and strip_casts(c['k'][0]).get('name') == cur and strip_casts(c['k'][1]).get('name') == end:
            # leaving the loop on this condition's false edge
            bound = any(s.id not in body for s, l in g.blocks[bid].succs if l == 'F')
    if not bound:
        return False
    steps = [ev for bid in body for ev in g.blocks[bid].events if ev.k == 'store' and strip_casts(ev.store_parts()[0]).get('name') == cur]
    return len(steps) == 1 and steps[0].store_parts()[1] is None and '++' in steps[0].store_parts()[2]


def omission_criterion(ctx, P):
    f = P.fn('wr_data', 'src/wr_fsr.c')
    ctx.saw(f)
    defs = [ev for ev in f.stores() if strip_casts(ev.store_parts()[0]).get('op') == 'ref' and strip_casts(ev.store_parts()[0]).get('name') == 'omit_data'
            or (ev.k == 'decl' and ev.name == 'omit_data')]
    if not defs:
        raise AnalysisBroken('wr_data: no definition of omit_data')
    n = 0
    for d in defs:
        lhs, rhs, o = d.store_parts()
        calls = [nd.get('callee') for nd in walk(rhs or {}) if nd.get('op') == 'call']
        for (bid, label) in control_deps_transitive(f, d.block.id):
            c = f.blocks[bid].cond
            calls += [nd.get('callee') for nd in walk(c or {}) if nd.get('op') == 'call']
        fields = set(nd.get('field') for nd in walk(rhs or {}) if nd.get('op') == 'member')
        if o == '&=':
            continue                      # can only clear the flag
        if const_of(strip_casts(rhs)) == 0 and o == '=':
            continue
        n += 1
        helper_ok = {'sample_size_bits', 'jls_datatype_parse_size'}
        unverified = [c for c in calls if c not in helper_ok and not (P.functions.get(c) is not None and full_scan_predicate(P, P.functions[c]))]
        from_request = 'write_omit_data' in fields and not [c for c in calls if c not in helper_ok]
        from_scan = any(P.functions.get(c) is not None and full_scan_predicate(P, P.functions[c]) for c in calls) and not unverified
        ctx.ob('C09.7', from_request or from_scan, f.name, 'omission decided by `%s`' % show(d.e)[:50], d.where(),
               'explicit request' if from_request else ('predicate scanning every byte of the block' if from_scan else
               'the block is left out on the word of %s, which does not examine every sample: written samples inside such a block are lost and read back as synthesised values' % (unverified or 'an unverified criterion')))
    ctx.floor('definitions that can enable omission', n, 2)
