"""C07 — threaded writer flush/close semantics, no deadlock, no spinning."""
from ..export import AnalysisBroken
from ..ir import strip_casts, const_of, walk, show, kids
from ..graph import (find_path, find_spin, ret_class, ev_dominates, control_deps_transitive, cond_facts, loops)
from .. import df
from .common import exceptions, consumed, nonzero_starts
from .c06 import setup, TW, MSG, PROC

EXPL = ('Ordering and must-pass-through rules on the consumer, flush and close; event-flag discipline; may-held lockset against '
        'blocking callees (call-graph closure over sleep/join/wait/fsync/write); cycle search in the (block, branch-fact) state '
        'graph of every function of threaded_writer.c and backend_posix.c for a loop iteration without a blocking wait, a pop or an '
        'induction step; consumption of send results.')
NOT_DECIDED = 'Wall-clock bounds, fairness of the scheduler, and that fsync really persists (trusted to the OS).'

BLOCK_PRIMS = {'nanosleep', 'pthread_join', 'pthread_cond_wait', 'fsync', 'write', 'read', 'ftruncate', 'open', 'usleep', 'sleep', 'pthread_cond_timedwait'}


def run(ctx, sess):
    ctx.explanation = EXPL
    ctx.not_decided = NOT_DECIDED
    ctx.rule('C07.10', 'no lock outlives a call: every lock of the threaded writer is released on every exit of the function that took it, also on error returns (shared with C06.3)')
    from .common import relay
    from . import c06 as _src_c06
    relay(ctx, sess, _src_c06.run, {'C06.3': 'C07.10'})
    ctx.rule('C07.14', 'an accepted message is applied as it was submitted: the consumer reads the payload in place, so the message is popped only after it was processed - a slot that is released first can be handed to a producer while the writer thread still reads it (shared with C06.6)')
    relay(ctx, sess, _src_c06.run, {'C06.6': 'C07.14'}, minimum=3)
    P, L = setup(sess)
    exc = exceptions('C07')
    ctx.rule('C07.1', 'flush ticket is published only after the file was synced: jls_wr_flush (which reaches fsync) dominates every store to flush_processed_id in the consumer')
    ctx.rule('C07.12', 'an accepted message cannot vanish (close would wait for it forever, or return with it unwritten): the ring never reports a full queue as empty (shared with C06.10 / C08.4)')
    ctx.rule('C07.13', 'timed waits end under interruptions: a nanosleep that is retried in a loop hands the remaining time back as the next request (its second argument is the object of its first), so a stream of signals cannot restart the full duration for ever')
    ctx.rule('C07.11', 'a flush covers everything submitted before it: every successful return of jls_twr_flush follows a FLUSH message queued by this very call, and the ticket it waits for is a fresh one (send counter + 1) on every path - never a ticket taken by another caller earlier')
    ctx.rule('C07.2', 'jls_twr_flush returns 0 only through the edge on which flush_processed_id has reached the ticket; the deadline edge returns non-zero')
    ctx.rule('C07.3', 'drain: the consumer\'s inner loop is left only on an empty queue, and `quit` is tested only by the outer loop')
    ctx.rule('C07.4', 'close order: join (jls_bkt_finalize) dominates jls_wr_close dominates free(self)')
    ctx.rule('C07.5', 'signal after enqueue: every path from a successful allocation to a zero return passes jls_bkt_msg_signal')
    ctx.rule('C07.6', 'event flag: pthread_cond_wait sits in a loop re-testing the flag; every flag store holds the flag mutex')
    ctx.rule('C07.7', 'no blocking call while the message lock may be held')
    ctx.rule('C07.8', 'progress: no loop iteration without a blocking wait, a pop or an induction step (cycle search with branch facts)')
    ctx.rule('C07.9', 'a failed send is noticed: results of msg_send / msg_send_inner are consumed')

    fns = P.fns_in(TW)
    bk = P.fns_in('src/backend_posix.c')
    for f in fns + bk:
        ctx.saw(f)
    run_fn = P.fn('jls_twr_run')

    # ---- C07.1
    if 'fsync' not in P.reachable_from(['jls_wr_flush']):
        ctx.ob('C07.1', False, 'jls_wr_flush', 'reaches fsync', P.fn('jls_wr_flush').where(), 'jls_wr_flush no longer reaches fsync()')
    else:
        ctx.ob('C07.1', True, 'jls_wr_flush', 'reaches fsync', P.fn('jls_wr_flush').where(), ' -> '.join(P.call_paths('jls_wr_flush', 'fsync', 1)[0]))
    n = 0
    for ev in run_fn.stores():
        lhs, rhs, o = ev.store_parts()
        l0 = strip_casts(lhs)
        if l0.get('op') == 'member' and l0.get('field') == 'flush_processed_id':
            n += 1
            fl = [c for c in run_fn.calls('jls_wr_flush') if ev_dominates(c, ev)]
            ctx.ob('C07.1', bool(fl), run_fn.name, 'store to flush_processed_id', ev.where(),
                   'dominated by jls_wr_flush' if fl else 'ticket published before the file was flushed')
            # ... and only when the flush succeeded: no path from the flush to the store avoids its zero-result edge
            from ..guard import zero_edges_of_call
            for c in fl:
                okedges = zero_edges_of_call(run_fn, c)
                w = find_path(run_fn, c, lambda e2, facts: 'target' if e2 is ev else None, refine=False,
                              edge_ok=lambda b_, s_, label: (b_.id, label) not in okedges) if okedges else True
                ctx.ob('C07.1', w is None, run_fn.name, 'ticket published only when jls_wr_flush returned 0', ev.where(),
                       'store lies behind the zero-result edge of the flush' if w is None else
                       'the ticket is published whatever jls_wr_flush returned: jls_twr_flush reports success although the sync failed',
                       w.render() if (w is not None and w is not True) else None)
    ctx.floor('stores to flush_processed_id in the consumer', n, 1)
    # the ticket that is published is the one carried by the FLUSH message being processed (monotone max with itself)
    for ev in run_fn.stores():
        lhs, rhs, o = ev.store_parts()
        l0 = strip_casts(lhs)
        if l0.get('op') == 'member' and l0.get('field') == 'flush_processed_id' and rhs is not None:
            leaves = set()
            for nd in walk(rhs):
                if nd.get('op') == 'member' and not any(nd is k_ for m_ in walk(rhs) if m_.get('op') == 'member' for k_ in kids(m_)):
                    leaves.add(nd['field'])
            ok = leaves <= {'d', 'flush_processed_id'} and 'd' in leaves
            ctx.ob('C07.1', ok, run_fn.name, 'published ticket comes from the processed FLUSH message', ev.where(),
                   'ticket = max(message ticket, published)' if ok else
                   'the published ticket is taken from %s, not from the FLUSH message: flushes whose messages are still queued are acknowledged' % sorted(leaves - {'d', 'flush_processed_id'}))

    # ---- C07.2
    fl = P.fn('jls_twr_flush')
    gates = []
    deadline = []
    for b in fl.blocks.values():
        e = strip_casts(b.cond) if b.cond else None
        if e is None or e.get('op') != 'bin':
            continue
        names = [n_.get('field') for n_ in walk(e) if n_.get('op') == 'member']
        if 'flush_processed_id' in names and e['o'] in ('<', '>', '<=', '>='):
            l, r = e['k']
            lp = fl.path(strip_casts(l))
            proc_left = lp is not None and lp.last_field() == 'flush_processed_id'
            o = e['o'] if proc_left else {'<': '>', '>': '<', '<=': '>=', '>=': '<='}[e['o']]
            # processed < ticket : not done on T ; pass edge F
            if o == '<':
                gates.append((b, 'F'))
            elif o == '>=':
                gates.append((b, 'T'))
            other = r if proc_left else l
            tick = df.derives(fl, other, lambda n_: n_.get('op') == 'member' and n_.get('field') == 'flush_send_id', *df.cond_pos(b))
            if not tick:
                ctx.ob('C07.2', False, fl.name, 'ticket compare', '%s:%d' % (fl.file, b.line), 'flush_processed_id is compared with %s, which is not derived from flush_send_id' % show(other))
        if any(n_.get('op') == 'call' and n_.get('callee') == 'jls_now' for n_ in walk(e)) and e['o'] in ('>=', '>', '<', '<='):
            l, r = e['k']
            now_left = any(n_.get('op') == 'call' and n_.get('callee') == 'jls_now' for n_ in walk(l))
            o = e['o'] if now_left else {'<': '>', '>': '<', '<=': '>=', '>=': '<='}[e['o']]
            deadline.append((b, 'T' if o in ('>=', '>') else 'F'))
    if not gates:
        ctx.ob('C07.2', False, fl.name, 'ticket gate', fl.where(), 'no compare of flush_processed_id with the ticket found')
    else:
        forb = set((b.id, lab) for b, lab in gates)
        w = find_path(fl, 'entry', lambda ev, facts: 'target' if ev.k == 'ret' and ret_class(fl, ev, facts) in ('zero', 'unknown') else None,
                      edge_ok=lambda b, s, label: (b.id, label) not in forb)
        ctx.ob('C07.2', w is None, fl.name, 'success only when the ticket was processed', fl.where(),
               'every zero return passes the processed >= ticket edge' if w is None else 'a zero return is reachable without the ticket having been processed',
               w.render() if w else None)
    for b, late in deadline:
        si = [i for i, (s, l2) in enumerate(b.succs) if l2 == late]
        for i in si:
            w = find_path(fl, (b, i), lambda ev, facts: 'target' if ev.k == 'ret' and ret_class(fl, ev, facts) in ('zero', 'unknown') else None)
            ctx.ob('C07.2', w is None, fl.name, 'deadline edge returns an error', '%s:%d' % (fl.file, b.line),
                   'late edge reaches only non-zero returns' if w is None else 'timeout path returns success', w.render() if w else None)
    ctx.floor('deadline compare in jls_twr_flush', len(deadline), 1)

    # ---- C07.3
    drain_rule(ctx, P, 'C07.3')
    own_flush_rule(ctx, P)
    from .c10c import r15
    r15(ctx, P, 'C07.12')
    sleep_rule(ctx, P)

    # ---- C07.4
    cl = P.fn('jls_twr_close')
    joins = list(cl.calls('jls_bkt_finalize'))
    closes = list(cl.calls('jls_wr_close'))
    frees = [c for c in cl.calls('free') if (cl.path(c.args[0]) is not None and cl.path(c.args[0]).root == cl.params[0]['name'] and len(cl.path(c.args[0])) == 2)]
    if not joins or not closes or not frees:
        ctx.ob('C07.4', False, cl.name, 'close sequence', cl.where(), 'join=%d wr_close=%d free(self)=%d' % (len(joins), len(closes), len(frees)))
    else:
        for c in closes:
            ok = any(ev_dominates(j, c) for j in joins)
            ctx.ob('C07.4', ok, cl.name, 'join before jls_wr_close', c.where(), 'writer closed only after the thread was joined' if ok else 'jls_wr_close may run while the writer thread is alive')
        for fr in frees:
            ok = any(ev_dominates(c, fr) for c in closes) and any(ev_dominates(j, fr) for j in joins)
            ctx.ob('C07.4', ok, cl.name, 'free(self) last', fr.where(), 'freed after join and close' if ok else 'instance freed before the thread was joined / the file closed')
        # success return of close passes wr_close
        w = find_path(cl, 'entry', lambda ev, facts: ('stop' if ev.k == 'call' and ev.callee == 'jls_wr_close' else
                                                      ('target' if ev.k == 'ret' else None)),
                      start_facts=frozenset([(cl.params[0]['name'], 'ne', 0)]))
        ctx.ob('C07.4', w is None, cl.name, 'close returns only after jls_wr_close', cl.where(),
               'every return with a non-NULL instance passes jls_wr_close' if w is None else 'close can return without closing the file', w.render() if w else None)
    # jls_bkt_finalize really joins
    fin = P.fn('jls_bkt_finalize')
    ctx.ob('C07.4', bool(list(fin.calls('pthread_join'))), fin.name, 'pthread_join', fin.where(), 'finalize joins the thread')

    # ---- C07.5
    n5 = 0
    for fn in fns:
        for al in fn.calls('jls_mrb_alloc'):
            n5 += 1
            var = None
            st = None
            for ev in al.block.events[al.idx + 1:]:
                if ev.k in ('store', 'decl'):
                    lhs, rhs, o = ev.store_parts()
                    if rhs is not None and strip_casts(rhs).get('id') == al.e.get('id'):
                        var = strip_casts(lhs).get('name')
                        st = ev
                        break
            if var is None:
                continue
            def on_event(ev, facts):
                if ev.k == 'call' and ev.callee == 'jls_bkt_msg_signal':
                    return 'stop'
                if ev.k == 'ret' and ret_class(fn, ev, facts) in ('zero', 'unknown'):
                    return 'target'
                return None
            w = find_path(fn, st, on_event, start_facts=frozenset([(var, 'ne', 0)]))
            ctx.ob('C07.5', w is None, fn.name, 'signal after enqueue', al.where(),
                   'consumer is woken on every accepted message' if w is None else 'a message is enqueued and success returned without waking the consumer', w.render() if w else None)
    ctx.floor('enqueue sites', n5, 1)
    # the signal reaches pthread_cond_signal, the wait reaches pthread_cond_wait
    ctx.ob('C07.5', 'pthread_cond_signal' in P.reachable_from(['jls_bkt_msg_signal']) or 'pthread_cond_broadcast' in P.reachable_from(['jls_bkt_msg_signal']),
           'jls_bkt_msg_signal', 'reaches pthread_cond_signal', P.fn('jls_bkt_msg_signal').where(), '')

    # ---- C07.6
    n6 = 0
    for fn in bk:
        for w_ev in fn.calls('pthread_cond_wait'):
            n6 += 1
            lp2 = loops(fn)
            inloop = [h for h, body in lp2.items() if w_ev.block.id in body]
            ok = False
            for h in inloop:
                for bid in lp2[h]:
                    b = fn.blocks[bid]
                    if b.cond is not None and any(n_.get('op') == 'member' and n_.get('field') == 'flag' for n_ in walk(b.cond)):
                        ok = True
            must, may = L.state_before(fn, w_ev)
            ctx.ob('C07.6', ok and 'mutex' in must, fn.name, 'pthread_cond_wait in a flag loop', w_ev.where(),
                   'wait re-tests the flag under the mutex' if ok and 'mutex' in must else 'cond_wait not in a loop testing the flag (spurious/lost wake-up) or without the mutex')
        for ev in fn.stores():
            lhs, rhs, o = ev.store_parts()
            l0 = strip_casts(lhs)
            if l0.get('op') == 'member' and l0.get('field') == 'flag' and l0.get('rec') == 'event_flag':
                n6 += 1
                must, may = L.state_before(fn, ev)
                fresh = any(c.callee in ('malloc', 'calloc') for c in fn.calls())   # creation: object not shared yet
                ctx.ob('C07.6', 'mutex' in must or fresh, fn.name, 'store to flag', ev.where(),
                       'under the flag mutex' if 'mutex' in must else ('object under construction' if fresh else 'flag stored without the mutex (lost wake-up)'))
        for ev in fn.stores():
            lhs, rhs, o = ev.store_parts()
            l0 = strip_casts(lhs)
            if l0.get('op') == 'member' and l0.get('field') == 'flag' and l0.get('rec') == 'event_flag' and const_of(rhs) == 0:
                if any(c.callee in ('malloc', 'calloc') for c in fn.calls()):
                    continue
                waits = [c for c in fn.calls('pthread_cond_wait')]
                # dominated by the exit edge of a loop testing the flag (flag observed non-zero) in this function
                observed = False
                for (bid, label) in [(b.id, lab) for b in fn.blocks.values() for lab in ('T', 'F')]:
                    for (var, kind, cv) in cond_facts(fn, fn.blocks[bid].cond, label):
                        if var.endswith('.flag') and kind == 'ne' and cv == 0:
                            # the store is only reachable through this edge
                            from ..graph import find_path as fp
                            w_ = fp(fn, 'entry', lambda e2, facts: 'target' if e2 is ev else None, edge_ok=lambda b, s, l2, bid=bid, label=label: (b.id, l2) != (bid, label), refine=False)
                            if w_ is None:
                                observed = True
                ctx.ob('C07.6', observed and bool(waits), fn.name, 'flag is consumed only where it was observed set', ev.where(),
                       'reset after the wait loop saw it set, under the mutex' if (observed and waits) else
                       'the flag is cleared without having been observed set in the same critical section: a signal sent between the last queue check and this clear is lost (consumer sleeps forever)')
        for s_ev in fn.calls('pthread_cond_signal'):
            must, may = L.state_before(fn, s_ev)
            # the flag must be set before signalling
            st_ = [e2 for e2 in fn.stores() if strip_casts(e2.store_parts()[0]).get('field') == 'flag' and ev_dominates(e2, s_ev)]
            ctx.ob('C07.6', bool(st_), fn.name, 'flag set before signal', s_ev.where(), 'flag store dominates the signal' if st_ else 'signal without setting the flag')
    ctx.floor('event-flag sites', n6, 3)

    # ---- C07.7
    may_block = set()
    for f in P.all_functions():
        if P.reachable_from([f.name]) & BLOCK_PRIMS:
            may_block.add(f.name)
    n7 = 0
    for fn in fns + bk:
        for ev in fn.calls():
            must, may = L.state_before(fn, ev)
            if MSG in may:
                n7 += 1
                bad = ev.callee in may_block or ev.callee in BLOCK_PRIMS
                ctx.ob('C07.7', not bad, fn.name, '%s() under the message lock' % ev.callee, ev.where(),
                       'non-blocking' if not bad else 'may block (%s) while producers and the consumer contend for the message lock' %
                       ' -> '.join((P.call_paths(ev.callee, sorted(P.reachable_from([ev.callee]) & BLOCK_PRIMS)[0], 1) or [[ev.callee]])[0]))
    ctx.floor('calls under the message lock', n7, 4)

    # ---- C07.8
    def is_progress_for(fn):
        exit_vars = set()
        for b in fn.blocks.values():
            if b.cond is not None and len(b.succs) >= 2:
                for n_ in walk(b.cond):
                    if n_.get('op') == 'ref' and n_.get('rk') in ('local', 'param'):
                        exit_vars.add(n_['name'])

        def is_progress(ev):
            if ev.k == 'call':
                if ev.callee in BLOCK_PRIMS or ev.callee in ('jls_mrb_pop',):
                    return True
                if ev.callee in may_block and ev.callee in ('jls_bkt_msg_wait', 'jls_bkt_sleep_ms', 'jls_bkt_finalize'):
                    return True
                return False
            if ev.k == 'store':
                lhs, rhs, o = ev.store_parts()
                l0 = strip_casts(lhs)
                if l0.get('op') == 'ref' and l0.get('name') in exit_vars and (rhs is None or o in ('+=', '-=')):
                    return True
            return False
        return is_progress
    n8 = 0
    for fn in fns + bk:
        lps = loops(fn)
        if not lps:
            continue
        n8 += len(lps)
        w = find_spin(fn, is_progress_for(fn))
        ctx.ob('C07.8', w is None, fn.name, 'no iteration without progress (%d loop(s))' % len(lps), fn.where(),
               'every cycle passes a wait, a pop or an induction step' if w is None else 'a loop iteration can repeat without blocking or consuming anything (busy spin / livelock)',
               w.render() if w else None)
    ctx.floor('loops in the threaded writer and backend', n8, 5)

    # ---- C07.9
    n9 = 0
    for name in ('msg_send', 'msg_send_inner'):
        for fn, ev in P.callers().get(name, []):
            n9 += 1
            ctx.saw(fn, 1)
            ok, how = consumed(fn, ev)
            k = '%s:%s' % (fn.name, name)
            if not ok and k in exc:
                ctx.note('exception %s: %s' % (k, exc[k]))
                continue
            ctx.ob('C07.9', ok, fn.name, 'result of %s()' % name, ev.where(),
                   how if ok else 'the send can fail (queue full for the whole timeout); ignoring it means the message the caller relies on was never enqueued')
    ctx.floor('send call sites', n9, 8)


def drain_rule(ctx, P, rule):
    """the consumer's inner loop is left only on an empty queue; quit is examined only by the outer loop"""
    run_fn = P.fn('jls_twr_run')
    lp = loops(run_fn)
    peek_blocks = [ev.block.id for ev in run_fn.calls(('jls_mrb_peek', 'jls_mrb_pop'))]
    if not peek_blocks:
        raise AnalysisBroken('jls_twr_run takes nothing from the ring (no jls_mrb_peek / jls_mrb_pop)')
    inner = None
    for hdr, body in lp.items():
        if peek_blocks[0] in body and (inner is None or len(body) < len(inner[1])):
            inner = (hdr, body)
    if inner is None:
        ctx.ob(rule, False, run_fn.name, 'inner consumer loop', run_fn.where(), 'jls_mrb_peek is not inside a loop')
    else:
        hdr, body = inner
        nexits = 0
        for bid in body:
            b = run_fn.blocks[bid]
            for s, label in b.succs:
                if s.id in body:
                    continue
                nexits += 1
                facts = cond_facts(run_fn, b.cond, label)
                ok = any(kind == 'eq' and c == 0 for (var, kind, c) in facts) and \
                    df.derives(run_fn, b.cond, lambda n_: n_.get('op') == 'call' and n_.get('callee') in ('jls_mrb_peek', 'jls_mrb_pop'), *df.cond_pos(b))
                ctx.ob(rule, ok, run_fn.name, 'exit of the drain loop', '%s:%d' % (run_fn.file, b.line),
                       'left only when the peeked message is NULL' if ok else 'the drain loop can be left while messages remain (exit on `%s`)' % show(b.cond))
            for ev in b.events:
                if ev.k == 'ret':
                    nexits += 1
                    ctx.ob(rule, False, run_fn.name, 'exit of the drain loop', ev.where(), 'return inside the drain loop')
        ctx.floor('exits of the drain loop', nexits, 1)
        # quit is tested only outside the inner loop
        for bid in body:
            b = run_fn.blocks[bid]
            if b.cond is not None and any(n_.get('op') == 'member' and n_.get('field') == 'quit' for n_ in walk(b.cond)):
                ctx.ob(rule, False, run_fn.name, '`quit` tested inside the drain loop', '%s:%d' % (run_fn.file, b.line),
                       'accepted messages can be abandoned when quit is set')
        outer_tests = [b for b in run_fn.blocks.values() if b.id not in body and b.cond is not None
                       and any(n_.get('op') == 'member' and n_.get('field') == 'quit' for n_ in walk(b.cond))]
        ctx.ob(rule, bool(outer_tests), run_fn.name, '`quit` tested by the outer loop', run_fn.where(), '%d test(s) outside the drain loop' % len(outer_tests))


def own_flush_rule(ctx, P):
    fl = P.fn('jls_twr_flush')
    ctx.saw(fl, 1)
    sends = [c for c in fl.calls() if c.callee in ('msg_send', 'msg_send_inner')]
    w = find_path(fl, 'entry', lambda ev, facts: 'stop' if ev in sends else ('target' if (ev.k == 'ret' and ret_class(fl, ev, facts) in ('zero',)) else None))
    ctx.ob('C07.11', w is None and bool(sends), fl.name, 'a FLUSH message is queued on every path to success', fl.where(),
           'msg_send lies on every path to `return 0`' if (w is None and sends) else
           'jls_twr_flush can return 0 without having queued a FLUSH message of its own: messages submitted after the flush it piggy-backs on are not covered',
           w.render() if w else None)
    # the ticket waited for
    n = 0
    for b in fl.blocks.values():
        c = strip_casts(b.cond) if b.cond is not None else None
        if c is None or c.get('op') != 'bin' or c['o'] not in ('<', '<=', '>', '>='):
            continue
        sides = c['k']
        if not any(nd.get('op') == 'member' and nd.get('field') == 'flush_processed_id' for nd in walk(c)):
            continue
        for x in sides:
            x0 = strip_casts(x)
            if x0.get('op') == 'ref' and x0.get('rk') == 'local':
                n += 1
                defs, entry = df.reaching_defs(fl, x0['name'], b, len(b.events))
                stale = []
                for d_ in defs:
                    rhs = d_.store_parts()[1]
                    fresh = rhs is not None and any(nd.get('op') == 'bin' and nd['o'] == '+' and const_of(nd['k'][1]) == 1 and
                                                   any(m.get('op') == 'member' and m.get('field') == 'flush_send_id' for m in walk(nd['k'][0])) for nd in walk(rhs))
                    if not fresh:
                        stale.append(show(d_.e)[:50] if d_.e else d_.name)
                ctx.ob('C07.11', not stale and not entry and bool(defs), fl.name, 'the ticket waited for is fresh', '%s:%d' % (fl.file, b.line),
                       '%s = flush_send_id + 1 on every path' % x0['name'] if (not stale and defs) else
                       'on some path the ticket is %s: the caller waits for a flush that was requested before its own messages' % (stale or ['undefined'])[0])
    ctx.floor('ticket compares in jls_twr_flush', n, 1)
    # tickets are never handed out twice: the send counter only grows (a counter that is taken back after another caller
    # took the next ticket makes a later flush reuse a ticket that was already processed)
    nst = 0
    for fn in P.fns_in('src/threaded_writer.c'):
        for ev in fn.stores():
            lhs, rhs, o = ev.store_parts()
            l0 = strip_casts(lhs)
            if ev.k != 'store' or l0.get('op') != 'member' or l0.get('field') != 'flush_send_id':
                continue
            nst += 1
            r0 = strip_casts(rhs) if rhs is not None else None
            grows = False
            if rhs is None:
                grows = '++' in o
            elif o == '+=':
                grows = (const_of(r0) or 0) > 0
            elif o == '=':
                if const_of(r0) == 0:
                    grows = True            # initialisation of a fresh object
                elif r0.get('op') == 'ref':
                    # a local defined as counter + 1
                    ds = [d for d in fn.events() if (d.k == 'decl' and d.name == r0['name'] and d.e is not None) or
                          (d.k == 'store' and strip_casts(d.store_parts()[0]).get('name') == r0['name'])]
                    ds = list({id(d): d for d in ds}.values())
                    def plus_one(e):
                        e = strip_casts(e) if e is not None else {}
                        return e.get('op') == 'bin' and e['o'] == '+' and any(m.get('op') == 'member' and m.get('field') == 'flush_send_id' for m in walk(e)) and \
                            any((const_of(k_) or 0) > 0 for k_ in e['k'])
                    grows = bool(ds) and all(plus_one(d.e if d.k == 'decl' else d.store_parts()[1]) for d in ds)
                elif r0.get('op') == 'bin' and r0['o'] == '+':
                    grows = any(m.get('op') == 'member' and m.get('field') == 'flush_send_id' for m in walk(r0)) and any((const_of(k_) or 0) > 0 for k_ in r0['k'])
            ctx.ob('C07.11', grows, fn.name, 'the flush send counter only grows', ev.where(),
                   'initialised to 0 / advanced by one' if grows else
                   'the counter is lowered (%s): when another caller has taken the next ticket in between, the following flush is handed a ticket that was already processed and returns at once, before the messages submitted ahead of it are applied' % show(ev.e)[:40])
    ctx.floor('stores to the flush send counter', nst, 2)



def sleep_rule(ctx, P):
    n = 0
    for fn in P.all_functions():
        if fn.file not in ('src/backend_posix.c', 'src/threaded_writer.c'):
            continue
        for c in fn.calls(('nanosleep', 'clock_nanosleep')):
            n += 1
            ctx.saw(fn, 1)
            # retried?  the call's block lies on a cycle
            seen, work = set(), [s_ for s_, _ in c.block.succs]
            while work:
                x = work.pop()
                if x.id in seen:
                    continue
                seen.add(x.id)
                work.extend(s_ for s_, _ in x.succs)
            retried = c.block.id in seen
            req = show(strip_casts(c.args[-2])) if len(c.args) >= 2 else '?'
            rem = show(strip_casts(c.args[-1])) if len(c.args) >= 2 else '?'
            ok = (not retried) or (req == rem and const_of(strip_casts(c.args[-1])) is None)
            ctx.ob('C07.13', ok, fn.name, '%s(%s, %s)' % (c.callee, req, rem), c.where(),
                   ('retried with the remaining time' if retried else 'not retried') if ok else
                   'the sleep is retried after EINTR with the full duration again: a thread that receives signals more often than the duration never leaves %s, and jls_twr_flush / a blocked send never re-check their deadline' % fn.name)
    ctx.floor('nanosleep sites', n, 1)


def refused_send_rule(ctx, P, rule):
    """A message the queue refused (BUSY / timeout) can be submitted again: before the send, a producer call stores nothing
    into the writer object that one of its own conditions reads."""
    F = 'src/threaded_writer.c'
    n = 0
    for fn in P.fns_in(F):
        sends = [c for c in fn.calls(('msg_send', 'msg_send_inner')) if fn.name not in ('msg_send', 'msg_send_inner')]
        if not sends or not fn.params:
            continue
        # only the calls whose result is the result of the API call (the caller learns about a refusal and retries)
        returned = False
        for r in fn.returns():
            if r.e is not None and (any(nd.get('op') == 'call' and nd.get('callee') in ('msg_send', 'msg_send_inner') for nd in walk(r.e)) or
                                    strip_casts(r.e).get('op') == 'ref'):
                returned = True
        if not returned:
            continue
        obj = fn.params[0]['name']
        # fields of the writer object that conditions of this function read
        cond_fields = set()
        for b in fn.blocks.values():
            for nd in walk(b.cond or {}):
                if nd.get('op') in ('member', 'sub'):
                    pth = fn.path(nd)
                    if pth is not None and pth.t[1] == obj and len(pth.t) > 2:
                        cond_fields.add(pth.t[2])
        for c in sends:
            n += 1
            ctx.saw(fn, 1)
            early = []
            for ev in fn.stores():
                l0 = strip_casts(ev.store_parts()[0])
                pth = fn.path(l0) if l0.get('op') in ('member', 'sub') else None
                if pth is None or pth.t[1] != obj or len(pth.t) < 3 or pth.t[2] not in cond_fields:
                    continue
                if find_path(fn, ev, lambda e2, facts: 'target' if e2 is c else None, refine=False) is not None:
                    early.append(ev)
            ctx.ob(rule, not early, fn.name, 'no accepting state is stored before %s' % c.callee, (early[0] if early else c).where(),
                   'nothing the function tests is stored before the send' if not early else
                   'the field %s of the writer object is updated before the message is queued and is tested by this function: when the queue refuses the message (BUSY) the update stays, and the retry of the same block is treated differently (swallowed as a duplicate, so the samples never reach the file)' %
                   ', '.join(sorted(set(str(fn.path(strip_casts(e_.store_parts()[0]))) for e_ in early))))
    ctx.floor('producer sends whose result is returned', n, 4)
