"""C02 — summaries and statistics (narrow): the clauses of "each returned {mean, std, min, max} describes the window of
written samples" whose truth is visible in the shape of the code.  The numerical relations themselves (exact min/max, mean
to the precision of the stored summaries, the std bounds, the average of means) are NOT decided."""
from ..export import AnalysisBroken
from ..ir import strip_casts, const_of, walk, show, kids
from ..graph import find_path, ev_dominates, control_deps_transitive

EXPL = ('Sibling agreement between the writer\'s reductions (wr_fsr.c), the reader (reader.c), the reconstruction (core.c) and '
        'statistics.c: every access of a summary entry uses the JLS_SUMMARY_FSR_* column of the quantity it is paired with; '
        'minimum / maximum accumulators start at +DBL_MAX / -DBL_MAX and are updated in the right direction; the coverage of a '
        'level-L summary entry is the same product in the writer (inner loop bounds of summary1 / summaryN) and in the reader '
        '(step size traced for levels 1..5); the sample_id_offset is applied exactly once on the statistics path; non-finite '
        'values are skipped at every level, the accumulator algebra of statistics.c, the 64-bit summary payload length and the '
        'level-0 scratch capacity are shared with C09.4, C20, C05.11 and C10.23.')
NOT_DECIDED = ('Every numerical clause of C02: exact extremes, mean to the precision of the stored summaries, the std bounds, the '
               'equality of the averaged means with the exact mean, and which level a request is served from.  The type conversion '
               'jls_dt_buffer_to_f64 (fixed-point scaling, seeded as c02-fixedpoint-q) is value arithmetic and not decided.')

COLS = {'JLS_SUMMARY_FSR_MEAN': 'mean', 'JLS_SUMMARY_FSR_STD': 'std', 'JLS_SUMMARY_FSR_MIN': 'min', 'JLS_SUMMARY_FSR_MAX': 'max'}
FILES = ('src/wr_fsr.c', 'src/reader.c', 'src/core.c', 'src/statistics.c')


def cls(name):
    if not name:
        return None
    n = name.lower()
    if 'mean' in n or n in ('mu', 'mu32', 'mu64'):
        return 'mean'
    if 'min' in n:
        return 'min'
    if 'max' in n:
        return 'max'
    if 'std' in n or 'var' in n or n == 's':
        return 'std'
    return None


def col_of(e):
    """column of a subscript whose index mentions a JLS_SUMMARY_FSR_* enumerator, else None"""
    e = strip_casts(e)
    if e is None or e.get('op') != 'sub':
        return None
    cols = {COLS[m['name']] for m in walk(e['k'][1]) if m.get('op') == 'ref' and m.get('name') in COLS}
    return cols.pop() if len(cols) == 1 else None


def classes_in(e):
    out = set()
    for m in walk(e or {}):
        if m.get('op') == 'ref' and m.get('rk') != 'enum':
            c = cls(m.get('name'))
            if c:
                out.add(c)
        elif m.get('op') == 'member':
            c = cls(m.get('field'))
            if c:
                out.add(c)
    return out


def lhs_class(l0):
    l0 = strip_casts(l0)
    if l0.get('op') == 'ref':
        return cls(l0.get('name'))
    if l0.get('op') == 'member':
        return cls(l0.get('field'))
    return None


def columns_rule(ctx, P, rule):
    n = 0
    for fn in P.all_functions():
        if fn.file not in FILES:
            continue
        hit = False
        for b in fn.blocks.values():
            for ev in b.events:
                if ev.k not in ('store', 'decl') or ev.e is None:
                    continue
                lhs, rhs, o = ev.store_parts() if ev.k == 'store' else (None, ev.e, '=')
                # store into a column
                if ev.k == 'store' and col_of(lhs) and rhs is not None and o == '=':
                    c = col_of(lhs)
                    have = classes_in(rhs) | ({col_of(rhs)} if col_of(rhs) else set())
                    for m in walk(rhs):
                        if col_of(m):
                            have.add(col_of(m))
                    if have:
                        n += 1
                        hit = True
                        ctx.ob(rule, c in have, fn.name, 'column %s <- %s' % (c, show(rhs)[:40]), ev.where(),
                               'the %s column receives the %s' % (c, '/'.join(sorted(have))) if c in have else
                               'the %s column receives %s: every reader of this entry takes it for the %s' % (c, '/'.join(sorted(have)), c))
                # load of a column into a named quantity
                elif rhs is not None and col_of(rhs) and o == '=':
                    c = col_of(rhs)
                    tgt = cls(ev.name) if ev.k == 'decl' else lhs_class(lhs)
                    if tgt:
                        n += 1
                        hit = True
                        ctx.ob(rule, c == tgt, fn.name, '%s <- column %s' % (ev.name if ev.k == 'decl' else show(strip_casts(lhs))[:30], c), ev.where(),
                               'read from its own column' if c == tgt else 'the %s is read from the %s column' % (tgt, c))
            # compares: column against a named accumulator
            cnd = strip_casts(b.cond) if b.cond is not None else None
            if cnd is not None and cnd.get('op') == 'bin' and cnd['o'] in ('<', '>', '<=', '>='):
                for x, y in ((cnd['k'][0], cnd['k'][1]), (cnd['k'][1], cnd['k'][0])):
                    c = col_of(x)
                    t = lhs_class(y)
                    if c and t:
                        n += 1
                        hit = True
                        ctx.ob(rule, c == t, fn.name, 'compare of column %s with %s' % (c, show(strip_casts(y))[:20]), b.events[-1].where() if b.events else fn.where(),
                               'same quantity on both sides' if c == t else 'the %s accumulator is compared with the %s column' % (t, c))
        if hit:
            ctx.saw(fn, 1)
    ctx.floor('summary column accesses paired with a named quantity', n, 20)


def extremes_rule(ctx, P, rule):
    """local minimum / maximum accumulators: identity element and direction"""
    DBL_MAX = 1.7976931348623157e308
    n = 0
    for fn in P.all_functions():
        if fn.file not in FILES:
            continue
        accs = {}
        for ev in fn.events():
            if ev.k == 'decl' and cls(ev.name) in ('min', 'max') and (ev.t or '').startswith('f') and ev.e is not None:
                accs[ev.name] = ev
        for name, d in sorted(accs.items()):
            kind = cls(name)
            e0 = strip_casts(d.e)
            # +-DBL_MAX / +-FLT_MAX / +-INFINITY:  flit, or unary minus of a flit
            neg = False
            while e0.get('op') == 'un' and e0.get('o') == '-':
                neg = not neg
                e0 = strip_casts(e0['k'][0])
            val = e0.get('f') if e0.get('op') == 'flit' else None
            if val is None:
                continue          # initialised from data: not a sentinel accumulator
            n += 1
            ctx.saw(fn, 1)
            big = isinstance(val, (int, float)) and (val >= 3.0e38 or val == float('inf'))
            ok = big and ((kind == 'min' and not neg) or (kind == 'max' and neg))
            ctx.ob(rule, ok, fn.name, 'start value of %s' % name, d.where(),
                   'starts at %s%s: any sample replaces it' % ('-' if neg else '+', val) if ok else
                   'the %s accumulator starts at %s%s, which is not the identity of %s: a window whose samples are all %s keeps the start value' %
                   (kind, '-' if neg else '', val, kind, 'above it' if kind == 'min' else 'below it'))
            # updates:  name = X under (X < name) for min / (X > name) for max, or name = fmin/fmax(name, X)
            for ev in fn.stores():
                lhs, rhs, o = ev.store_parts()
                if strip_casts(lhs).get('name') != name or rhs is None or o != '=':
                    continue
                r0 = strip_casts(rhs)
                if r0.get('op') == 'flit' or (r0.get('op') == 'un' and strip_casts(r0['k'][0]).get('op') == 'flit') or \
                        (r0.get('op') == 'ref' and r0.get('name') in ('NAN',)) or 'nan' in show(r0).lower():
                    continue          # reset / marking an empty window
                n += 1
                if r0.get('op') == 'call' and r0.get('callee') in ('fmin', 'fmax', 'fminf', 'fmaxf', '__builtin_fmin', '__builtin_fmax'):
                    want = 'fmin' if kind == 'min' else 'fmax'
                    okc = want in r0['callee'] and any(strip_casts(a).get('name') == name for a in kids(r0))
                    ctx.ob(rule, okc, fn.name, 'update of %s' % name, ev.where(), '%s(%s, x)' % (r0['callee'], name))
                    continue
                # the guarding compare
                good = False
                for (bid, label) in control_deps_transitive(fn, ev.block.id):
                    c = strip_casts(fn.blocks[bid].cond) if fn.blocks[bid].cond is not None else None
                    if c is None or c.get('op') != 'bin' or c['o'] not in ('<', '>', '<=', '>='):
                        continue
                    l, r = strip_casts(c['k'][0]), strip_casts(c['k'][1])
                    oo = c['o']
                    if l.get('name') == name:
                        l, r = r, l
                        oo = {'<': '>', '>': '<', '<=': '>=', '>=': '<='}[oo]
                    if r.get('name') != name or show(l) != show(r0):
                        continue
                    lt = oo in ('<', '<=')
                    if label == 'F':
                        lt = not lt
                    good = (kind == 'min' and lt) or (kind == 'max' and not lt)
                ctx.ob(rule, good, fn.name, 'update of %s' % name, ev.where(),
                       'replaced only by a %s value' % ('smaller' if kind == 'min' else 'larger') if good else
                       'the %s accumulator is replaced by %s without the compare that makes it the %s' % (kind, show(r0)[:30], kind))
    ctx.floor('minimum / maximum accumulators in the reductions', n, 12)


def coverage_rule(ctx, P, rule):
    """samples per level-L summary entry: writer and reader use the same product"""
    from ..fd import trace_calls, Top
    s1 = P.fn('jls_core_fsr_summary1')
    sN = P.fn('jls_core_fsr_summaryN')
    rd = P.fn('fsr_statistics')
    for f in (s1, sN, rd):
        ctx.saw(f)

    def inner_bounds(fn):
        """fields that bound the loops `for (sample = 0; sample < F; ++sample)` of a reduction"""
        out = set()
        for b in fn.blocks.values():
            c = strip_casts(b.cond) if b.cond is not None else None
            if c is not None and c.get('op') == 'bin' and c['o'] == '<' and strip_casts(c['k'][0]).get('name') == 'sample':
                for m in walk(c['k'][1]):
                    if m.get('op') == 'member' and m.get('field', '').endswith('decimate_factor'):
                        out.add(m['field'])
        return out
    b1, bN = inner_bounds(s1), inner_bounds(sN)
    ctx.ob(rule, b1 == {'sample_decimate_factor'}, s1.name, 'samples per level-1 entry', s1.where(), 'inner loops bounded by %s' % sorted(b1))
    ctx.ob(rule, bN == {'summary_decimate_factor'}, sN.name, 'level-(L-1) entries per level-L entry', sN.where(), 'inner loops bounded by %s' % sorted(bN))
    # the reader's step for levels 1..5 with two coprime factors
    from ..ir import path_of
    keys = {}
    for ev in rd.events():
        for m in walk(ev.e or {}):
            if m.get('op') == 'member' and m.get('field') in ('sample_decimate_factor', 'summary_decimate_factor'):
                p = path_of(m) or rd.path(m)
                if p is not None:
                    keys[m['field']] = str(p)
    if len(keys) != 2:
        raise AnalysisBroken('fsr_statistics: decimation factors read through %s' % keys)
    seek = list(rd.calls('jls_core_fsr_seek'))
    if not seek:
        raise AnalysisBroken('fsr_statistics: no call of jls_core_fsr_seek')
    lvl = rd.params[4]['name']
    bad = []
    for a, bfac in ((3, 5), (7, 2)):
        for L in (1, 2, 3, 4, 5):
            got = []

            def on_event(ev, env, sym, got=got):
                if ev is seek[0] and not got:
                    got.append(env.get('step_size'))
            try:
                trace_calls(P, rd, {keys['sample_decimate_factor']: a, keys['summary_decimate_factor']: bfac, lvl: L, 'self': 1},
                            assume_calls=0, partial=True, max_steps=4000, on_event=on_event)
            except Top:
                pass
            vals = set(got) if got else {None}
            want = a * bfac ** (L - 1)
            if vals != {want}:
                bad.append('level %d with factors %d, %d: step %s, one entry covers %d samples' % (L, a, bfac, sorted(vals, key=str), want))
    ctx.ob(rule, not bad, rd.name, 'samples per summary entry at the level served', seek[0].where(),
           'sample_decimate_factor x summary_decimate_factor^(level-1) for levels 1..5' if not bad else '; '.join(bad[:2]))


def run(ctx, sess):
    ctx.explanation = EXPL
    ctx.not_decided = NOT_DECIDED
    P = sess.prog('default')
    ctx.rule('C02.1', 'columns: every store into, load from or compare with a summary entry column JLS_SUMMARY_FSR_{MEAN,STD,MIN,MAX} is paired with the quantity of that name (writer reductions, reader conversions, level-0 statistics, reconstruction)')
    ctx.rule('C02.2', 'extremes: every local minimum / maximum accumulator of the reductions starts at +MAX / -MAX and is replaced only under the compare (or fmin / fmax) of its own direction')
    ctx.rule('C02.3', 'coverage: a level-1 entry reduces sample_decimate_factor samples and a level-L entry summary_decimate_factor entries of the level below in the writer, and the reader steps by sample_decimate_factor x summary_decimate_factor^(L-1) samples per entry of level L (traced for L = 1..5)')
    ctx.rule('C02.6', 'the first whole summary entry of a request is found on the grid of the summary chunk: traced for starts, chunk timestamps and steps that are not multiples of each other, the entry sample id is the chunk timestamp plus a whole number of steps, lies in [start, start + step), and the entry index is that number of steps')
    ctx.rule('C02.7', 'the writer builds its variances from squared deviations (two passes), never as mean of squares minus square of the mean (sign analysis of every value stored into a variance accumulator of wr_fsr.c)')
    ctx.rule('C02.8', 'the sample converter fills what it is asked for: traced for every accepted data type and counts around the byte boundaries (1, 2, 7, 8, 9, 15, 16, 17, 64), jls_dt_buffer_to_f64 stores every entry 0..samples-1 of its destination')
    ctx.rule('C02.4', 'sample-id frames on the statistics path: the sample_id_offset is applied exactly once to each value and no compare mixes an api-relative id with a file id')
    ctx.rule('C02.9', 'the entries a request is answered from are those of the summary chunk it walks: after a nested read for an unaligned edge (which loads other chunks into the same buffer) the summary chunk is read again before its entries are used (shared with C10.28)')
    ctx.rule('C02.10', 'statistics describe the written samples also for fixed-point types: tracing the sample converter for every accepted type with a fixed-point position set, no converted value is rescaled (the samples read back are the plain integers, so a rescaled summary would not describe them)')
    ctx.rule('C02.11', 'entries of a level above 1 are contiguous: a summary chunk holds a whole number of the lower level\'s reductions, i.e. the divisibility the definition alignment establishes survives to the values it stores (shared with C16.7) - otherwise the writer drops the remainder entries of every chunk while the reader assumes none are missing')
    ctx.rule('C02.12', 'summaries stored in double are consumed in double: in the reader no value loaded from a 64-bit summary (an entry of jls_fsr_f64_summary_s, or an element behind a pointer to double) is converted to float - min, max and mean of 32-bit integer signals need more than 24 bits')
    ctx.rule('C02.13', 'summaries of wide types are stored in double: evaluated for every accepted data type and several fixed-point positions, the summary entry width the writer chooses is 64 bits for every integer type of 32 bits or more and for f64 (an f32 entry holds 24 bits: min and max of such samples would be rounded), and it does not depend on the fixed-point position')
    ctx.rule('C02.14', 'level-0 statistics are computed from the block just fetched: the conversion of the read buffer to double is not skipped on the word of the cached chunk descriptor (chunk_cur) - a block that was left out is rebuilt into the read buffer without a chunk being read, so chunk_cur still names the block before it')
    ctx.rule('C02.15', 'level-0 entries of a constant block come from the summary of that block: the level-1 cache of the sample reader is marked valid only after both chunks were read (shared with C04.9)')
    ctx.rule('C02.5', 'shared: non-finite values are skipped at every level (C09.4); accumulator algebra of statistics.c - alias safety, empty operands, extremes, non-negative variance, no division by a zero count (C20.1-C20.5); the summary payload length covers every entry of either width (C05.11); the level-0 scratch is filled only up to its allocated length (C10.23)')
    columns_rule(ctx, P, 'C02.1')
    extremes_rule(ctx, P, 'C02.2')
    coverage_rule(ctx, P, 'C02.3')
    entry_grid_rule(ctx, P, 'C02.6')
    converter_rule(ctx, P, 'C02.8')
    from .c20 import variance_locals_rule
    variance_locals_rule(ctx, P, 'C02.7')
    from .frames import frames_rule
    frames_rule(ctx, P, 'C02.4', kinds=('statistics',), minimum=2)
    from .common import relay
    from . import c09 as _c09, c20 as _c20, c05 as _c05, c10 as _c10
    relay(ctx, sess, _c09.run, {'C09.4': 'C02.5'}, minimum=5)
    relay(ctx, sess, _c20.run, {'C20.1': 'C02.5', 'C20.2': 'C02.5', 'C20.3': 'C02.5', 'C20.4': 'C02.5', 'C20.5': 'C02.5'}, minimum=10)
    relay(ctx, sess, _c05.run, {'C05.11': 'C02.5'}, minimum=1)
    relay(ctx, sess, _c10.run, {'C10.23': 'C02.5'}, minimum=2)
    f64_consumed_rule(ctx, P, 'C02.12')
    summary_width_rule(ctx, P, 'C02.13')
    conversion_fresh_rule(ctx, P, 'C02.14')
    from . import c16 as _c16
    relay(ctx, sess, _c16.run, {'C16.7': 'C02.11'}, minimum=1)
    from . import c04 as _c04x
    relay(ctx, sess, _c04x.run, {'C04.9': 'C02.15'}, only_functions=('jls_core_rd_fsr_level1', 'jls_core_rd_fsr_data0'), minimum=1)
    relay(ctx, sess, _c10.run, {'C10.28': 'C02.9'}, only_functions=('fsr_statistics', 'jls_core_fsr_statistics', 'rd_stats_chunk'), minimum=1)
    from . import c15 as _c15
    relay(ctx, sess, _c15.run, {'C15.10': 'C02.5', 'C15.12': 'C02.5'}, minimum=1)



def entry_grid_rule(ctx, P, rule):
    from ..fd import trace_calls, Top
    from ..ir import path_of
    rd = P.fn('fsr_statistics')
    keys = {}
    for b in rd.blocks.values():
        for e in [ev.e for ev in b.events if ev.e is not None] + ([b.cond] if b.cond is not None else []):
            for m in walk(e):
                if m.get('op') == 'member' and m.get('field') in ('sample_decimate_factor', 'summary_decimate_factor', 'timestamp', 'entry_size_bits', 'entry_count', 'sample_id_offset'):
                    p = path_of(m) or rd.path(m)
                    if p is not None:
                        keys.setdefault(m['field'], set()).add(str(p))
    need = ('sample_decimate_factor', 'summary_decimate_factor', 'timestamp', 'entry_size_bits')
    if not all(k_ in keys for k_ in need):
        raise AnalysisBroken('fsr_statistics: members not found: %s' % [k_ for k_ in need if k_ not in keys])
    resets = list(rd.calls('jls_statistics_reset'))
    if not resets:
        raise AnalysisBroken('fsr_statistics: no accumulator reset to anchor the trace')
    names = {ev.name for ev in rd.events('decl')}
    if not {'entry_offset', 'entry_sample_id'} <= names:
        # the two quantities are found by what they are: the local compared with the start id, and the local added to the source index
        raise AnalysisBroken('fsr_statistics: first-entry locals not found')
    startp, lvlp = rd.params[2]['name'], rd.params[4]['name']
    bad = []
    n = 0
    for (a, bfac, L) in ((3, 5, 1), (3, 5, 2), (7, 2, 3)):
        step = a * bfac ** (L - 1)
        for chunk in (0, 1003, step * 4 + 1, 7):
            for start in (chunk, chunk + 1, chunk + step - 1, chunk + step, chunk + 2 * step + 3):
                env = {'self': 1, startp: start, lvlp: L}
                for k_ in keys['sample_decimate_factor']:
                    env[k_] = a
                for k_ in keys['summary_decimate_factor']:
                    env[k_] = bfac
                for k_ in keys['timestamp']:
                    env[k_] = chunk
                for k_ in keys['entry_size_bits']:
                    env[k_] = 128
                for k_ in keys.get('entry_count', ()):
                    env[k_] = 1000
                for k_ in keys.get('sample_id_offset', ()):
                    env[k_] = 0
                got = {}

                def on_event(ev, env_, sym, got=got):
                    if ev in resets and not got:
                        got['off'] = env_.get('entry_offset')
                        got['sid'] = env_.get('entry_sample_id')
                try:
                    trace_calls(P, rd, env, assume_calls=0, partial=True, max_steps=4000, on_event=on_event, no_inline=('rd_stats_chunk',))
                except Top:
                    pass
                if got.get('off') is None or got.get('sid') is None:
                    raise AnalysisBroken('fsr_statistics: first entry not decidable for start %d chunk %d step %d' % (start, chunk, step))
                n += 1
                sid, off = got['sid'], got['off']
                if (sid - chunk) % step or not (start <= sid < start + step) or off != (sid - chunk) // step:
                    bad.append('start %d, chunk at %d, step %d: first whole entry taken at sample %d, index %d (entries of this chunk begin at %d + k x %d)' % (start, chunk, step, sid, off, chunk, step))
    ctx.ob(rule, not bad, rd.name, 'first whole summary entry of a request', resets[0].where(),
           'on the grid of the summary chunk for %d (start, chunk, step) combinations' % n if not bad else
           '; '.join(bad[:2]) + ': the head and the tail of the window are then computed from the wrong samples (counted twice or dropped) whenever the signal does not start at a multiple of the step')
    ctx.floor('first-entry traces', n, 40)


def converter_rule(ctx, P, rule):
    """jls_dt_buffer_to_f64 fills every one of the `samples` entries it is asked for, for every accepted type"""
    from ..fd import trace_calls, Top, FD
    from .defnorm import accepted_data_types
    fn = P.fn('jls_dt_buffer_to_f64')
    ctx.saw(fn)
    dts = accepted_data_types(P)
    dst = fn.params[2]['name']
    fd = FD(P)
    bad = []
    n = 0
    unsupported = set()
    for dt in sorted(dts):
        for samples in (1, 2, 7, 8, 9, 15, 16, 17, 64):
            written = set()
            base = 0x100000

            def on_store(ev, env, sym, written=written, base=base):
                lhs, rhs, o = ev.store_parts()
                l0 = strip_casts(lhs)
                try:
                    if l0.get('op') == 'sub' and strip_casts(l0['k'][0]).get('name') == dst:
                        written.add((env[dst] - base) + fd.ev(fn, l0['k'][1], env))
                    elif l0.get('op') == 'un' and l0.get('o') == '*':
                        inner = l0['k'][0]
                        while inner.get('op') in ('cast', 'paren'):
                            inner = inner['k'][0]
                        if inner.get('op') == 'un' and inner.get('o') == 'post++' and strip_casts(inner['k'][0]).get('name') == dst:
                            # the increment event came first: the element just left
                            written.add((env[dst] - base) // 1 - 1)
                except Exception:
                    pass
            box = []
            try:
                trace_calls(P, fn, {fn.params[1]['name']: dt, dst: base, fn.params[3]['name']: samples, fn.params[0]['name']: 0x200000},
                            assume_calls=0, partial=True, max_steps=6000, on_store=on_store, no_inline=('uint4_to_int8',), _retbox=box)
            except Top:
                pass
            if not written and box and isinstance(box[0], int) and box[0] != 0:
                unsupported.add(dt)          # the converter refuses the type (24-bit): the known finding C16.3, not a fill defect
                continue
            n += 1
            missing = [i for i in range(samples) if i not in written]
            if missing:
                bad.append('type 0x%x, %d samples: entries %s are not written' % (dt, samples, missing[:4]))
    ctx.ob(rule, not bad, fn.name, 'every requested entry is converted', fn.where(),
           '%d (type, count) pairs traced' % n if not bad else
           '; '.join(bad[:2]) + ' [types failing: %s] (%d of %d pairs): statistics over the last samples of a block whose count is not a multiple of what one byte holds are computed from whatever the scratch held before' % (sorted(set(b_.split(',')[0] for b_ in bad)), len(bad), n))
    # summaries describe the integers that were written (what jls_rd_fsr returns): a fixed-point position in the data type
    # does not rescale the converted values
    scaled = []
    nq = 0
    for dt in sorted(dts):
        for q in (1, 8, 0xfd):
            dtv = dt | (q << 16)
            hits = []

            def on_store2(ev, env, sym, hits=hits):
                lhs, rhs, o = ev.store_parts()
                l0 = strip_casts(lhs)
                if o in ('*=', '/=') and l0.get('op') in ('sub', 'un') and (l0.get('t') or '') in ('f64', 'f32'):
                    hits.append(ev)
            try:
                trace_calls(P, fn, {fn.params[1]['name']: dtv, dst: 0x100000, fn.params[3]['name']: 3, fn.params[0]['name']: 0x200000},
                            assume_calls=0, partial=True, max_steps=6000, on_store=on_store2, no_inline=('uint4_to_int8',))
            except Top:
                continue
            nq += 1
            if hits:
                scaled.append('type 0x%x with position %d: %s' % (dt, q if q < 128 else q - 256, show(hits[0].e)[:50]))
    ctx.ob('C02.10', not scaled, fn.name, 'converted values are the written integers whatever the fixed-point position', fn.where(),
           '%d (type, position) pairs traced: no rescaling store' % nq if not scaled else
           '; '.join(scaled[:2]) + ' (%d pairs): every mean, min, max and std of such a signal is a power of two away from the samples that were written and that jls_rd_fsr returns' % len(scaled))
    ctx.floor('(type, position) pairs traced through the converter', nq, 20)
    if unsupported:
        ctx.note('%s: types the converter refuses (no case): %s' % (rule, ['0x%x' % d_ for d_ in sorted(unsupported)]))
    ctx.floor('(type, count) pairs traced through the converter', n, 60)


def f64_consumed_rule(ctx, P, rule):
    n = 0
    bad = []
    for fn in P.fns_in('src/reader.c'):
        loads = 0
        for b in fn.blocks.values():
            for ev in b.events:
                e = getattr(ev, 'e', None)
                if e is None:
                    continue
                for nd in walk(e):
                    is_load = (nd.get('op') == 'member' and nd.get('rec') == 'jls_fsr_f64_summary_s' and nd.get('field') == 'data') or \
                              (nd.get('op') == 'sub' and (strip_casts(nd['k'][0]).get('t') or '') == 'p:f64')
                    if is_load:
                        loads += 1
                    if nd.get('op') == 'cast' and nd.get('t') == 'f32':
                        inner = nd['k'][0]
                        if any((m.get('op') == 'member' and m.get('rec') == 'jls_fsr_f64_summary_s' and m.get('field') == 'data') or
                               (m.get('op') == 'sub' and (strip_casts(m['k'][0]).get('t') or '') == 'p:f64') for m in walk(inner)):
                            bad.append((fn, ev, nd))
        if loads:
            n += 1
            ctx.saw(fn, 1)
    ctx.ob(rule, not bad, (bad[0][0] if bad else P.fn('fsr_statistics')).name, 'values of 64-bit summaries stay double', (bad[0][1] if bad else P.fn('fsr_statistics')).where(),
           '%d reader functions load 64-bit summary values; none converts one to float' % n if not bad else
           '%s converts a 64-bit summary value to float: the stored min / max / mean of a 32-bit integer signal is rounded to 24 bits before it is returned (2^31 - 1 comes back as 2^31)' % show(bad[0][2])[:70])
    ctx.floor('reader functions that load 64-bit summary values', n, 2)


def summary_width_rule(ctx, P, rule):
    from ..fd import trace_calls, Top, FD
    from .defnorm import accepted_data_types
    fn = P.fn('summary_entry_size', 'src/wr_fsr.c')
    ctx.saw(fn, 1)
    fd = FD(P)
    psz = P.fn('jls_datatype_parse_size')
    pbase = P.fn('jls_datatype_parse_basetype')
    keys = set()
    for b in fn.blocks.values():
        for e in [ev.e for ev in b.events if getattr(ev, 'e', None) is not None] + ([b.cond] if b.cond is not None else []):
            for m in walk(e):
                if m.get('op') == 'member' and m.get('field') == 'data_type' and fn.path(m) is not None:
                    keys.add(str(fn.path(m)))
    if not keys:
        raise AnalysisBroken('summary_entry_size does not read the data type')
    bad = []
    n = 0
    for dt in sorted(accepted_data_types(P)):
        w = fd.call(psz, [dt])
        base = fd.call(pbase, [dt])
        is_float = (base == 4) or (dt & 0xf) == 4
        need64 = (w >= 32 and not is_float) or w == 64
        for q in ((0,) if is_float else (0, 1, 8, 0xff)):
            dtv = dt | (q << 16)
            box = []
            try:
                trace_calls(P, fn, {k_: dtv for k_ in keys}, _retbox=box)
            except Top:
                raise AnalysisBroken('summary_entry_size not decidable for data type 0x%x' % dtv)
            n += 1
            r = box[0] if box else None
            if need64 and r != 64:
                bad.append('type 0x%x with position %d gets %s-bit entries' % (dt, q if q < 128 else q - 256, r))
            elif r not in (32, 64):
                bad.append('type 0x%x: entry width %s' % (dt, r))
    ctx.ob(rule, not bad, fn.name, 'summary entry width by data type', fn.where(),
           '%d (type, position) pairs evaluated: 64-bit entries for every integer type of 32 bits or more and for f64' % n if not bad else
           '; '.join(bad[:3]) + ' (%d of %d pairs): minimum, maximum and mean of samples above 2^24 are rounded to float in every summary level' % (len(bad), n))
    ctx.floor('(type, position) pairs of summary_entry_size', n, 20)


def conversion_fresh_rule(ctx, P, rule):
    from ..graph import control_deps_transitive
    n = 0
    for fn in P.fns_in('src/reader.c'):
        for c in fn.calls('jls_dt_buffer_to_f64'):
            n += 1
            ctx.saw(fn, 1)
            stale = []
            for bid, lab in control_deps_transitive(fn, c.block.id):
                cnd = fn.blocks[bid].cond
                if cnd is not None and any(m.get('op') == 'member' and m.get('field') == 'chunk_cur' for m in walk(cnd)):
                    stale.append(show(strip_casts(cnd))[:70])
            ctx.ob(rule, not stale, fn.name, 'conversion of the fetched block', c.where(),
                   'not conditional on the cached chunk descriptor' if not stale else
                   'the conversion is skipped when %s says the block is the one converted last: after a reconstructed (left-out) block chunk_cur still describes the previous stored block, so the statistics of the constant block are those of its neighbour' % stale[0])
    ctx.floor('conversions of the read buffer in the reader', n, 2)
