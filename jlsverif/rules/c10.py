"""C10 — API misuse yields error codes, never crashes, hangs or stray memory access.

Decides the structural clauses listed in DESIGN §4 C10; value-range safety of the
sub-byte copy loops and binary-search bounds are listed there as not decided.
"""
from ..export import AnalysisBroken
from ..ir import strip_casts, const_of, walk, show, kids, path_of
from ..graph import (find_path, ret_class, ev_dominates, ev_postdominates, control_deps_transitive, cond_facts)
from ..guard import Gates, var_of, bound_edges, nonneg_edges, zero_edges_of_call
from .. import df
from .common import exceptions, consumed

EXPL = ('Taint from public-API parameters (and fields of user-provided definition structs) to subscripts of constant-extent arrays, '
        'discharged by type range, mask, dominating compares or derived gate summaries (zero return => param < K); gate return '
        'discipline; typed-gate dominance for FSR-only track pointers; result consumption of allocation growth; read-at-extent '
        'contradiction; enum-indexed table extents; resource pairing (field owners and local resources on every exit); grow-to-fit '
        'retry loops; window/increment gates in overflow-free form; tainted divisors; 32-bit length arithmetic bounded before use as a size; message ring '
        'hand-out bound; capacity bookkeeping and interior pointers around realloc; bisection bound.')
NOT_DECIDED = ('Value-range safety of the sub-byte copy loops and integer overflow in rounding helpers beyond the divisor rule: relational numeric reasoning, not claimed.  Bisection is bounded only for the idiom lo < hi with mid = (lo + hi [+ 1]) / 2 (C10.20).  Behaviour under failing backend calls (short writes, ENOSPC) is not examined.')

API_PREFIXES = ('jls_rd_', 'jls_wr_', 'jls_twr_', 'jls_raw_', 'jls_copy', 'jls_log_', 'jls_statistics_', 'jls_dt_', 'jls_tmap_', 'jls_buf_')
USER_STRUCTS = ('jls_source_def_s', 'jls_signal_def_s')


def items_of(fn):
    """(expr, event or None, block) for every evaluated expression tree."""
    for b in fn.blocks.values():
        for ev in b.events:
            if ev.e is not None:
                yield ev.e, ev, b
        if b.cond is not None:
            yield b.cond, None, b


class Taint:
    def __init__(self, P, roots):
        self.P = P
        self.roots = roots
        self.memo = {}

    def param_tainted(self, fn, name, depth=0):
        key = (fn.name, name)
        if key in self.memo:
            return self.memo[key]
        self.memo[key] = False
        if fn.name in self.roots:
            self.memo[key] = True
            return True
        if depth > 6:
            return False
        idx = [i for i, p in enumerate(fn.params) if p['name'] == name]
        if not idx:
            return False
        res = False
        for cf, cev in self.P.callers().get(fn.name, []):
            if idx[0] < len(cev.args) and self.expr_tainted(cf, cev.args[idx[0]], cev.block, cev.idx, depth + 1):
                res = True
                break
        self.memo[key] = res
        return res

    def expr_tainted(self, fn, e, block, idx, depth=0):
        if depth > 8:
            return False
        for n in walk(e):
            if n.get('op') == 'ref' and n.get('rk') == 'param':
                t = n.get('t', '')
                if t.startswith('p:s:'):
                    if t[4:] in USER_STRUCTS and self.param_tainted(fn, n['name'], depth + 1):
                        return True
                    continue          # opaque library handles are not user data
                if t.startswith('p'):
                    continue
                if self.param_tainted(fn, n['name'], depth + 1):
                    return True
            elif n.get('op') == 'ref' and n.get('rk') == 'local':
                if n.get('t', '').startswith('p'):
                    # pointer locals: alias of a user struct?
                    defs, _ = df.reaching_defs(fn, n['name'], block, idx)
                    for d in defs:
                        rhs = d.store_parts()[1]
                        if rhs is not None and rhs.get('t', '').startswith('p:s:') and rhs.get('t', '')[4:] in USER_STRUCTS \
                                and self.expr_tainted(fn, rhs, d.block, d.idx, depth + 1):
                            return True
                    continue
                defs, _ = df.reaching_defs(fn, n['name'], block, idx)
                for d in defs:
                    lhs, rhs, o = d.store_parts()
                    if rhs is not None and self.expr_tainted(fn, rhs, d.block, d.idx, depth + 1):
                        return True
        return False


def type_max(t):
    if t and t[0] == 'u' and t[1:].isdigit():
        return (1 << int(t[1:])) - 1
    if t and t[0] == 'i' and t[1:].isdigit():
        return (1 << (int(t[1:]) - 1)) - 1
    if t and t[0] == 'e':
        return None
    return None


def signed_type(t):
    return bool(t) and (t[0] == 'i' or t[0] == 'e')


class IndexRule:
    def __init__(self, ctx, P, G, T):
        self.ctx, self.P, self.G, self.T = ctx, P, G, T
        self.memo = {}

    def reaches_unguarded(self, fn, v, ev, block, N, signed):
        """Witness of a path from entry to the use that crosses no sanitizing edge, else None."""
        san_u = self.G.sanitizing_edges_lt(fn, v, N)
        checks = [('upper bound < %d' % N, san_u)]
        if signed:
            checks.append(('lower bound >= 0', nonneg_edges(fn, v)))
        for what, san in checks:
            if ev is not None:
                w = find_path(fn, 'entry', lambda e2, facts: 'target' if e2 is ev else None,
                              edge_ok=lambda b, s, label: (b.id, label) not in san, refine=False)
            else:
                w = find_path(fn, 'entry', lambda e2, facts: None, on_block_end=lambda b, facts: 'target' if b is block else None,
                              edge_ok=lambda b, s, label: (b.id, label) not in san, refine=False)
            if w is not None:
                return what, w
        return None

    def safe(self, fn, idx, ev, block, N, depth=0):
        """(ok, how) for index expression idx used at (ev|block cond) against extent N."""
        i0 = strip_casts(idx)
        c = const_of(i0)
        if c is not None:
            return (0 <= c < N), 'constant %d' % c
        # type range of the (pre-promotion) expression
        t = i0.get('t', '')
        tm = type_max(t)
        if tm is not None and tm < N and not signed_type(t):
            return True, 'type %s cannot exceed the extent' % t
        if i0.get('op') == 'bin' and i0['o'] == '&' and (const_of(i0['k'][1]) is not None or const_of(i0['k'][0]) is not None):
            m = const_of(i0['k'][1]) if const_of(i0['k'][1]) is not None else const_of(i0['k'][0])
            if 0 <= m < N:
                return True, 'masked with %d' % m
        if i0.get('op') == 'bin' and i0['o'] == '%' and const_of(i0['k'][1]) is not None and not signed_type(t):
            if 0 < const_of(i0['k'][1]) <= N:
                return True, 'modulo %d' % const_of(i0['k'][1])
        v = var_of(fn, i0)
        if v is None:
            return None, 'compound index %s' % show(i0)
        sg = signed_type(t)
        r = self.reaches_unguarded(fn, v, ev, block, N, sg)
        if r is None:
            return True, 'guarded on every path'
        what, w = r
        # parameter of an internal function: the obligation moves to the callers
        pi = self.G.param_index(fn, v)
        if pi is not None and fn.name not in self.T.roots and depth < 5:
            callers = self.P.callers().get(fn.name, [])
            if callers:
                bad = []
                for cf, cev in callers:
                    if pi >= len(cev.args):
                        continue
                    key = (cf.name, cev.e.get('id'), pi, N)
                    if key not in self.memo:
                        self.memo[key] = (True, 'in progress')
                        self.memo[key] = self.safe(cf, cev.args[pi], cev, cev.block, N, depth + 1)
                    ok, how = self.memo[key]
                    if ok is False or (ok is None and self.T.expr_tainted(cf, cev.args[pi], cev.block, cev.idx)):
                        bad.append('%s (%s): %s' % (cf.name, cev.where(), how))
                if not bad:
                    return True, 'every caller passes a bounded value'
                return False, 'missing %s; via caller %s' % (what, '; '.join(bad[:2]))
        return False, 'missing %s on path %s' % (what, w.render()[:200])


def run(ctx, sess):
    ctx.explanation = EXPL
    ctx.not_decided = NOT_DECIDED
    P = sess.prog('default')
    exc = exceptions('C10')
    roots = set(f.name for f in P.all_functions() if f.api and f.name.startswith(API_PREFIXES))
    ctx.floor('public API roots', len(roots), 60)
    reach = P.reachable_from(sorted(roots))
    G = Gates(P)
    T = Taint(P, roots)
    for n in reach:
        if n in P.functions:
            ctx.saw(P.functions[n])

    ctx.rule('C10.1', 'index taint: a subscript of a constant-extent array whose index derives from a public-API parameter is bounded by type, mask, a dominating compare, or a gate whose derived summary bounds that parameter')
    ctx.rule('C10.2', 'gate returns: a validator never logs a rejection and returns 0; every gate result is consumed')
    ctx.rule('C10.3', 'typed gate: every dereference of an FSR-only track pointer (track_fsr) is dominated by a successful FSR-typed validation of that signal id, a NULL test, or its creation')
    rule_e1(ctx, P, G, T, reach, roots, exc)
    rule_e15(ctx, P, G, reach, roots, exc)
    rule_e2(ctx, P, G, exc)
    from .c13 import gate_implies_defined
    gate_implies_defined(ctx, P, 'C10.2')
    from . import c10b
    c10b.run(ctx, sess, P, G, T, reach, roots, exc)


def rule_e1(ctx, P, G, T, reach, roots, exc):
    IR = IndexRule(ctx, P, G, T)
    n_taint = 0
    n_all = 0
    for name in sorted(reach):
        fn = P.functions.get(name)
        if fn is None:
            continue
        seen = set()
        for e, ev, b in items_of(fn):
            for nd in walk(e):
                if nd.get('op') != 'sub' or 'extent' not in nd or nd['id'] in seen:
                    continue
                seen.add(nd['id'])
                idx = nd['k'][1]
                if const_of(strip_casts(idx)) is not None:
                    continue
                n_all += 1
                se = fn.sub_event(nd['id'])
                if se is not None:
                    ev, b = se, se.block
                pos_b, pos_i = (ev.block, ev.idx) if ev is not None else (b, len(b.events))
                if not T.expr_tainted(fn, idx, pos_b, pos_i):
                    continue
                n_taint += 1
                ok, how = IR.safe(fn, idx, ev, b, nd['extent'])
                if ok is None:
                    ok = False
                ctx.ob('C10.1', ok, fn.name, 'index %s' % show(nd)[:70], '%s:%d' % (fn.file, nd.get('ln', 0)),
                       ('extent %d: ' % nd['extent']) + how)
    ctx.floor('tainted subscripts', n_taint, 30)
    ctx.note('C10.1: %d non-constant subscripts of constant-extent arrays in code reachable from the API, %d with an index derived from API input' % (n_all, n_taint))


def is_pure_validator(P, g, depth=0):
    """No store outside locals and no call other than logging / other pure validators."""
    for ev in g.stores():
        lhs = strip_casts(ev.store_parts()[0])
        p = path_of(lhs)
        if p is None or p.root_kind not in ('local',) or len(p) > 2 and any(s_ == '*' or s_.startswith('.') for s_ in p[2:]) and g.aliases().get(p.root) is not None:
            return False
        if p is not None and p.root_kind == 'local' and p.root in g.aliases():
            return False
    for ev in g.calls():
        if ev.callee in ('jls_log_printf',):
            continue
        h = P.functions.get(ev.callee)
        if h is None or depth > 3 or not is_pure_validator(P, h, depth + 1):
            return False
    return True


def gate_functions(P, G):
    names = set(g for (g, i, k) in G.used if g in P.functions and is_pure_validator(P, P.functions[g]))
    for n in ('jls_core_signal_validate', 'jls_core_signal_validate_typed', 'jls_core_validate_track_tag', 'jls_core_signal_def_validate'):
        P.fn(n)
        names.add(n)
    return sorted(names)


def rule_e2(ctx, P, G, exc):
    for gname in gate_functions(P, G):
        g = P.fn(gname)
        ctx.saw(g)
        logs = []
        for ev in g.calls('jls_log_printf'):
            lvl = None
            if len(ev.args) > 1:
                for n in walk(ev.args[1]):
                    if n.get('op') == 'sub':
                        lvl = const_of(n['k'][1])
            logs.append((ev, lvl))
        nret = 0
        for r in g.returns():
            if r.e is None:
                continue
            nret += 1
            c = const_of(strip_casts(r.e))
            if c != 0 or strip_casts(r.e).get('op') == 'call':
                continue
            bad = [l for l, lvl in logs if lvl is not None and lvl <= 4 and ev_dominates(l, r) and ev_postdominates(r, l)]
            ctx.ob('C10.2', not bad, g.name, 'return %s' % (strip_casts(r.e).get('m') or '0'), r.where(),
                   'success return' if not bad else 'the gate logs a rejection ("%s") and then returns 0 (%s): callers proceed as if the id were valid' %
                   (show(bad[0].args[0])[11:60], strip_casts(r.e).get('m') or '0'))
        # every call of the gate is consumed
        for fn, ev in P.callers().get(gname, []):
            ctx.saw(fn, 1)
            ok, how = consumed(fn, ev)
            ctx.ob('C10.2', ok, fn.name, 'result of %s()' % gname, ev.where(), how)


def rule_e15(ctx, P, G, reach, roots, exc):
    FSR = P.enum_consts.get('JLS_SIGNAL_TYPE_FSR')
    if FSR is None:
        raise AnalysisBroken('JLS_SIGNAL_TYPE_FSR not found')
    n = 0
    memo = {}

    def derefs_param(g, i, depth=0):
        """g dereferences its i-th parameter on some path without a NULL test first."""
        key = (g.name, i)
        if key in memo:
            return memo[key]
        memo[key] = False
        if i >= len(g.params) or depth > 3:
            return False
        v = g.params[i]['name']
        null_edges = set()
        for b in g.blocks.values():
            for label in ('T', 'F'):
                for (var, kind, c) in cond_facts(g, b.cond, label):
                    if var == v and kind == 'eq' and c == 0:
                        null_edges.add((b.id, label))
        res = False

        def is_deref(e2):
            for nd in walk(e2):
                if nd.get('op') == 'member' and nd.get('arrow'):
                    base = strip_casts(nd['k'][0])
                    if base.get('op') == 'ref' and base.get('name') == v:
                        return True
                if nd.get('op') in ('sub',) or (nd.get('op') == 'un' and nd['o'] == '*'):
                    base = strip_casts(nd['k'][0])
                    if base.get('op') == 'ref' and base.get('name') == v:
                        return True
            return False

        def passes_on(e2):
            if e2.k == 'call':
                g2 = P.functions.get(e2.callee)
                if g2 is not None:
                    for j, a in enumerate(e2.args):
                        a0 = strip_casts(a)
                        if a0.get('op') == 'ref' and a0.get('name') == v and derefs_param(g2, j, depth + 1):
                            return True
            return False
        # a path from entry, with v == NULL feasible (not crossing the NULL edge ... i.e. avoiding the v==0 exit), to a deref
        w = find_path(g, 'entry', lambda e2, facts: 'target' if (e2.e is not None and (is_deref(e2.e) or passes_on(e2))) else None,
                      on_block_end=lambda b, facts: 'target' if (b.cond is not None and is_deref(b.cond)) else None,
                      start_facts=frozenset([(v, 'eq', 0)]))
        memo[key] = w is not None
        return memo[key]

    for name in sorted(reach):
        fn = P.functions.get(name)
        if fn is None:
            continue
        for e, ev, b in items_of(fn):
            sites = []
            for nd in walk(e):
                # X->track_fsr->field   (deref of the pointer value)
                if nd.get('op') == 'member' and nd.get('arrow'):
                    base = strip_casts(nd['k'][0])
                    if base.get('op') == 'member' and base.get('field') == 'track_fsr' and base.get('rec') == 'jls_core_signal_s':
                        sites.append((base, 'dereference %s' % show(nd)[:60]))
                if nd.get('op') == 'call' and nd.get('callee') and ev is not None and nd.get('id') == ev.e.get('id'):
                    g = P.functions.get(nd['callee'])
                    for j, a in enumerate(kids(nd)):
                        a0 = strip_casts(a)
                        if a0.get('op') == 'member' and a0.get('field') == 'track_fsr' and a0.get('rec') == 'jls_core_signal_s':
                            if g is not None and derefs_param(g, j):
                                sites.append((a0, 'passes track_fsr to %s(), which dereferences it' % nd['callee']))
            for base, what in sites:
                n += 1
                ok, how = typed_guarded(P, G, fn, base, ev, b, FSR, roots)
                k = '%s:track_fsr' % fn.name
                if not ok and k in exc:
                    ctx.note('exception %s: %s' % (k, exc[k]))
                    continue
                ctx.ob('C10.3', ok, fn.name, what, '%s:%d' % (fn.file, base.get('ln', 0)), how)
    ctx.floor('track_fsr dereference sites', n, 12)


def typed_guarded(P, G, fn, base, ev, block, FSR, roots, depth=0):
    """base = the `...track_fsr` member node.  Guarded when no path from entry reaches the use without
    (a) the zero edge of an FSR-typed gate on the signal id indexing signal_info, (b) a non-NULL test of
    the same pointer, (c) a store of a fresh object to it (jls_fsr_open(&X->track_fsr))."""
    # signal id variable: index of signal_info[...] in the base chain (alias expanded)
    idv = None
    stack = [base]
    seen = 0
    while stack and seen < 60:
        nd = stack.pop()
        seen += 1
        if nd.get('op') == 'sub':
            bb = strip_casts(nd['k'][0])
            if bb.get('op') == 'member' and bb.get('field') == 'signal_info':
                idv = var_of(fn, nd['k'][1])
        if nd.get('op') == 'ref' and nd.get('rk') == 'local':
            defs = [s for s in fn.stores() if s.k == 'decl' and s.name == nd['name'] and s.e is not None]
            if len(defs) == 1:
                stack.append(defs[0].e)
        for k in nd.get('k', []):
            stack.append(k)
    san = set()
    if idv is not None:
        san |= G.sanitizing_edges_typed(fn, idv, FSR)
    # NULL tests of the same pointer expression
    bp = fn.path(base)
    for b2 in fn.blocks.values():
        if b2.cond is None:
            continue
        for nd in walk(b2.cond):
            if nd.get('op') == 'member' and nd.get('field') == 'track_fsr':
                p2 = fn.path(nd)
                if p2 is not None and bp is not None and p2 == bp:
                    # find the polarity: cond_facts on the spelled variable
                    for label in ('T', 'F'):
                        for (var, kind, c) in cond_facts(fn, b2.cond, label):
                            if var.endswith('track_fsr') and ((kind == 'ne' and c == 0)):
                                san.add((b2.id, label))
    # creation: jls_fsr_open(&X->track_fsr, ..) success edge
    creators = []
    for c in fn.calls('jls_fsr_open'):
        p2 = fn.path(c.args[0])
        if p2 is not None and bp is not None and p2 == bp:
            san |= zero_edges_of_call(fn, c)
            creators.append(c)

    def edge_ok(b2, s, label):
        return (b2.id, label) not in san
    if ev is not None:
        w = find_path(fn, 'entry', lambda e2, facts: 'target' if e2 is ev else None, edge_ok=edge_ok, refine=False)
    else:
        w = find_path(fn, 'entry', lambda e2, facts: None, on_block_end=lambda b2, facts: 'target' if b2 is block else None,
                      edge_ok=edge_ok, refine=False)
    if w is None:
        return True, 'dominated by an FSR-typed validation / NULL test / creation'
    # internal function whose signal id is a parameter: every caller must have validated it
    if idv is not None and fn.name not in roots and depth < 4:
        pi = G.param_index(fn, idv)
        callers = P.callers().get(fn.name, [])
        if pi is not None and callers:
            bad = []
            for cf, cev in callers:
                v2 = var_of(cf, cev.args[pi]) if pi < len(cev.args) else None
                if v2 is None:
                    c2 = const_of(cev.args[pi]) if pi < len(cev.args) else None
                    bad.append('%s passes %s' % (cf.name, show(cev.args[pi]) if pi < len(cev.args) else '?'))
                    continue
                san2 = G.sanitizing_edges_typed(cf, v2, FSR)
                w2 = find_path(cf, 'entry', lambda e2, facts: 'target' if e2 is cev else None,
                               edge_ok=lambda b2, s, label: (b2.id, label) not in san2, refine=False)
                if w2 is not None:
                    # one more level up
                    pj = G.param_index(cf, v2)
                    if pj is not None and cf.name not in roots and depth < 3:
                        ok3 = True
                        for cf3, cev3 in P.callers().get(cf.name, []):
                            v3 = var_of(cf3, cev3.args[pj]) if pj < len(cev3.args) else None
                            if v3 is None:
                                ok3 = False
                                break
                            san3 = G.sanitizing_edges_typed(cf3, v3, FSR)
                            if find_path(cf3, 'entry', lambda e2, facts: 'target' if e2 is cev3 else None,
                                         edge_ok=lambda b2, s, label: (b2.id, label) not in san3, refine=False) is not None:
                                ok3 = False
                                bad.append('%s <- %s (%s)' % (cf.name, cf3.name, cev3.where()))
                                break
                        if ok3 and P.callers().get(cf.name):
                            continue
                    else:
                        bad.append('%s (%s)' % (cf.name, cev.where()))
            if not bad:
                return True, 'every caller validated the signal id as FSR'
            return False, 'signal id `%s` is not FSR-validated by caller %s' % (idv, '; '.join(bad[:2]))
    return False, 'track_fsr is NULL for non-FSR signals (e.g. the always-defined signal 0); reachable without an FSR-typed validation of `%s`: %s' % (idv, w.render()[:160])
