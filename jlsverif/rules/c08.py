"""C08 — message ring (narrow): the clauses of "faithful bounded FIFO that never leaves its buffer" whose truth is
visible in the shape of msg_ring_buffer.c.  The behaviour over operation histories is NOT decided."""
from ..export import AnalysisBroken
from ..ir import strip_casts, const_of, walk, show, kids
from ..graph import find_path, ret_class, ev_dominates, control_deps_transitive, cond_facts
from .. import df

EXPL = ('Sibling agreement inside msg_ring_buffer.c: the 4-byte little-endian size prefix is written and read with the same byte '
        'order and width, the allocator and the consumer advance their index by the same footprint (prefix + size), the wrap '
        'marker written by the allocator has the bit the consumer tests, the consumer restarts at offset 0 after a marker; the '
        'region handed out is bounded by the ring size (with room for a wrap marker) or stays strictly below the read index '
        '(shared with C10.15 / C06.10); pointers are reset only when the ring is empty; the message count is incremented on '
        'every successful allocation and decremented only for a message that was delivered; peek and pop never store into the '
        'ring memory.')
NOT_DECIDED = ('FIFO order, non-overlap and "fails only when it does not fit" over arbitrary histories are arithmetic relations among '
               'head, tail, sizes and capacity across calls; no inductive argument over histories is made here (that would be model '
               'checking).  Sizes with bit 31 set are indistinguishable from the wrap marker; nothing in the ring rejects them.')

F = 'src/msg_ring_buffer.c'


def run(ctx, sess):
    ctx.explanation = EXPL
    ctx.not_decided = NOT_DECIDED
    P = sess.prog('default')
    ctx.rule('C08.1', 'size prefix: the encoder stores byte k as (size >> 8k) & 0xff for k = 0..3 and returns the address after them; the decoder reads byte k shifted by 8k for k = 0..3; the consumer hands out the address 4 bytes after the prefix it decoded')
    ctx.rule('C08.2', 'footprint: the allocator advances the write index to offset + 4 + size and the consumer advances the read index by 4 + size; both fold the index back when it reaches the ring size')
    ctx.rule('C08.3', 'wrap marker: the value the allocator writes before wrapping has the bit the consumer tests for a control header, and after a marker the consumer continues at offset 0')
    ctx.rule('C08.4', 'never outside the ring, never onto the oldest message: every hand-out is bounded by size + 8 <= ring size or size + 4 < read index (shared with C10.15), and the indices are reset to 0 only on the path on which head == tail (ring empty)')
    ctx.rule('C08.5', 'count: incremented on every path to a non-NULL return of the allocator, decremented only when pop delivers a message, zeroed by clear')
    ctx.rule('C08.6', 'peek and pop do not store into the ring memory; the allocator stores only size prefixes and the wrap marker')
    ctx.rule('C08.8', 'what the allocator admits, the consumer delivers (finite-domain trace of both functions over every ring size in a small set, every index position and every pair of sizes): the region handed out lies inside the ring and does not touch a queued message, and tracing peek on the state and the prefixes the allocator left returns the oldest message with its size, without discarding the queue')
    ctx.rule('C08.7', 'no stale index: a local copy of the read or write index that is used to compute the value stored back into that index is taken after every call that can itself store that index (peek moves the read index past a wrap marker)')
    fns = {f.name: f for f in P.fns_in(F)}
    for need in ('jls_mrb_alloc', 'jls_mrb_peek', 'jls_mrb_pop', 'jls_mrb_clear'):
        if need not in fns:
            raise AnalysisBroken('%s not found in %s' % (need, F))
        ctx.saw(fns[need])
    alloc, peek, pop, clear = (fns[n] for n in ('jls_mrb_alloc', 'jls_mrb_peek', 'jls_mrb_pop', 'jls_mrb_clear'))
    # the prefix encoder / decoder are found by what they do, not by name: the helper of this file the
    # allocator calls that stores through an indexed pointer, and the helper peek calls that returns
    # indexed loads.
    def helper(of, pred):
        c = [fns[ev.callee] for ev in of.calls() if ev.callee in fns and fns[ev.callee].static and pred(fns[ev.callee])]
        return c[0] if c and all(x is c[0] for x in c) else None
    enc = helper(alloc, lambda f: any(strip_casts(ev.store_parts()[0]).get('op') == 'sub' for ev in f.stores()))
    dec = helper(peek, lambda f: not list(f.stores()) and any(nd.get('op') == 'sub' for r in f.returns() for nd in walk(r.e or {})))
    if enc is None or dec is None:
        raise AnalysisBroken('size prefix encoder / decoder of %s not found (encoder %s, decoder %s)' % (F, enc and enc.name, dec and dec.name))
    ctx.saw(enc)
    ctx.saw(dec)
    ENC, DEC = enc.name, dec.name
    # the local of peek that holds the decoded prefix
    szvars = set()
    for ev in list(peek.stores()) + [e for e in peek.events() if e.k == 'decl']:
        rhs = ev.store_parts()[1] if ev.k == 'store' else getattr(ev, 'init', None)
        if rhs is not None and any(nd.get('op') == 'call' and nd.get('callee') == DEC for nd in walk(rhs)):
            szvars.add(strip_casts(ev.store_parts()[0]).get('name') if ev.k == 'store' else ev.name)
    if len(szvars) != 1:
        raise AnalysisBroken('jls_mrb_peek: decoded prefix held in %s' % sorted(szvars, key=str))
    SZ = szvars.pop()
    agreement_trace_rule(ctx, P, alloc, peek, ENC, DEC)

    # ---- C08.1
    enc_bytes = set()
    for ev in enc.stores():
        lhs, rhs, o = ev.store_parts()
        l0 = strip_casts(lhs)
        if l0.get('op') == 'sub' and rhs is not None:
            k = const_of(l0['k'][1])
            r = strip_casts(rhs)
            sh, mask = 0, None
            if r.get('op') == 'bin' and r['o'] == '&':
                mask = const_of(r['k'][1])
                r = strip_casts(r['k'][0])
            if r.get('op') == 'bin' and r['o'] == '>>':
                sh = const_of(r['k'][1])
            enc_bytes.add((k, sh, mask))
    ok = enc_bytes == {(0, 0, 255), (1, 8, 255), (2, 16, 255), (3, 24, 255)}
    ctx.ob('C08.1', ok, enc.name, 'prefix bytes written little-endian', enc.where(), 'p[k] = (sz >> s) & m: %s' % sorted(enc_bytes, key=str))
    rets = [r for r in enc.returns() if r.e is not None]
    adv = None
    for r in rets:
        e = strip_casts(r.e)
        if e.get('op') == 'bin' and e['o'] == '+':
            adv = const_of(e['k'][1])
    ctx.ob('C08.1', adv == 4, enc.name, 'encoder returns the address after the prefix', enc.where(), 'p + %s' % adv)
    dec_bytes = set()
    for r in dec.returns():
        for nd in walk(r.e or {}):
            if nd.get('op') == 'sub':
                k = const_of(nd['k'][1])
                # find the enclosing shift
                sh = 0
                for m in walk(r.e):
                    if m.get('op') == 'bin' and m['o'] == '<<' and any(x is nd for x in walk(m['k'][0])):
                        sh = const_of(m['k'][1])
                dec_bytes.add((k, sh))
    ctx.ob('C08.1', dec_bytes == {(0, 0), (1, 8), (2, 16), (3, 24)}, dec.name, 'prefix bytes read little-endian', dec.where(), 'p[k] << s: %s' % sorted(dec_bytes))
    # the consumer returns p + 4 where p is the address it decoded
    okp = False
    for r in peek.returns():
        e = strip_casts(r.e) if r.e is not None else None
        if e is not None and e.get('op') == 'bin' and e['o'] == '+' and const_of(e['k'][1]) == 4:
            okp = True
    ctx.ob('C08.1', okp, peek.name, 'message starts 4 bytes after the decoded prefix', peek.where(), '')
    # the size delivered is the decoded prefix itself (a mask must keep every bit a non-marker prefix can hold)
    deliv = []
    for ev in peek.stores():
        lhs, rhs, o = ev.store_parts()
        l0 = strip_casts(lhs)
        if l0.get('op') == 'un' and l0.get('o') == '*' and strip_casts(l0['k'][0]).get('name') == peek.params[1]['name'] and rhs is not None and const_of(rhs) is None:
            r0 = strip_casts(rhs)
            mask = 0xffffffff
            if r0.get('op') == 'bin' and r0['o'] == '&' and const_of(r0['k'][1]) is not None:
                mask = const_of(r0['k'][1]) & 0xffffffff
                r0 = strip_casts(r0['k'][0])
            same = r0.get('op') == 'ref' and r0.get('name') == SZ and o == '=' and (mask & 0x7fffffff) == 0x7fffffff
            deliv.append((ev, same, mask))
    ctx.ob('C08.1', bool(deliv) and all(x[1] for x in deliv), peek.name, 'the size delivered is the decoded prefix', peek.where(),
           '*%s = %s' % (peek.params[1]['name'], SZ) if deliv and all(x[1] for x in deliv) else
           'the consumer delivers something other than the size the allocator stored: %s' % [show(x[0].e)[:60] for x in deliv if not x[1]])
    # the allocator hands out what the encoder returned
    enc_calls = [c for c in alloc.calls(ENC)]
    handed = False
    for ev in alloc.stores():
        lhs, rhs, o = ev.store_parts()
        if rhs is not None and any(nd.get('op') == 'call' and nd.get('callee') == ENC for nd in walk(rhs)):
            l0 = strip_casts(lhs)
            for r in alloc.returns():
                e = strip_casts(r.e) if r.e is not None else None
                if e is not None and e.get('op') == 'ref' and e.get('name') == l0.get('name'):
                    defs, _ = df.reaching_defs(alloc, l0['name'], r.block, r.idx)
                    handed = defs == [ev]
    ctx.ob('C08.1', handed, alloc.name, 'the region handed out starts where the encoder stopped', alloc.where(), '')

    # ---- C08.2
    from .c10c import _lin
    head_forms = []
    for ev in alloc.stores():
        lhs, rhs, o = ev.store_parts()
        l0 = strip_casts(lhs)
        if l0.get('op') == 'ref' and l0.get('name') == 'head' and rhs is not None and const_of(rhs) is None:
            r0 = strip_casts(rhs)
            if r0.get('op') in ('member', 'ref'):
                continue          # the copy of the field at entry
            # (p - buf) + size  with p = encoder result
            has_size = any(nd.get('op') == 'ref' and nd.get('name') == alloc.params[1]['name'] for nd in walk(r0))
            has_diff = any(nd.get('op') == 'bin' and nd['o'] == '-' and nd.get('t', '') in ('i64', 'u64', 'i32', 'u32') and
                           any(m.get('op') == 'member' and m.get('field') == 'buf' for m in walk(nd)) for nd in walk(r0))
            head_forms.append((ev, has_size and has_diff and r0.get('op') == 'bin' and r0['o'] == '+'))
    ctx.ob('C08.2', bool(head_forms) and all(x[1] for x in head_forms), alloc.name, 'write index = (address after the prefix - ring start) + size', alloc.where(),
           '%d update(s)' % len(head_forms))
    tail_adv = None
    for ev in pop.stores():
        lhs, rhs, o = ev.store_parts()
        l0 = strip_casts(lhs)
        if l0.get('op') == 'ref' and l0.get('name') == 'tail' and o == '+=' and rhs is not None:
            r0 = strip_casts(rhs)
            if r0.get('op') == 'bin' and r0['o'] == '+':
                consts = [const_of(k) for k in r0['k'] if const_of(k) is not None]
                derefs = [k for k in r0['k'] if strip_casts(k).get('op') == 'un' and strip_casts(k).get('o') == '*']
                if consts == [4] and len(derefs) == 1:
                    tail_adv = ev
    ctx.ob('C08.2', tail_adv is not None, pop.name, 'read index += 4 + size', pop.where(), show(tail_adv.e) if tail_adv else 'no `tail += 4 + *size`')
    # fold-back of both indices at the ring size
    def folds(fn, var):
        for b in fn.blocks.values():
            c = strip_casts(b.cond) if b.cond is not None else None
            if c is not None and c.get('op') == 'bin' and c['o'] in ('>=',) and strip_casts(c['k'][0]).get('name') == var and \
                    any(nd.get('op') == 'member' and nd.get('field') == 'buf_size' for nd in walk(c['k'][1])):
                return True
        return False
    ctx.ob('C08.2', folds(alloc, 'head') and folds(pop, 'tail'), 'jls_mrb_alloc / jls_mrb_pop', 'both indices fold back at the ring size', alloc.where(), '')

    # ---- C08.3
    markers = [const_of(c.args[1]) for c in enc_calls if const_of(c.args[1]) is not None]
    tests = []
    for b in peek.blocks.values():
        c = strip_casts(b.cond) if b.cond is not None else None
        if c is not None and c.get('op') == 'bin' and c['o'] in ('>=', '>', '&') and const_of(c['k'][1]) is not None and strip_casts(c['k'][0]).get('name') == SZ:
            tests.append((c['o'], const_of(c['k'][1]), b))
    okm = bool(markers) and bool(tests) and all(
        any((o == '>=' and m >= v) or (o == '>' and m > v) or (o == '&' and (m & v)) for (o, v, _) in tests) for m in markers)
    ctx.ob('C08.3', okm, 'jls_mrb_alloc / jls_mrb_peek', 'marker value is recognised by the consumer', alloc.where(),
           'markers %s, tests %s' % (['0x%x' % m for m in markers], [(o, '0x%x' % v) for o, v, _ in tests]))
    # after a marker: tail = 0 and p = buf before decoding again
    ok0 = False
    for (o, v, b) in tests:
        w = find_path(peek, (b, 0), lambda ev, facts: 'stop' if (ev.k == 'store' and strip_casts(ev.store_parts()[0]).get('field') == 'tail' and const_of(ev.store_parts()[1]) == 0) else
                      ('target' if (ev.k == 'call' and ev.callee == DEC) else None), refine=False)
        ok0 = w is None
    ctx.ob('C08.3', ok0, peek.name, 'after a marker the consumer continues at offset 0', peek.where(), '')
    # the marker is written before the allocator moves to offset 0
    for c in enc_calls:
        if const_of(c.args[1]) is None:
            continue
        nxt = [ev for ev in c.block.events[c.idx + 1:] if ev.k == 'store']
        okw = any(strip_casts(ev.store_parts()[0]).get('name') == 'p' and any(nd.get('op') == 'member' and nd.get('field') == 'buf' for nd in walk(ev.store_parts()[1] or {})) for ev in nxt)
        ctx.ob('C08.3', okw, alloc.name, 'marker written, then the region starts at offset 0', c.where(), '')

    # ---- C08.4
    from .c10c import r15
    r15(ctx, P, 'C08.4')
    resets = [ev for ev in alloc.stores() if strip_casts(ev.store_parts()[0]).get('field') in ('head', 'tail') and const_of(ev.store_parts()[1] or {}) == 0]
    for ev in resets:
        empty = False
        for (bid, label) in control_deps_transitive(alloc, ev.block.id):
            c = strip_casts(alloc.blocks[bid].cond) if alloc.blocks[bid].cond is not None else None
            if c is not None and c.get('op') == 'bin' and c['o'] == '==' and label == 'T' and {strip_casts(k).get('name') for k in c['k']} == {'head', 'tail'}:
                empty = True
        ctx.ob('C08.4', empty, alloc.name, 'reset of %s only when the ring is empty' % strip_casts(ev.store_parts()[0]).get('field'), ev.where(),
               'under head == tail' if empty else 'the indices are reset while messages are queued: the new message overwrites them')
    ctx.floor('index resets in the allocator', len(resets), 1)

    # ---- C08.5
    incs = [ev for ev in alloc.stores() if strip_casts(ev.store_parts()[0]).get('field') == 'count' and ev.store_parts()[2] in ('pre++', 'post++', '+=')]
    w = find_path(alloc, 'entry', lambda ev, facts: 'stop' if ev in incs else
                  ('target' if (ev.k == 'ret' and ev.e is not None and const_of(ev.e) != 0 and const_of(strip_casts(ev.e)) != 0) else None), refine=False)
    ctx.ob('C08.5', w is None and bool(incs), alloc.name, 'count incremented on every successful allocation', alloc.where(), '', w.render() if w else None)
    decs = [ev for ev in pop.stores() if strip_casts(ev.store_parts()[0]).get('field') == 'count' and ev.store_parts()[2] in ('pre--', 'post--', '-=')]
    okd = bool(decs)
    for ev in decs:
        guarded = False
        for (bid, label) in control_deps_transitive(pop, ev.block.id):
            c = strip_casts(pop.blocks[bid].cond) if pop.blocks[bid].cond is not None else None
            if c is not None and c.get('op') == 'ref' and label == 'T' and c.get('t', '').startswith('p:'):
                guarded = True
        okd = okd and guarded
    ctx.ob('C08.5', okd, pop.name, 'count decremented only for a delivered message', pop.where(), '%d decrement(s)' % len(decs))
    z = [ev for ev in clear.stores() if strip_casts(ev.store_parts()[0]).get('field') == 'count' and const_of(ev.store_parts()[1] or {}) == 0]
    ctx.ob('C08.5', bool(z), clear.name, 'clear zeroes the count', clear.where(), '')

    # ---- C08.6
    for fn in (peek, pop, dec):
        bad = []
        for ev in fn.stores():
            l0 = strip_casts(ev.store_parts()[0])
            if l0.get('op') in ('sub', 'un') and not (l0.get('op') == 'un' and strip_casts(l0['k'][0]).get('name') == 'size'):
                bad.append(show(ev.e)[:40])
        for c in fn.calls(('memset', 'memcpy', '__builtin_memset', '__builtin_memcpy', 'jls_mrb_clear')):
            # clear is the documented reaction to an impossible state (marker while head > tail)
            if c.callee != 'jls_mrb_clear':
                bad.append(c.callee)
        ctx.ob('C08.6', not bad, fn.name, 'no store into the ring memory', fn.where(), 'reads only' if not bad else 'stores: %s' % bad[:2])
    wr = []
    for ev in alloc.stores():
        l0 = strip_casts(ev.store_parts()[0])
        if l0.get('op') in ('sub', 'un'):
            wr.append(show(ev.e)[:40])
    ctx.ob('C08.6', not wr, alloc.name, 'the allocator writes the ring only through the prefix encoder', alloc.where(), 'direct stores: %s' % wr if wr else '%s only' % ENC)


    # ---- C08.7
    def stores_field(g, field, depth=0):
        for ev in g.stores():
            l0 = strip_casts(ev.store_parts()[0])
            if l0.get('op') == 'member' and l0.get('field') == field:
                return True
        if depth < 2:
            for c in g.calls():
                if c.callee in fns and fns[c.callee] is not g and stores_field(fns[c.callee], field, depth + 1):
                    return True
        return False
    n7 = 0
    for fn in fns.values():
        for field in ('head', 'tail'):
            snaps = []
            for ev in fn.events():
                if ev.k not in ('decl', 'store') or ev.e is None:
                    continue
                rhs = ev.e if ev.k == 'decl' else ev.store_parts()[1]
                name = ev.name if ev.k == 'decl' else strip_casts(ev.store_parts()[0]).get('name')
                r0 = strip_casts(rhs) if rhs is not None else None
                if name and r0 is not None and r0.get('op') == 'member' and r0.get('field') == field and (ev.k == 'decl' or ev.store_parts()[2] == '='):
                    snaps.append((ev, name))
            backs = [ev for ev in fn.stores() if strip_casts(ev.store_parts()[0]).get('op') == 'member' and strip_casts(ev.store_parts()[0]).get('field') == field
                     and ev.store_parts()[1] is not None]
            for sn, name in snaps:
                for bk in backs:
                    if not any(m.get('op') == 'ref' and m.get('name') == name for m in walk(bk.store_parts()[1])):
                        continue
                    n7 += 1
                    movers = [c for c in fn.calls() if c.callee in fns and stores_field(fns[c.callee], field)]
                    w = None
                    for mv in movers:
                        # snapshot -> mover -> store back, with no new snapshot in between
                        w1 = find_path(fn, sn, lambda e2, facts: 'target' if e2 is mv else None, refine=False)
                        if w1 is None:
                            continue
                        w2 = find_path(fn, mv, lambda e2, facts: 'stop' if any(e2 is s2 for s2, n2 in snaps if n2 == name) else ('target' if e2 is bk else None), refine=False)
                        if w2 is not None:
                            w = (mv, w2)
                            break
                    ctx.ob('C08.7', w is None, fn.name, 'local copy %s of the %s index' % (name, 'read' if field == 'tail' else 'write'), sn.where(),
                           'taken after every call that can move the index' if w is None else
                           '%s is copied before %s(), which can itself store self->%s (past a wrap marker), and is then used to compute the value stored back: the index goes back to the stale position' % (name, w[0].callee, field),
                           w[1].render() if w else None)
    ctx.floor('index snapshots that are stored back', n7, 2)


def agreement_trace_rule(ctx, P, alloc, peek, ENC, DEC, rule='C08.8'):
    """Abstract evaluation of jls_mrb_alloc and jls_mrb_peek over a finite domain: the struct fields are environment
    entries updated by the stores the trace meets, the ring memory is the map {offset: prefix} of the encoder calls."""
    from ..fd import FD, Top, trace_calls
    fd = FD(P)
    BUF = 0x100000
    self_a = alloc.params[0]['name']
    self_p = peek.params[0]['name']
    size_a = alloc.params[1]['name']
    size_p = peek.params[1]['name']

    def run(fn, selfname, state, extra, mem, dec_default=0x5a5a5a5a):
        env = {'%s.buf' % selfname: BUF, '%s.head' % selfname: state['head'], '%s.tail' % selfname: state['tail'],
               '%s.buf_size' % selfname: state['B'], '%s.count' % selfname: state['count']}
        env.update(extra)
        out_size = []
        assume = {DEC: dec_default}

        def on_store(ev, env_, sym_):
            lhs, rhs, o = ev.store_parts()
            l0 = strip_casts(lhs)
            if l0.get('op') == 'member':
                key = str(fn.path(l0))
                try:
                    if rhs is None:
                        env_[key] = env_[key] + (1 if '++' in o else -1)
                    elif o == '=':
                        env_[key] = fd.ev(fn, rhs, env_)
                    else:
                        env_[key] = fd.ev(fn, {'op': 'bin', 'o': o[:-1], 't': l0.get('t'), 'k': [l0, rhs]}, env_)
                except (Top, ZeroDivisionError, KeyError):
                    env_.pop(key, None)
            elif l0.get('op') == 'un' and l0.get('o') == '*' and rhs is not None:
                try:
                    out_size.append(fd.ev(fn, rhs, env_))
                except (Top, ZeroDivisionError):
                    out_size.append(None)

        def on_event(ev, env_, sym_):
            if ev.k == 'call' and ev.callee == ENC:
                try:
                    a0 = fd.ev(fn, strip_casts(ev.args[0]), env_)
                    a1 = fd.ev(fn, strip_casts(ev.args[1]), env_)
                    mem[a0 - BUF] = a1 & 0xffffffff
                except (Top, ZeroDivisionError):
                    mem['?'] = True
            if ev.k == 'call' and ev.callee == DEC:
                try:
                    a0 = fd.ev(fn, strip_casts(ev.args[0]), env_)
                    assume[DEC] = mem.get(a0 - BUF, dec_default)
                except (Top, ZeroDivisionError):
                    assume[DEC] = dec_default
        box = []
        final = {}
        calls = trace_calls(P, fn, env, assume_calls=assume, _retbox=box, sym_out=final, on_store=on_store, on_event=on_event,
                            no_inline=(DEC, 'jls_mrb_clear'))
        ret = box[0] if box else None
        st = {'B': state['B'], 'head': final.get('%s.head' % selfname), 'tail': final.get('%s.tail' % selfname), 'count': final.get('%s.count' % selfname)}
        return ret, st, calls, out_size

    bad = {}
    n = 0
    undecided = 0
    def note(kind, msg):
        bad.setdefault(kind, [])
        if len(bad[kind]) < 3:
            bad[kind].append(msg)
    for B in (16, 21, 40):
        sizes = list(range(0, B + 1)) if B <= 21 else [0, 1, 7, 16, 27, 28, 30, 31, 32, 33, 36, 40]
        # index values are explored from the initial state: every write index the allocator produces becomes a read index
        # once the messages before it were popped (positions no history reaches, e.g. the last 3 bytes, are not states)
        tails = [0]
        seen_t = {0}
        for t in tails:
            for s1 in sizes:
                try:
                    mem = {}
                    st0 = {'B': B, 'head': t, 'tail': t, 'count': 0}
                    r1, st1, _, _ = run(alloc, self_a, st0, {size_a: s1}, mem)
                    n += 1
                    if not isinstance(r1, int) or '?' in mem or st1['head'] is None or st1['tail'] is None:
                        undecided += 1
                        continue
                    if r1 != 0 and isinstance(st1['head'], int) and st1['head'] not in seen_t and 0 <= st1['head'] < B:
                        seen_t.add(st1['head'])
                        tails.append(st1['head'])
                    if r1 == 0:
                        if s1 + 8 <= B:
                            note('refused', 'ring of %d bytes, empty at index %d: a message of %d bytes is refused although size + 8 <= capacity' % (B, t, s1))
                        continue
                    o1 = r1 - BUF
                    if o1 - 4 < 0 or o1 + s1 > B:
                        note('outside', 'ring of %d bytes, empty at index %d: the region for %d bytes is [%d, %d)' % (B, t, s1, o1 - 4, o1 + s1))
                        continue
                    # the consumer on this state
                    rp, stp, calls, out = run(peek, self_p, st1, {size_p: 0x7000}, dict(mem))
                    n += 1
                    sz_out = out[-1] if out else None
                    cleared = any(c_[0] == 'jls_mrb_clear' for c_ in calls)
                    if cleared or rp != r1 or sz_out != s1:
                        note('undelivered', 'ring of %d bytes, empty at index %d, one message of %d bytes queued at offset %d: peek %s' % (
                            B, t, s1, o1, 'discards the queue' if cleared else ('returns offset %s, size %s' % ((rp - BUF) if isinstance(rp, int) and rp else rp, sz_out))))
                        continue
                    # a second message behind it
                    for s2 in sizes:
                        mem2 = dict(mem)
                        r2, st2, _, _ = run(alloc, self_a, st1, {size_a: s2}, mem2)
                        n += 1
                        if not isinstance(r2, int) or st2['head'] is None:
                            undecided += 1
                            continue
                        if r2 == 0:
                            continue
                        if isinstance(st2['head'], int) and st2['head'] not in seen_t and 0 <= st2['head'] < B:
                            seen_t.add(st2['head'])
                            tails.append(st2['head'])
                        o2 = r2 - BUF
                        if o2 - 4 < 0 or o2 + s2 > B:
                            note('outside', 'ring of %d bytes, message of %d bytes queued at %d: the region for %d more bytes is [%d, %d)' % (B, s1, o1, s2, o2 - 4, o2 + s2))
                            continue
                        if not (o2 + s2 <= o1 - 4 or o2 - 4 >= o1 + s1):
                            note('overlap', 'ring of %d bytes, message of %d bytes queued at [%d, %d): the region for %d more bytes [%d, %d) overlaps it' % (B, s1, o1 - 4, o1 + s1, s2, o2 - 4, o2 + s2))
                            continue
                        if st2['head'] == st2['tail']:
                            note('full-is-empty', 'ring of %d bytes, messages of %d and %d bytes queued: head == tail == %d, the full ring reads as empty' % (B, s1, s2, st2['head']))
                            continue
                        rq, stq, calls2, out2 = run(peek, self_p, st2, {size_p: 0x7000}, dict(mem2))
                        n += 1
                        cleared2 = any(c_[0] == 'jls_mrb_clear' for c_ in calls2)
                        if cleared2 or rq != r1 or (out2[-1] if out2 else None) != s1:
                            note('order', 'ring of %d bytes, messages of %d then %d bytes queued: peek %s instead of the older one' % (
                                B, s1, s2, 'discards the queue' if cleared2 else 'returns offset %s size %s' % ((rq - BUF) if isinstance(rq, int) and rq else rq, out2[-1] if out2 else None)))
                except Top:
                    undecided += 1
    if undecided * 10 > n or n < 1000:
        raise AnalysisBroken('msg_ring_buffer trace: %d of %d evaluations not decidable' % (undecided, n))
    kinds = (('outside', 'the region handed out lies inside the ring'), ('overlap', 'the region handed out does not touch a queued message'),
             ('full-is-empty', 'a ring with queued messages never has head == tail'), ('undelivered', 'a single queued message is delivered by peek'),
             ('order', 'with two messages queued peek delivers the older one'), ('refused', 'an empty ring admits every size up to capacity - 8'))
    for k, text in kinds:
        ctx.ob(rule, k not in bad, alloc.name if k in ('outside', 'overlap', 'full-is-empty', 'refused') else peek.name, text,
               (alloc if k in ('outside', 'overlap', 'full-is-empty', 'refused') else peek).where(),
               '%d evaluations of the two functions over ring sizes 16, 21, 40 (%d not decidable)' % (n, undecided) if k not in bad else '; '.join(bad[k]))
