"""Bound analysis of the definition-normalisation arithmetic (C16.6 = C10.11).

For every integer division in jls_core_signal_def_align / round_up_to_multiple the
divisor must be provably >= 1.  The proof is an interval evaluation backwards through
reaching definitions, per accepted sample width (FD over the validator's data-type
switch), with three recognised idioms whose lemmas are part of the trusted base:

  L1  g(a, b) that the FD engine confirms to be max(a, b)        =>  lb = max(lb a, lb b)
  L2  r = ((x + m - 1) / m) * m  (exact tree shape), m >= 1 and ub(x) + ub(m) - 1 < 2^32
                                                                 =>  x <= r <= x + m - 1, r is a multiple of m,
                                                                     and r >= m when x >= 1
  L3  while (X != (X / d) * d) --d;  with d >= 1 at loop entry   =>  d >= 1 throughout (the test is false at d == 1)

Definition fields are bounded by the validator's reject compares (`def->f > C -> error`),
else by their type.  Any operation whose mathematical upper bound exceeds the type range
makes the value unknown ([0, type max]): that is exactly the wrap that produced a zero divisor.
"""
from ..export import AnalysisBroken
from ..ir import strip_casts, const_of, walk, show, kids
from ..graph import control_deps_transitive, cond_facts, ret_class, find_path, loops
from ..fd import FD, Top
from .. import df

U32 = (1 << 32) - 1


def accepted_data_types(P):
    """Case values of the data-type switch of the validator (the types it lets through)."""
    v = P.fn('jls_core_signal_def_validate')
    best = None
    for b in v.blocks.values():
        if b.term and b.term.get('kind') == 'SwitchStmt' and b.cond is not None and \
                any(n.get('op') == 'member' and n.get('field') == 'data_type' for n in walk(b.cond)):
            vals = set()
            for s, label in b.succs:
                if isinstance(label, tuple) and label[0] == 'case':
                    # reject arms return non-zero immediately: keep only arms from which a zero return is reachable
                    vals.update(label[1])
            if best is None or len(vals) > len(best):
                best = vals
    if not best:
        raise AnalysisBroken('data-type switch of jls_core_signal_def_validate not found')
    return sorted(best)


def accepted_widths(P, fd):
    ps = P.fn('jls_datatype_parse_size')
    ws = {}
    for dt in accepted_data_types(P):
        try:
            ws.setdefault(fd.call(ps, [dt]), []).append(dt)
        except Top:
            raise AnalysisBroken('jls_datatype_parse_size not evaluable')
    return ws


def field_maxima(P):
    """def->field -> largest value the validator lets through."""
    v = P.fn('jls_core_signal_def_validate')
    out = {}
    for b in v.blocks.values():
        e = strip_casts(b.cond) if b.cond else None
        if e is None or e.get('op') != 'bin' or e['o'] not in ('>', '>='):
            continue
        l, r = strip_casts(e['k'][0]), strip_casts(e['k'][1])
        if l.get('op') == 'member' and const_of(r) is not None:
            # the T edge must lead only to non-zero returns
            si = [i for i, (s, lab) in enumerate(b.succs) if lab == 'T']
            ok = bool(si)
            for i in si:
                w = find_path(v, (b, i), lambda ev, facts: 'target' if ev.k == 'ret' and ret_class(v, ev, facts) in ('zero', 'unknown') else None)
                if w is not None:
                    ok = False
            if ok:
                c = const_of(r)
                out[l['field']] = c if e['o'] == '>' else c - 1
    return out


def is_round_up(P, g):
    """Exact shape  return ((x + m - 1) / m) * m;  Returns (xname, mname) or None."""
    rets = g.returns()
    if len(rets) != 1 or len(g.params) != 2 or list(g.stores()):
        return None
    e = strip_casts(rets[0].e)
    if e.get('op') != 'bin' or e['o'] != '*':
        return None
    a, b = strip_casts(e['k'][0]), strip_casts(e['k'][1])
    if b.get('op') != 'ref':
        a, b = b, a
    if b.get('op') != 'ref' or a.get('op') != 'bin' or a['o'] != '/':
        return None
    m = b['name']
    num, den = strip_casts(a['k'][0]), strip_casts(a['k'][1])
    if den.get('op') != 'ref' or den['name'] != m:
        return None
    # num = x + m - 1
    if num.get('op') != 'bin' or num['o'] != '-' or const_of(num['k'][1]) != 1:
        return None
    s = strip_casts(num['k'][0])
    if s.get('op') != 'bin' or s['o'] != '+':
        return None
    names = {strip_casts(s['k'][0]).get('name'), strip_casts(s['k'][1]).get('name')}
    if m not in names or len(names) != 2:
        return None
    x = (names - {m}).pop()
    if {p['name'] for p in g.params} != {x, m}:
        return None
    return x, m


class Bounds:
    def __init__(self, P, fn, env, fmax, fd):
        self.P, self.fn, self.env, self.fmax, self.fd = P, fn, env, fmax, fd
        self.lemmas = set()

    def is_max(self, g):
        from .c10b import _is_max
        return _is_max(self.P, g, self.fd)

    def rng(self, e, block, idx, depth=0):
        """(lb, ub, multiple_of_var or None) of expression e at position."""
        e0 = strip_casts(e)
        if e0 is None or depth > 12:
            return (0, U32, None)
        c = const_of(e0)
        if c is not None and e0.get('op') != 'call':
            return (c, c, None)
        op = e0.get('op')
        if op == 'ref':
            if e0['name'] in self.env:
                v = self.env[e0['name']]
                return (v, v, None)
            if e0.get('rk') == 'local':
                return self.var_rng(e0['name'], block, idx, depth)
            return (0, U32, None)
        if op == 'member':
            mx = self.fmax.get(e0['field'], U32)
            return (0, mx, None)
        if op == 'call':
            g = self.P.functions.get(e0.get('callee'))
            a = kids(e0)
            if g is not None and len(a) == 2 and self.is_max(g):
                self.lemmas.add('L1 %s == max' % g.name)
                r1, r2 = self.rng(a[0], block, idx, depth + 1), self.rng(a[1], block, idx, depth + 1)
                return (max(r1[0], r2[0]), max(r1[1], r2[1]), None)
            if g is not None and len(a) == 2:
                ru = is_round_up(self.P, g)
                if ru is not None:
                    xi = [i for i, p in enumerate(g.params) if p['name'] == ru[0]][0]
                    mi = 1 - xi
                    rx, rm = self.rng(a[xi], block, idx, depth + 1), self.rng(a[mi], block, idx, depth + 1)
                    if rm[0] >= 1 and rx[1] + rm[1] - 1 <= U32:
                        self.lemmas.add('L2 %s is round-up-to-multiple' % g.name)
                        mv = strip_casts(a[mi])
                        mult = mv['name'] if mv.get('op') == 'ref' else None
                        lb = rx[0]
                        if rx[0] >= 1:
                            lb = max(rx[0], rm[0])
                        return (lb, rx[1] + rm[1] - 1, (mult, rx[0] >= 1))
                    return (0, U32, None)
            try:
                if g is not None:
                    args = [self.fd.ev(self.fn, x, self.env) for x in a]
                    v = self.fd.call(g, args)
                    return (v, v, None)
            except (Top, ZeroDivisionError):
                pass
            return (0, U32, None)
        if op == 'bin':
            o = e0['o']
            ra = self.rng(e0['k'][0], block, idx, depth + 1)
            rb = self.rng(e0['k'][1], block, idx, depth + 1)
            if o == '+':
                ub = ra[1] + rb[1]
                return (ra[0] + rb[0], ub, None) if ub <= U32 else (0, U32, None)
            if o == '*':
                ub = ra[1] * rb[1]
                return (ra[0] * rb[0], ub, None) if ub <= U32 else (0, U32, None)
            if o == '-':
                if ra[0] >= rb[1]:
                    return (ra[0] - rb[1], ra[1] - rb[0], None)
                return (0, U32, None)
            if o == '/':
                if rb[0] >= 1:
                    lb = ra[0] // rb[1]
                    # positive multiple of the very divisor variable
                    dv = strip_casts(e0['k'][1])
                    if ra[2] is not None and dv.get('op') == 'ref' and ra[2][0] == dv['name'] and ra[2][1]:
                        lb = max(lb, 1)
                    return (lb, ra[1] // rb[0], None)
                return (0, U32, None)
            return (0, U32, None)
        return (0, U32, None)

    def var_rng(self, name, block, idx, depth):
        defs, entry = df.reaching_defs(self.fn, name, block, idx)
        if not defs or entry:
            return (0, U32, None)
        lbs, ubs, mults = [], [], []
        for d in defs:
            lhs, rhs, o = d.store_parts()
            if rhs is None and o in ('pre--', 'post--'):
                # L3: decrement-until-divides loop
                if self.dec_until_divides(name, d):
                    self.lemmas.add('L3 decrement-until-divides loop on %s' % name)
                    # value before the loop
                    continue
                return (0, U32, None)
            if rhs is None or o != '=':
                return (0, U32, None)
            r = self.rng(rhs, d.block, d.idx, depth + 1)
            lbs.append(r[0])
            ubs.append(r[1])
            mults.append(r[2])
        if not lbs:
            return (0, U32, None)
        lb = min(lbs)
        if any(d.store_parts()[1] is None for d in defs):
            lb = min(lb, 1) if lb >= 1 else lb
        m = mults[0] if len(set(map(str, mults))) == 1 and len(defs) == 1 else None
        return (lb, max(ubs), m)

    def dec_until_divides(self, name, dec_ev):
        lp = loops(self.fn)
        for hdr, body in lp.items():
            if dec_ev.block.id not in body:
                continue
            # only events in the loop: the decrement
            evs = [ev for bid in body for ev in self.fn.blocks[bid].events if ev.k in ('store', 'decl', 'call', 'ret')]
            if evs != [dec_ev]:
                continue
            conds = [self.fn.blocks[bid].cond for bid in body if self.fn.blocks[bid].cond is not None and len(self.fn.blocks[bid].succs) >= 2]
            if len(conds) != 1:
                continue
            c = strip_casts(conds[0])
            if c.get('op') != 'bin' or c['o'] != '!=':
                continue
            X, Y = strip_casts(c['k'][0]), strip_casts(c['k'][1])
            if Y.get('op') != 'bin':
                X, Y = Y, X
            # Y = (X / d) * d
            if X.get('op') != 'ref' or Y.get('op') != 'bin' or Y['o'] != '*':
                continue
            q, d2 = strip_casts(Y['k'][0]), strip_casts(Y['k'][1])
            if d2.get('op') != 'ref':
                q, d2 = d2, q
            if d2.get('op') != 'ref' or d2['name'] != name or q.get('op') != 'bin' or q['o'] != '/':
                continue
            if strip_casts(q['k'][0]).get('name') != X['name'] or strip_casts(q['k'][1]).get('name') != name:
                continue
            return True
        return False


def check_divisors(ctx, rule, P):
    fd = FD(P)
    widths = accepted_widths(P, fd)
    fmax = field_maxima(P)
    ctx.note('%s: accepted widths %s; validator bounds on definition fields: %s' % (rule, sorted(widths), fmax or 'none'))
    n = 0
    lemmas = set()
    f = P.fn('jls_core_signal_def_align')
    ctx.saw(f)
    ps_var = None
    for ev in f.events('decl'):
        if ev.e is not None and any(nd.get('op') == 'call' and nd.get('callee') == 'jls_datatype_parse_size' for nd in walk(ev.e)):
            ps_var = ev.name
    if ps_var is None:
        raise AnalysisBroken('sample size local of jls_core_signal_def_align not found')
    seen = set()
    for b in f.blocks.values():
        items = [(ev.e, ev.block, ev.idx, ev.ln) for ev in b.events if ev.e is not None]
        if b.cond is not None:
            items.append((b.cond, b, len(b.events), b.line))
        for e, blk, idx, ln in items:
            for nd in walk(e):
                if nd.get('op') == 'bin' and nd['o'] in ('/', '%') and nd['id'] not in seen and not nd.get('t', '').startswith('f'):
                    seen.add(nd['id'])
                    n += 1
                    bad = []
                    for w in sorted(widths):
                        B = Bounds(P, f, {ps_var: w}, fmax, fd)
                        lb, ub, _ = B.rng(nd['k'][1], blk, idx)
                        lemmas |= B.lemmas
                        if lb < 1:
                            bad.append(w)
                    ctx.ob(rule, not bad, f.name, 'divisor of `%s`' % show(nd)[:60], '%s:%d' % (f.file, nd.get('ln', ln)),
                           'divisor >= 1 for every accepted width %s' % sorted(widths) if not bad else
                           'divisor `%s` is not provably non-zero for width(s) %s: a definition parameter near UINT32_MAX wraps the rounding arithmetic to 0' %
                           (show(strip_casts(nd['k'][1])), bad))
    # the helper itself: its divisor is its parameter m, >= 1 at every call site
    for g in P.all_functions():
        ru = is_round_up(P, g)
        if ru is None:
            continue
        ctx.saw(g)
        mi = [i for i, p in enumerate(g.params) if p['name'] == ru[1]][0]
        for cf, cev in P.callers().get(g.name, []):
            n += 1
            bad = []
            for w in sorted(widths):
                B = Bounds(P, cf, {ps_var: w}, fmax, fd)
                lb, ub, _ = B.rng(cev.args[mi], cev.block, cev.idx)
                lemmas |= B.lemmas
                if lb < 1:
                    bad.append(w)
            ctx.ob(rule, not bad, cf.name, 'divisor passed to %s(.., %s)' % (g.name, show(strip_casts(cev.args[mi]))), cev.where(),
                   'argument >= 1 for every accepted width' if not bad else 'argument `%s` can be 0 for width(s) %s' % (show(strip_casts(cev.args[mi])), bad))
    ctx.floor('divisions in definition normalisation', n, 5)
    for l in sorted(lemmas):
        ctx.note('%s lemma used: %s' % (rule, l))
    return widths, fmax
