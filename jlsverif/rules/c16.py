"""C16 — signal definitions normalise to consistent, stable storage parameters."""
from ..export import AnalysisBroken
from ..ir import strip_casts, const_of, walk, show, kids
from ..graph import find_path, ret_class, ev_dominates, control_deps_transitive
from ..fd import FD, Top
from .. import df
from .common import exceptions, consumed
from .defnorm import accepted_widths, check_divisors

EXPL = ('Constant relations of the per-width default tables; agreement between the widths the validator accepts and the arms of the '
        'defaults switch; common defaults applied on every path; finite-domain evaluation of the byte-multiple relation per accepted '
        'width; clamp / round-up data dependence of the four stored-back values; validate -> align -> serialise order; interval '
        'evaluation of every divisor per accepted width.')
NOT_DECIDED = 'Idempotence and the divisibility relations for arbitrary 32-bit inputs (relational arithmetic; an SMT question, another family).'

FIELDS = ('samples_per_data', 'sample_decimate_factor', 'entries_per_summary', 'summary_decimate_factor')


def run(ctx, sess):
    ctx.explanation = EXPL
    ctx.not_decided = NOT_DECIDED
    P = sess.prog('default')
    exc = exceptions('C16')
    fd = FD(P)
    ctx.rule('C16.1', 'default tables: for each SIGNAL_<w>_DEFAULTS, sdf*w % 256 == 0, spd % sdf == 0, eps % (spd/sdf) == 0, eps % summary_decimate == 0 and every value >= its minimum')
    ctx.rule('C16.2', 'every sample width the validator accepts has an arm in the defaults switch, and the common (annotation/utc) defaults are applied on every path')
    ctx.rule('C16.3', 'for every accepted width w, the samples-per-data multiple m satisfies m * w % 256 == 0')
    ctx.rule('C16.4', 'each of the four values stored back into the definition derives from max(field, MIN) and the required round-up')
    ctx.rule('C16.8', 'the annotation and UTC decimation factors are at least 2 after normalisation (a level that holds a single entry would be committed upwards with every entry)')
    ctx.rule('C16.7', 'the divisibility established by the shrink loop is kept: its two variables are not modified between the loop exit and the values stored back')
    ctx.rule('C16.5', 'jls_wr_signal_def validates, then aligns, then serialises the aligned definition')
    ctx.rule('C16.6', 'every divisor in the normalisation arithmetic is >= 1 for every accepted width (interval evaluation)')
    widths = accepted_widths(P, fd)
    ctx.note('accepted widths: %s' % {w: ['0x%x' % d for d in dts] for w, dts in sorted(widths.items())})
    mins = {}
    import re
    from ..export import macros
    mac = macros(sess.repo, 'core.c')
    def mval(name, depth=0):
        v = mac.get(name)
        while v is not None and depth < 5:
            v = v.strip('() ')
            if re.fullmatch(r'\d+', v):
                return int(v)
            v = mac.get(v)
            depth += 1
        return None
    for f, m in (('samples_per_data', 'SAMPLES_PER_DATA_MIN'), ('sample_decimate_factor', 'SAMPLE_DECIMATE_FACTOR_MIN'),
                 ('entries_per_summary', 'ENTRIES_PER_SUMMARY_MIN'), ('summary_decimate_factor', 'SUMMARY_DECIMATE_FACTOR_MIN')):
        mins[f] = mval(m)
        if mins[f] is None:
            raise AnalysisBroken('macro %s not found' % m)
    # ---- C16.1
    tables = {}
    for name, g in P.globals.items():
        m = re.fullmatch(r'SIGNAL_(\d+)_DEFAULTS', name)
        if m and g.get('init') and g['init'].get('op') == 'init':
            flds = g['init'].get('fields', [])
            vals = {fn_: const_of(x) for fn_, x in zip(flds, kids(g['init']))}
            tables[int(m.group(1))] = (g, vals)
    if len(tables) < 1:
        raise AnalysisBroken('default tables found: %s' % sorted(tables))
    by_name = {g_['name']: v_ for _, (g_, v_) in tables.items()}

    def table_fits(name, w):
        v = by_name.get(name)
        if v is None or None in [v.get(f) for f in FIELDS]:
            return False
        spd, sdf, eps, sdf2 = (v.get(f) for f in FIELDS)
        return (sdf * w) % 256 == 0 and sdf != 0 and spd % sdf == 0 and eps % (spd // sdf) == 0 and sdf2 != 0 and eps % sdf2 == 0 and all(v[f] >= mins[f] for f in FIELDS)
    for w, (g, v) in sorted(tables.items()):
        where = '%s:%d' % (g['file'], g['line'])
        spd, sdf, eps, sdf2 = (v.get(f) for f in FIELDS)
        if None in (spd, sdf, eps, sdf2):
            ctx.ob('C16.1', False, g['name'], 'fields present', where, str(v))
            continue
        ctx.ob('C16.1', (sdf * w) % 256 == 0, g['name'], 'sample_decimate_factor * width % 256 == 0', where, '%d * %d = %d' % (sdf, w, sdf * w))
        ctx.ob('C16.1', spd % sdf == 0, g['name'], 'samples_per_data % sample_decimate_factor == 0', where, '%d %% %d' % (spd, sdf))
        ctx.ob('C16.1', sdf != 0 and eps % (spd // sdf) == 0, g['name'], 'entries_per_summary % entries_per_data == 0', where, '%d %% %d' % (eps, spd // sdf if sdf else 0))
        ctx.ob('C16.1', eps % sdf2 == 0, g['name'], 'entries_per_summary % summary_decimate_factor == 0', where, '%d %% %d' % (eps, sdf2))
        ctx.ob('C16.1', all(v[f] >= mins[f] for f in FIELDS), g['name'], 'every value >= its minimum', where, str({f: (v[f], mins[f]) for f in FIELDS}))
    # ---- C16.2: which table the defaults function selects, traced for every accepted data type (and for variants that
    # differ only in bits the validator ignores, such as the fixed-point q field)
    from ..fd import trace_calls
    d = P.fn('signal_def_defaults')
    ctx.saw(d)
    dparam = d.params[0]['name']
    # bits of data_type the validator does not look at
    free = 0
    v_ = P.fn('jls_core_signal_def_validate')
    for b_ in v_.blocks.values():
        if b_.term and b_.term.get('kind') == 'SwitchStmt' and b_.cond is not None:
            c_ = strip_casts(b_.cond)
            if c_.get('op') == 'bin' and c_['o'] == '&' and any(nd.get('op') == 'member' and nd.get('field') == 'data_type' for nd in walk(c_)):
                m_ = const_of(c_['k'][1]) if const_of(c_['k'][1]) is not None else const_of(c_['k'][0])
                if m_ is not None:
                    free = (~m_) & 0xffffffff
    variants = [0]
    if free:
        low = free & (-free)
        variants += [low, low * 8, (low * 255) & free]
    selected = {}        # width -> set of table names (or None)
    per_width = {}
    undecided = []
    psz = P.fn('jls_datatype_parse_size')
    from .defnorm import accepted_data_types
    for dt in accepted_data_types(P):
        for var in variants:
            dtv = dt | var
            w = fd.call(psz, [dtv])
            env = {'%s.data_type' % dparam: dtv, dparam: 1}
            for f_ in FIELDS + ('annotation_decimate_factor', 'utc_decimate_factor'):
                env['%s.%s' % (dparam, f_)] = 0
            used = set()

            def on_store(ev, env_, sym_, used=used):
                lhs, rhs, o = ev.store_parts()
                l0 = strip_casts(lhs)
                if l0.get('op') == 'member' and l0.get('field') in FIELDS and rhs is not None:
                    for nd in walk(rhs):
                        if nd.get('op') == 'ref' and nd.get('name') in sym_ and sym_[nd['name']][0] == 'addr':
                            used.add(sym_[nd['name']][1])
                        elif nd.get('op') == 'ref' and nd.get('rk') == 'global':
                            used.add(nd['name'])
            try:
                trace_calls(P, d, env, assume_calls=None, on_store=on_store)
            except Top:
                undecided.append('0x%08x' % dtv)
                continue
            tabs = sorted(t_ for t_ in used if re.fullmatch(r'SIGNAL_(\d+)_DEFAULTS', t_))
            per_width.setdefault(w, set()).add(tuple(tabs))
            selected.setdefault(w, []).append((dtv, tabs))
    if undecided:
        raise AnalysisBroken('defaults selection not decidable for %s' % undecided[:3])
    for w in sorted(widths):
        sel = selected.get(w, [])
        has = [x for x in sel if x[1]]
        ok = bool(sel) and len(has) == len(sel)
        ctx.ob('C16.2', ok, d.name, 'defaults arm for width %d' % w, d.where(),
               'arm present' if ok else ('width %d is accepted by the validator but has no defaults: zero fields keep 0 and are only lifted to the minimums' % w if not has else
                                        'data type %s of width %d gets no per-width defaults although other types of that width do (bits the validator ignores change the selection)' % (', '.join('0x%08x' % x[0] for x in sel if not x[1])[:60], w)))
        for dtv, tabs in has:
            good = len(tabs) == 1 and table_fits(tabs[0], w)
            if not good:
                ctx.ob('C16.2', False, d.name, 'table selected for width %d' % w, d.where(), 'data type 0x%08x selects %s, whose values do not satisfy the relations for %d-bit samples' % (dtv, tabs, w))
        if has and all(len(tabs) == 1 and table_fits(tabs[0], w) for _, tabs in has):
            ctx.ob('C16.2', True, d.name, 'table selected for width %d' % w, d.where(), '%s for %d data type variants' % (has[0][1][0], len(has)))
    # common defaults on every path: stores to annotation_decimate_factor / utc_decimate_factor
    for fld in ('annotation_decimate_factor', 'utc_decimate_factor'):
        sts = [ev for ev in d.stores() if strip_casts(ev.store_parts()[0]).get('field') == fld]
        # zero-test edges of that field: nothing to default when non-zero
        nz = set()
        for b in d.blocks.values():
            e = strip_casts(b.cond) if b.cond else None
            if e is not None and any(nd.get('op') == 'member' and nd.get('field') == fld for nd in walk(e)):
                from .common import compare_info
                ci = compare_info(b.cond)
                if ci is not None and (const_of(ci[0]) == 0 or const_of(ci[1]) == 0):
                    nz.add((b.id, 'F' if ci[2] == 'T' else 'T'))
        w_ = find_path(d, 'entry', lambda e2, facts: 'stop' if e2 in sts else None, on_exit=lambda facts: True,
                       edge_ok=lambda b, s, label: (b.id, label) not in nz, refine=False)
        ctx.ob('C16.2', w_ is None and bool(sts), d.name, 'default for %s on every path' % fld, d.where(),
               'applied on every path' if (w_ is None and sts) else
               'a path returns with %s possibly still 0 (widths without an arm): the time-series index buffer is then sized for 0 entries and the first annotation/UTC entry writes past it' % fld,
               w_.render() if w_ else None)
    # ---- C16.8: the time-series decimation factors leave normalisation at 2 or more
    for fld in ('annotation_decimate_factor', 'utc_decimate_factor'):
        sts = [ev for ev in d.stores() if strip_casts(ev.store_parts()[0]).get('field') == fld]
        last = sorted(sts, key=lambda e_: (e_.ln, e_.idx))[-1:] if sts else []
        okm = False
        how = 'no store'
        for ev in last:
            rhs = strip_casts(ev.store_parts()[1]) if ev.store_parts()[1] is not None else None
            if rhs is not None and rhs.get('op') == 'call' and rhs.get('callee') in P.functions and len(kids(rhs)) == 2:
                from .c10b import _is_max
                k_ = [const_of(a_) for a_ in kids(rhs)]
                cmin = max([x for x in k_ if x is not None] or [0])
                if _is_max(P, P.functions[rhs['callee']], fd) and cmin >= 2:
                    # and it is the last word: post-dominates every other store of the field
                    # every path to the exit passes this store, and no other store of the field follows it
                    w1 = find_path(d, 'entry', lambda e2, facts, ev=ev: 'stop' if e2 is ev else None, on_exit=lambda facts: True, refine=False)
                    w2 = find_path(d, ev, lambda e2, facts, ev=ev: 'target' if (e2 in sts and e2 is not ev) else None, refine=False)
                    okm = w1 is None and w2 is None
                    how = '%s = max(%s, %d) after every other store' % (fld, fld, cmin)
        ctx.ob('C16.8', okm, d.name, 'minimum of %s' % fld, last[0].where() if last else d.where(),
               how if okm else 'a factor of 1 (or 0 kept by a missing default) reaches the time-series writer: an index level that holds one entry is committed upwards with every entry, through all levels')
    # ---- C16.3
    a = P.fn('jls_core_signal_def_align')
    ctx.saw(a)
    mult = None
    ps_var = None
    for ev in a.events('decl'):
        if ev.e is not None and any(nd.get('op') == 'call' and nd.get('callee') == 'jls_datatype_parse_size' for nd in walk(ev.e)):
            ps_var = ev.name
    for ev in a.events('decl'):
        if ev.e is not None and ps_var and any(nd.get('op') == 'ref' and nd.get('name') == ps_var for nd in walk(ev.e)) and \
                strip_casts(ev.e).get('op') == 'bin' and strip_casts(ev.e)['o'] == '/':
            mult = ev
    if mult is None:
        raise AnalysisBroken('samples_per_data multiple not found in jls_core_signal_def_align')
    for w in sorted(widths):
        try:
            m = fd.ev(a, mult.e, {ps_var: w})
        except (Top, ZeroDivisionError):
            m = None
        ok = m is not None and (m * w) % 256 == 0
        ctx.ob('C16.3', ok, a.name, 'multiple for width %d' % w, mult.where(),
               'm = %s, m * w = %s' % (m, None if m is None else m * w) if ok else
               'm = %s gives entries of %s bits: a level-1 summary entry does not cover a whole number of 256-bit groups' % (m, None if m is None else m * w))
    # ---- C16.4
    need = {
        'sample_decimate_factor': (['u32_max'], True),
        'samples_per_data': (['u32_max'], True),
        'entries_per_summary': (['u32_max'], True),
        'summary_decimate_factor': (['u32_max'], False),
    }
    from .defnorm import is_round_up
    rups = [g.name for g in P.all_functions() if is_round_up(P, g)]
    for fld, (calls, rounded) in need.items():
        sts = [ev for ev in a.stores() if strip_casts(ev.store_parts()[0]).get('op') == 'member' and strip_casts(ev.store_parts()[0]).get('field') == fld]
        if not sts:
            ctx.ob('C16.4', False, a.name, 'store back to %s' % fld, a.where(), 'missing')
            continue
        st = sts[-1]
        rhs = st.store_parts()[1]
        def has_max(nd, fld=fld):
            if nd.get('op') == 'call' and nd.get('callee') in calls:
                return any(x.get('op') == 'member' and x.get('field') == fld for a_ in kids(nd) for x in walk(a_)) and \
                    any(const_of(a_) == mins[fld] for a_ in kids(nd))
            return False
        ok_max = df.derives(a, rhs, has_max, st.block, st.idx, must=False)
        ok_r = True
        if rounded:
            ok_r = df.derives(a, rhs, lambda nd: nd.get('op') == 'call' and nd.get('callee') in rups, st.block, st.idx, must=False) or \
                (fld == 'samples_per_data' and df.derives(a, rhs, lambda nd: nd.get('op') == 'bin' and nd['o'] == '*', st.block, st.idx, must=False))
        ctx.ob('C16.4', ok_max and ok_r, a.name, 'stored %s is clamped%s' % (fld, ' and rounded' if rounded else ''), st.where(),
               'derives from max(def->%s, %d)%s' % (fld, mins[fld], ' and a round-up' if rounded else '') if (ok_max and ok_r) else
               'value stored does not derive from max(def->%s, MIN)%s' % (fld, ' / round-up' if rounded else ''))
    # ---- C16.7
    from ..graph import loops as _loops
    from .defnorm import Bounds
    lp_ = _loops(a)
    est = None
    for hdr_, body_ in lp_.items():
        conds = [a.blocks[b_].cond for b_ in body_ if a.blocks[b_].cond is not None and len(a.blocks[b_].succs) >= 2]
        if len(conds) != 1:
            continue
        c_ = strip_casts(conds[0])
        if c_.get('op') == 'bin' and c_['o'] == '!=':
            X_, Y_ = strip_casts(c_['k'][0]), strip_casts(c_['k'][1])
            if Y_.get('op') != 'bin':
                X_, Y_ = Y_, X_
            if X_.get('op') == 'ref' and Y_.get('op') == 'bin' and Y_['o'] == '*':
                q_, d_ = strip_casts(Y_['k'][0]), strip_casts(Y_['k'][1])
                if d_.get('op') != 'ref':
                    q_, d_ = d_, q_
                if d_.get('op') == 'ref' and q_.get('op') == 'bin' and q_['o'] == '/' and strip_casts(q_['k'][0]).get('name') == X_['name'] and strip_casts(q_['k'][1]).get('name') == d_['name']:
                    est = (hdr_, body_, X_['name'], d_['name'])
    if est is None:
        ctx.ob('C16.7', False, a.name, 'shrink loop X != (X / d) * d present', a.where(), 'the loop that makes entries_per_summary a multiple of entries per block was not found')
    else:
        hdr_, body_, Xn, dn = est
        hb = a.blocks[hdr_]
        exits = [(b_, i_) for b_ in body_ for i_, (s_, l_) in enumerate(a.blocks[b_].succs) if s_.id not in body_]
        for b_, i_ in exits:
            def on_event(e2, facts):
                if e2.k in ('store', 'decl'):
                    l0 = strip_casts(e2.store_parts()[0])
                    if l0.get('op') == 'ref' and l0.get('name') in (Xn, dn):
                        return 'target'
                return None
            w = find_path(a, (a.blocks[b_], i_), on_event)
            ctx.ob('C16.7', w is None, a.name, '`%s` and `%s` unchanged after the shrink loop' % (Xn, dn), '%s:%d' % (a.file, hb.line),
                   'the relation %s %% %s == 0 established by the loop reaches the stored values' % (Xn, dn) if w is None else
                   'one of them is modified after the loop: the stored entries_per_summary is no longer a multiple of the entries per block, and normalising twice changes the result', w.render() if w else None)
        # the stored-back values use them
        sb = [ev for ev in a.stores() if strip_casts(ev.store_parts()[0]).get('op') == 'member' and strip_casts(ev.store_parts()[0]).get('field') == 'entries_per_summary']
        ok = bool(sb) and strip_casts(sb[-1].store_parts()[1]).get('name') == Xn
        ctx.ob('C16.7', ok, a.name, 'entries_per_summary stored back is the loop\'s `%s`' % Xn, sb[-1].where() if sb else a.where(), '')
    # ---- C16.5
    w = P.fn('jls_wr_signal_def')
    ctx.saw(w)
    val = list(w.calls('jls_core_signal_def_validate'))
    al = list(w.calls('jls_core_signal_def_align'))
    ser_calls = [ev for ev in w.calls() if ev.callee and ev.callee.startswith('jls_buf_wr_')]
    ok = bool(val) and bool(al) and all(any(ev_dominates(v_, x) for v_ in val) for x in al) and all(any(ev_dominates(a_, s) for a_ in al) for s in ser_calls)
    ctx.ob('C16.5', ok, w.name, 'validate -> align -> serialise', w.where(), 'order holds: %s' % ok)
    # what is serialised was validated: the reader validates the stored values, so the writer must validate the aligned ones
    ok_v = bool(al) and any(all(ev_dominates(a_, v_) for a_ in al) and all(ev_dominates(v_, s_) for s_ in ser_calls) for v_ in val)
    ctx.ob('C16.5', ok_v, w.name, 'the aligned definition is validated before it is serialised', (al[-1].where() if al else w.where()),
           'a validation follows the alignment' if ok_v else
           'only the caller\'s values are validated; alignment can lift a parameter above the validator\'s bound, the definition is written, and the reader (which validates the stored values) drops the signal')
    # the serialised object is the aligned one
    if al:
        ap = w.path(al[0].args[0])
        bad = []
        for s in ser_calls:
            if len(s.args) > 1:
                a1 = strip_casts(s.args[1])
                if a1.get('op') == 'member' and a1.get('field') in FIELDS:
                    p = w.path(a1)
                    if p is None or ap is None or tuple(p[:-1]) != tuple(ap):
                        bad.append(show(a1))
        ctx.ob('C16.5', not bad, w.name, 'serialised fields come from the aligned definition', w.where(), 'ok' if not bad else 'serialises %s, aligned object is %s' % (bad, ap))
    for c in val + al:
        okc, how = consumed(w, c)
        ctx.ob('C16.5', okc, w.name, 'result of %s()' % c.callee, c.where(), how)
    # reader side: definitions read from a file are validated before being exposed
    h = P.fn('handle_signal_def')
    ok = any(True for _ in h.calls('jls_core_signal_def_validate'))
    ctx.ob('C16.5', ok, h.name, 'definitions read from a file are validated', h.where(), '')
    # ---- C16.6
    check_divisors(ctx, 'C16.6', P)
