"""C13 — definitions and user data round-trip; identity rules are enforced."""
from ..export import AnalysisBroken
from ..ir import strip_casts, const_of, walk, show, kids
from ..graph import find_path, ret_class, ev_dominates, control_deps_transitive, control_deps, cond_facts, loops, Witness
from ..guard import Gates, var_of, zero_edges_of_call
from .. import ser, df
from .common import exceptions, consumed
from . import chunks

EXPL = ('Serializer/parser agreement (ordered (kind, width, field) sequences of jls_buf_wr_* vs jls_buf_rd_* in writer, reader and copy), '
        'byte order of the scalar serializers, reject-before-effect for duplicate / missing-source / invalid definitions, gates at every '
        'writer entry that takes a signal id, user-data meta packing constants, enumeration loops, string block bounds and absent-string handling.')
NOT_DECIDED = 'Content equality of strings and payload bytes; behaviour for strings longer than the reader-side string block beyond the bound rule.'


def run(ctx, sess):
    ctx.explanation = EXPL
    ctx.not_decided = NOT_DECIDED
    P = sess.prog('default')
    exc = exceptions('C13')
    ctx.rule('C13.1', 'definition payloads: writer, reader and copy use the same ordered sequence of (kind, width, field); scalar serializers are little-endian on both sides; strings end with {0, 0x1f} on both sides')
    ctx.rule('C13.2', 'reject before effect: duplicate id, missing source, invalid parameters return an error on every path before anything reaches the file')
    ctx.rule('C13.3', 'every writer entry that takes a signal id starts with a consumed validation gate, and the gate rejects undefined ids')
    ctx.rule('C13.4', 'user-data meta: writer packs (storage_type << 12) | (meta & 0x0fff); reader and copy unpack with the same shift and masks')
    ctx.rule('C13.5', 'enumeration: sources/signals are listed by one loop over 0..COUNT-1 that tests def.id == i')
    ctx.rule('C13.6', 'string blocks: every copy into a string block is dominated by a compare of its length with the block capacity')
    ctx.rule('C13.8', 'string-block switch: after the reader moves to a fresh string block, no compare mixes a pointer into the old block with one into the new block, nothing is stored through an old-block pointer, the carried-over part ends at the old block\'s cursor, and a string that fills a whole block is rejected')
    ctx.rule('C13.10', 'user data text arrives whole through the threaded writer: jls_twr_user_data queues the measured length (strlen + 1) of a STRING / JSON item on every accepting path, as the synchronous call stores it (shared with C06.12)')
    ctx.rule('C13.11', 'writer and reader agree on the storage types of user data: every type for which jls_wr_user_data reaches the chunk write (other than behind a test of the list head, the placeholder that opens the list) is a type for which jls_core_user_data reaches the callback')
    ctx.rule('C13.12', 'one separator per string: the reader skips the unit separator 0x1f that follows a terminator at most once (the test is not on a loop), as the writer emits exactly one - a string that itself begins with 0x1f keeps its first characters')
    ctx.rule('C13.14', 'a rejected definition changes nothing, also in the threaded writer: what it keeps from a definition request (the per-signal entry size) is stored only on the zero-result edge of the synchronous definition call (shared with C10.18) - a refused duplicate must not reset or replace the entry of the signal that exists')
    ctx.rule('C13.15', 'the definition that is returned is the one used for storage: the annotation and UTC decimation factors are raised to their minimum where the definition is normalised, before it is serialised (shared with C16.8) - not later, where only the time-series writer sees the corrected value')
    ctx.rule('C13.13', 'a payload larger than the read buffer arrives whole: the chunk read does not keep a pointer into the buffer across the call that grows it (shared with C10.28)')
    ctx.rule('C13.9', 'every stored item is delivered: in the reader loop that hands user data to the callback, no path leads from a chunk that was read successfully to the next iteration of the loop without passing the callback (only error returns leave the loop early)')
    ctx.rule('C13.7', 'absent strings: a char* field of a user definition is never passed to strlen/memcpy without a NULL test')
    r1(ctx, P)
    r2(ctx, P)
    r3(ctx, P)
    r4(ctx, P)
    r5(ctx, P)
    r6(ctx, P, exc)
    r7(ctx, P, exc)
    r8(ctx, P)
    carry_cursor_rule(ctx, P, 'C13.8')
    r9(ctx, P)
    storage_types_rule(ctx, P, 'C13.11')
    separator_rule(ctx, P, 'C13.12')
    from .c10c import r28 as _r28
    class _Only:
        def __init__(self, c): self.c = c
        def __getattr__(self, k): return getattr(self.c, k)
        def ob(self, rid, ok, function, construct, where='', detail='', witness=None):
            if function == 'jls_core_rd_chunk':
                return self.c.ob('C13.13', ok, function, construct, where, detail, witness)
            return ok
        def floor(self, *a): pass
        def saw(self, *a, **k): pass
    _r28(_Only(ctx), P)
    if not any(o['rule'] == 'C13.13' for o in ctx.obligations):
        ctx.ob('C13.13', True, 'jls_core_rd_chunk', 'no pointer into the read buffer is kept', P.fn('jls_core_rd_chunk').where(), 'the chunk read passes self->buf->start at each attempt')
    from .common import relay
    from . import c06 as _src_c06
    relay(ctx, sess, _src_c06.run, {'C06.12': 'C13.10'}, only_functions=('jls_twr_user_data',), minimum=1)
    from . import c10 as _src_c10
    relay(ctx, sess, _src_c10.run, {'C10.18': 'C13.14'}, minimum=1)
    from . import c16 as _src_c16
    relay(ctx, sess, _src_c16.run, {'C16.8': 'C13.15'}, minimum=1)


def _calls(fn, names, evs=None):
    src = evs if evs is not None else list(fn.events())
    return [ev for ev in src if ev.k == 'call' and ev.callee in names]


def r1(ctx, P):
    wsig = P.fn('jls_wr_signal_def')
    rsig = P.fn('handle_signal_def')
    cp = P.fn('jls_copy')
    wsrc = P.fn('jls_wr_source_def')
    rsrc = P.fn('jls_core_scan_sources')
    for f in (wsig, rsig, cp, wsrc, rsrc):
        ctx.saw(f)
    SIG = P.enum_consts['JLS_TAG_SIGNAL_DEF']
    SRC = P.enum_consts['JLS_TAG_SOURCE_DEF']

    def norm(seq):
        return [(k, w, n) for (k, w, n) in seq]

    pairs = [
        ('SIGNAL_DEF', ser.sequence(wsig, _calls(wsig, ser.WR)), [
            ('reader handle_signal_def', rsig, ser.sequence(rsig, _calls(rsig, ser.RD))),
            ('jls_copy case SIGNAL_DEF', cp, ser.sequence(cp, _calls(cp, ser.RD, ser.case_region(cp, 'tag', SIG)))),
        ], wsig),
        ('SOURCE_DEF', ser.sequence(wsrc, _calls(wsrc, ser.WR)), [
            ('reader jls_core_scan_sources', rsrc, ser.sequence(rsrc, _calls(rsrc, ser.RD))),
            ('jls_copy case SOURCE_DEF', cp, ser.sequence(cp, _calls(cp, ser.RD, ser.case_region(cp, 'tag', SRC)))),
        ], wsrc),
    ]
    for name, wseq, readers, wfn in pairs:
        if len(wseq) < 5:
            raise AnalysisBroken('%s writer sequence too short: %s' % (name, wseq))
        for rname, rfn, rseq in readers:
            ok = len(wseq) == len(rseq)
            detail = '%d operations agree' % len(wseq)
            if ok:
                for i, (a, b) in enumerate(zip(wseq, rseq)):
                    same_kind = a[0] == b[0] and a[1] == b[1]
                    same_field = a[0] == 'pad' or a[2] == b[2]
                    if not (same_kind and same_field):
                        ok = False
                        detail = 'operation %d differs: writer %s, %s %s' % (i, a, rname, b)
                        break
            else:
                detail = 'writer has %d operations %s, %s has %d %s' % (len(wseq), [t[2] or t[0] for t in wseq], rname, len(rseq), [t[2] or t[0] for t in rseq])
            ctx.ob('C13.1', ok, rfn.name, '%s layout vs writer' % name, rfn.where(), detail)
    # byte order of scalar serializers
    for wname, rname, width in (('jls_buf_wr_u16', 'jls_buf_rd_u16', 2), ('jls_buf_wr_u32', 'jls_buf_rd_u32', 4), ('jls_buf_wr_i64', None, 8), ('jls_buf_wr_u8', 'jls_buf_rd_u8', 1)):
        w = P.fn(wname)
        ctx.saw(w)
        shifts = []
        for ev in ser.ordered(w, [e for e in w.events('store') if _is_cur_store(w, e)]):
            rhs = ev.store_parts()[1]
            shifts.append(_shift_of(rhs))
        ok = shifts == [8 * i for i in range(width)]
        ctx.ob('C13.1', ok, wname, 'little-endian byte order', w.where(), 'byte i carries value >> %s' % shifts)
        if rname:
            r = P.fn(rname)
            ctx.saw(r)
            got = set()
            for ev in r.events('store'):
                lhs, rhs, o = ev.store_parts()
                if strip_casts(lhs).get('op') == 'un' and rhs is not None:
                    _collect_rd(rhs, 0, got)
            want = set((i, 8 * i) for i in range(width))
            ctx.ob('C13.1', got == want, rname, 'little-endian byte order', r.where(), 'cur[i] << s pairs %s' % sorted(got))
    # string terminator
    ws = P.fn('jls_buf_wr_str')
    rs = P.fn('jls_buf_rd_str')
    wterm = [const_of(ev.store_parts()[1]) for ev in ser.ordered(ws, [e for e in ws.events('store') if _is_cur_store(ws, e)])]
    ctx.ob('C13.1', wterm == [0, 0x1f], 'jls_buf_wr_str', 'terminator {0, 0x1f}', ws.where(), 'writes %s after the characters' % wterm)
    rterm = set()
    for b in rs.blocks.values():
        e = strip_casts(b.cond) if b.cond else None
        if e is not None and e.get('op') == 'bin' and e['o'] in ('==', '!=') and const_of(e['k'][1]) is not None:
            rterm.add(const_of(e['k'][1]))
    ctx.ob('C13.1', {0, 0x1f} <= rterm, 'jls_buf_rd_str', 'terminator {0, 0x1f}', rs.where(), 'compares against %s' % sorted(rterm))


def _is_cur_store(fn, ev):
    lhs = strip_casts(ev.store_parts()[0])
    if lhs.get('op') == 'un' and lhs['o'] == '*':
        inner = strip_casts(lhs['k'][0])
        return any(n.get('op') == 'member' and n.get('field') == 'cur' for n in walk(inner))
    return False


def _shift_of(e):
    e = strip_casts(e)
    while e is not None and e.get('op') == 'bin' and e['o'] == '&':
        e = strip_casts(e['k'][0])
    if e is not None and e.get('op') == 'bin' and e['o'] == '>>':
        return const_of(e['k'][1])
    if e is not None and e.get('op') in ('ref',):
        return 0
    if e is not None and e.get('op') == 'un':
        return 'ptr'
    return None


def _collect_rd(e, shift, got):
    e = strip_casts(e)
    if e is None:
        return
    if e.get('op') == 'bin' and e['o'] in ('|', '+'):
        _collect_rd(e['k'][0], shift, got)
        _collect_rd(e['k'][1], shift, got)
    elif e.get('op') == 'bin' and e['o'] == '<<' and const_of(e['k'][1]) is not None:
        _collect_rd(e['k'][0], shift + const_of(e['k'][1]), got)
    elif e.get('op') == 'sub':
        got.add((const_of(e['k'][1]), shift))


def r2(ctx, P):
    """In both *_def writers: no call that reaches jls_bk_fwrite lies on a path that later returns the
    identity errors, and the identity checks dominate every such call."""
    writes = set(f.name for f in P.all_functions() if 'jls_bk_fwrite' in P.reachable_from([f.name]))
    for fname, checks in (('jls_wr_source_def', ['JLS_ERROR_ALREADY_EXISTS']),
                          ('jls_wr_signal_def', ['JLS_ERROR_ALREADY_EXISTS', 'JLS_ERROR_NOT_FOUND'])):
        f = P.fn(fname)
        ctx.saw(f)
        wcalls = [ev for ev in f.calls() if ev.callee in writes]
        if not wcalls:
            raise AnalysisBroken('%s: no call that writes found' % fname)
        for code in checks:
            cv = P.enum_consts[code]
            rets = [r for r in f.returns() if r.e is not None and const_of(strip_casts(r.e)) == cv]
            ctx.ob('C13.2', bool(rets), fname, 'returns %s' % code, f.where(), '%d return(s)' % len(rets) if rets else 'the identity check is gone')
            for r in rets:
                # no write call can precede this return
                bad = None
                for wcall in wcalls:
                    w = find_path(f, wcall, lambda e2, facts: 'target' if e2 is r else None)
                    if w is not None:
                        bad = (wcall, w)
                        break
                ctx.ob('C13.2', bad is None, fname, '%s is decided before any write' % code, r.where(),
                       'no writing call precedes the rejection' if bad is None else '%s() at line %d can run before the definition is rejected' % (bad[0].callee, bad[0].ln),
                       bad[1].render() if bad else None)
        # the persistent definition slot is written only after the identity checks
        slot = '.signal_def' if 'signal' in fname else '.source_def'
        slot_stores = []
        for ev in f.events():
            if ev.k in ('store', 'decl'):
                lp_ = f.path(strip_casts(ev.store_parts()[0]))
                if lp_ is not None and slot in tuple(lp_) and lp_.root_kind == 'param':
                    slot_stores.append(ev)
            elif ev.k == 'call':
                for a_ in ev.args:
                    a0 = strip_casts(a_)
                    if a0.get('op') == 'un' and a0['o'] == '&':
                        lp_ = f.path(a0)
                        if lp_ is not None and slot in tuple(lp_) and lp_.root_kind == 'param':
                            slot_stores.append(ev)
        for code in checks:
            cv = P.enum_consts[code]
            for r in [r_ for r_ in f.returns() if r_.e is not None and const_of(strip_casts(r_.e)) == cv]:
                bad = None
                for st_ in slot_stores:
                    w = find_path(f, st_, lambda e2, facts: 'target' if e2 is r else None)
                    if w is not None:
                        bad = (st_, w)
                        break
                ctx.ob('C13.2', bad is None, fname, '%s is decided before the definition slot is touched' % code, r.where(),
                       'slot written only after the identity checks' if bad is None else
                       'the in-memory definition of the id is overwritten at line %d before the call is rejected: a rejected duplicate changes what later data is stored as' % bad[0].ln,
                       bad[1].render() if bad else None)
        # the 'defined' marker (chunk_def.offset) is set only when the chunk is written next
        for c_ in [c_ for c_ in chunks.constructors(P) if c_.fn is f and c_.obj.root_kind == 'param']:
            def on_ev(e2, facts, c_=c_):
                if any(e2 is w_ for w_ in c_.wr_calls):
                    return 'stop'
                if e2.k == 'ret':
                    return 'target'
                return None
            w = find_path(f, c_.offset_store, on_ev)
            ctx.ob('C13.2', w is None and bool(c_.wr_calls), fname, 'the defined-marker %s.offset is set only when the chunk is written' % c_.obj, c_.offset_store.where(),
                   'every path from the marker passes jls_raw_wr' if (w is None and c_.wr_calls) else
                   'a return is reachable after the id was marked as defined but before its chunk is written: a failed definition leaves the id usable / blocks a valid redefinition',
                   w.render() if w else None)
        # every error return after the first write is an I/O propagation (not a constant parameter error)
        for r in f.returns():
            if r.e is None:
                continue
            c = const_of(strip_casts(r.e))
            if c in (P.enum_consts['JLS_ERROR_PARAMETER_INVALID'],):
                bad = None
                for wcall in wcalls:
                    w = find_path(f, wcall, lambda e2, facts: 'target' if e2 is r else None)
                    if w is not None:
                        bad = wcall
                        break
                ctx.ob('C13.2', bad is None, fname, 'PARAMETER_INVALID is decided before any write', r.where(),
                       'ok' if bad is None else 'a parameter error is returned after %s() already wrote to the file' % bad.callee)
        # validation / alignment calls dominate the first write (signal def)
        if fname == 'jls_wr_signal_def':
            for need in ('jls_core_signal_def_validate', 'jls_core_signal_def_align'):
                cs = list(f.calls(need))
                ok = bool(cs) and all(any(ev_dominates(c, wc) for c in cs) for wc in wcalls)
                ctx.ob('C13.2', ok, fname, '%s before the first write' % need, f.where(),
                       'dominates every writing call' if ok else '%s does not dominate the writing calls' % need)
                for c in cs:
                    okc, how = consumed(f, c)
                    ctx.ob('C13.2', okc, fname, 'result of %s()' % need, c.where(), how)


def r3(ctx, P):
    G = Gates(P)
    n = 0
    for f in P.all_functions():
        if not (f.api and f.name.startswith('jls_wr_')):
            continue
        ids = [p['name'] for p in f.params if p['name'] == 'signal_id' and p['t'] == 'u16']
        if not ids:
            continue
        n += 1
        ctx.saw(f)
        v = ids[0]
        san = G.sanitizing_edges_lt(f, v, 256)
        # every call that can write, and every subscript by the id, lies behind the gate
        writes = [ev for ev in f.calls() if ev.callee and ev.callee not in ('jls_log_printf',) and not ev.callee.startswith('jls_core_signal_validate')
                  and not ev.callee.startswith('jls_core_validate_track_tag')]
        first = None
        for ev in writes:
            w = find_path(f, 'entry', lambda e2, facts: 'target' if e2 is ev else None, edge_ok=lambda b, s, label: (b.id, label) not in san, refine=False)
            if w is not None:
                first = (ev, w)
                break
        ctx.ob('C13.3', first is None and bool(san), f.name, 'gate on signal_id before any effect', f.where(),
               'every call is behind a consumed validation of the id' if first is None and san else
               ('no validation gate' if not san else '%s() is reachable without the id having been validated' % first[0].callee),
               first[1].render() if first else None)
    ctx.floor('writer entries taking a signal id', n, 5)
    gate_implies_defined(ctx, P, 'C13.3')


def gate_implies_defined(ctx, P, rule):
    from ..graph import find_path, ret_class
    # the gate rejects undefined ids: every zero return passes the equal edge of signal_def.signal_id == id and the non-zero edge of chunk_def.offset
    g = P.fn('jls_core_signal_validate')
    ctx.saw(g)
    defined_edges = set()
    offset_edges = set()
    for b in g.blocks.values():
        e = strip_casts(b.cond) if b.cond else None
        if e is None:
            continue
        neg = False
        while e.get('op') == 'un' and e['o'] == '!':
            neg = not neg
            e = strip_casts(e['k'][0])
        if e.get('op') == 'bin' and e['o'] in ('==', '!='):
            fields = [nd.get('field') for nd in walk(e) if nd.get('op') == 'member']
            names = [nd.get('name') for nd in walk(e) if nd.get('op') == 'ref']
            if 'signal_id' in fields and 'signal_id' in names:
                eq_true = (e['o'] == '==') != neg
                defined_edges.add((b.id, 'T' if eq_true else 'F'))
        elif e.get('op') == 'member' and e.get('field') == 'offset':
            offset_edges.add((b.id, 'F' if neg else 'T'))
    for what, edges in (('signal_def.signal_id == id', defined_edges), ('chunk_def.offset != 0', offset_edges)):
        if not edges:
            ctx.ob(rule, False, g.name, 'gate tests %s' % what, g.where(), 'test not found')
            continue
        w = find_path(g, 'entry', lambda ev, facts: 'target' if ev.k == 'ret' and ret_class(g, ev, facts) in ('zero', 'unknown') else None,
                      edge_ok=lambda b, s, label: (b.id, label) not in edges, refine=False)
        # the failing edge must not return zero
        ok = True
        detail = 'every zero return passes the pass edge'
        if w is not None:
            ok = False
            detail = 'a zero return is reachable although %s does not hold' % what
        ctx.ob(rule, ok, g.name, 'zero return implies %s' % what, g.where(), detail, w.render() if w else None)


def r4(ctx, P):
    w = P.fn('jls_wr_user_data')
    r = P.fn('jls_core_user_data')
    cp = P.fn('jls_copy')
    for f in (w, r, cp):
        ctx.saw(f)

    def consts(fn, pred):
        out = set()
        for b in fn.blocks.values():
            items = [ev.e for ev in b.events if ev.e is not None]
            if b.cond is not None:
                items.append(b.cond)
            for e in items:
                for nd in walk(e):
                    if nd.get('op') == 'bin' and nd['o'] in ('<<', '>>', '&', '<<=', '>>=', '&=') and pred(fn, nd):
                        c = const_of(nd['k'][1])
                        if c is not None:
                            out.add((nd['o'].rstrip('='), c))
        return out

    def about_meta(fn, nd):
        return any((x.get('op') == 'member' and x.get('field') == 'chunk_meta') or (x.get('op') == 'ref' and x.get('name') in ('chunk_meta', 'storage_type'))
                   for x in walk(nd['k'][0]))
    wc = consts(w, about_meta)
    rc = consts(r, about_meta)
    USER = P.enum_consts['JLS_TAG_USER_DATA']
    cc = set()
    for ev in ser.case_region(cp, 'tag', USER):
        if ev.e is None:
            continue
        for nd in walk(ev.e):
            if nd.get('op') == 'bin' and nd['o'] in ('>>', '&') and about_meta(cp, nd) and const_of(nd['k'][1]) is not None:
                cc.add((nd['o'], const_of(nd['k'][1])))
    ctx.ob('C13.4', ('<<', 12) in wc and ('&', 0x0fff) in wc, w.name, 'pack storage_type << 12 | meta & 0x0fff', w.where(), 'constants %s' % sorted(wc))
    ctx.ob('C13.4', ('>>', 12) in rc and ('&', 0x0fff) in rc and ('&', 0x0f) in rc, r.name, 'unpack >> 12 & 0x0f, & 0x0fff', r.where(), 'constants %s' % sorted(rc))
    ctx.ob('C13.4', ('>>', 12) in cc and ('&', 0x0fff) in cc, cp.name, 'copy unpacks with the same shift and mask', cp.where(), 'constants %s' % sorted(cc))


def r5(ctx, P):
    for fname, arr, idf, count in (('jls_core_sources', 'source_info', 'source_id', 'JLS_SOURCE_COUNT'), ('jls_core_signals', 'signal_info', 'signal_id', 'JLS_SIGNAL_COUNT')):
        f = P.fn(fname)
        ctx.saw(f)
        lp = loops(f)
        ok = False
        detail = 'no loop'
        for hdr, body in lp.items():
            # loop condition i < COUNT (256), validity test <arr>[i].<def>.<idf> == i
            bound = None
            test = False
            for bid in body:
                c = f.blocks[bid].cond
                e = strip_casts(c) if c else None
                if e is None or e.get('op') != 'bin':
                    continue
                if e['o'] == '<' and const_of(e['k'][1]) is not None and strip_casts(e['k'][0]).get('op') == 'ref':
                    bound = (strip_casts(e['k'][0])['name'], const_of(e['k'][1]))
                if e['o'] == '==':
                    l, r = strip_casts(e['k'][0]), strip_casts(e['k'][1])
                    for x, y in ((l, r), (r, l)):
                        if x.get('op') == 'member' and x.get('field') == idf and y.get('op') == 'ref' and \
                                any(nd.get('op') == 'sub' and var_of(f, nd['k'][1]) == y['name'] for nd in walk(x)):
                            test = y['name']
            rec = 'jls_core_s'
            extent = [fl for fl in P.record(rec)['fields'] if fl['name'] == arr]
            ext = int(extent[0]['t'].split(':')[0][1:]) if extent else None
            if bound and test and bound[0] == test and bound[1] == ext:
                init0 = any(ev.k in ('decl', 'store') and var_of(f, ev.store_parts()[0]) == test and const_of(ev.store_parts()[1]) == 0 for ev in f.stores())
                ok = init0
                detail = 'loop %s = 0 .. %d, tests %s[%s].%s == %s' % (test, bound[1] - 1, arr, test, idf, test)
            else:
                detail = 'loop bound %s, validity test on %s, table extent %s' % (bound, test, ext)
        ctx.ob('C13.5', ok, fname, 'enumerates ids in order', f.where(), detail)


def r6(ctx, P, exc):
    """copies into jls_buf_strings_s.buffer (through .cur) are bounded by the block size"""
    size = None
    for fl in P.record('jls_buf_strings_s')['fields']:
        if fl['name'] == 'buffer':
            size = fl['size_bits'] // 8
    n = 0
    for fn in P.fns_in('src/buffer.c'):
        for mc in fn.calls(('memcpy', '__builtin_memcpy', '__builtin___memcpy_chk')):
            d = strip_casts(mc.args[0])
            p = fn.path(d)
            if p is None or p.last_field() != 'cur':
                continue
            # destination is a string block cursor?
            t = None
            for nd in walk(d):
                if nd.get('op') == 'member' and nd.get('field') == 'cur':
                    t = nd.get('rec')
            if t != 'jls_buf_strings_s':
                continue
            n += 1
            ctx.saw(fn, 1)
            lv = var_of(fn, mc.args[2])
            san = set()
            for b in fn.blocks.values():
                e = strip_casts(b.cond) if b.cond else None
                if e is None or e.get('op') != 'bin' or e['o'] not in ('<', '<=', '>', '>='):
                    continue
                l, r = e['k']
                for x, y, flip in ((l, r, False), (r, l, True)):
                    if var_of(fn, x) == lv and lv is not None:
                        c = const_of(y)
                        is_cap = c is not None and c <= size
                        # sizeof(s->buffer) folds to the constant too
                        if is_cap:
                            o = e['o']
                            if flip:
                                o = {'<': '>', '>': '<', '<=': '>=', '>=': '<='}[o]
                            san.add((b.id, 'T' if o in ('<', '<=') else 'F'))
            # a length that is the distance between two pointers into one string block, copied into a
            # block allocated just before, is bounded by that block's size (C13.8 rejects the whole-block case)
            lsrc = df.resolve_local(fn, mc.args[2], mc.block, mc.idx)
            bl = _block_locals(fn)
            if lsrc is not None and lsrc.get('op') == 'bin' and lsrc['o'] == '-' and \
                    all(strip_casts(k).get('op') == 'ref' and strip_casts(k).get('name') in bl for k in lsrc['k']) and \
                    any(ev_dominates(c, mc) for c in fn.calls('strings_alloc')):
                ctx.ob('C13.6', True, fn.name, 'copy of %s bytes into a string block' % (lv or show(mc.args[2])), mc.where(),
                       'the length is the distance between two pointers into the previous block and the destination block is new (whole-block strings: C13.8)')
                continue
            w = find_path(fn, 'entry', lambda e2, facts: 'target' if e2 is mc else None,
                          edge_ok=lambda b, s, label: (b.id, label) not in san, refine=False)
            ctx.ob('C13.6', w is None, fn.name, 'copy of %s bytes into a string block' % (lv or show(mc.args[2])), mc.where(),
                   'length compared with the block capacity on every path' if w is None else
                   'a string of %d bytes or more is copied into the %d-byte block without a bound check (the refill allocates one more block of the same size)' % (size, size),
                   w.render() if w else None)
    ctx.floor('copies into string blocks', n, 1)
    for fn, ev in P.callers().get('jls_buf_string_save', []):
        ctx.saw(fn, 1)
        ok, how = consumed(fn, ev)
        ctx.ob('C13.6', ok, fn.name, 'result of jls_buf_string_save()', ev.where(),
               how if ok else 'a string that does not fit is reported only through this result; ignoring it keeps the caller\'s pointer in the stored definition')


def _block_locals(fn):
    """locals whose value is (derived from) a pointer into the current string block"""
    bl = set()
    changed = True
    while changed:
        changed = False
        for ev in fn.stores():
            lhs, rhs, o = ev.store_parts()
            l0 = strip_casts(lhs)
            if l0.get('op') != 'ref' or l0.get('rk') != 'local' or l0['name'] in bl or rhs is None:
                continue
            if not l0.get('t', '').startswith('p:'):
                continue
            for n in walk(rhs):
                if (n.get('op') == 'member' and n.get('field') == 'strings_tail') or \
                        (n.get('op') == 'ref' and n.get('rk') == 'local' and n.get('name') in bl):
                    bl.add(l0['name'])
                    changed = True
                    break
    return bl


def _gen(e, bl, stale):
    """generations of string-block pointers mentioned in e: {'old', 'new'}"""
    g = set()
    for n in walk(e):
        if n.get('op') == 'ref' and n.get('rk') == 'local' and n.get('name') in bl:
            g.add('old' if n['name'] in stale else 'new')
        elif n.get('op') == 'member' and n.get('field') == 'strings_tail':
            g.add('new')
    return g


def r8(ctx, P):
    """generation discipline around a switch of the current string block"""
    switchers = set()
    for fn in P.fns_in('src/buffer.c'):
        for ev in fn.stores():
            p = fn.path(ev.store_parts()[0])
            if p is not None and p.last_field() == 'strings_tail' and ev.k == 'store':
                rhs = ev.store_parts()[1]
                if rhs is not None and const_of(rhs) != 0:
                    switchers.add(fn.name)
    ctx.note('C13.8: string-block switchers derived: %s' % sorted(switchers))
    n = 0
    nloop = 0
    for fn in P.fns_in('src/buffer.c'):
        if fn.name in switchers:
            continue
        sw = [c for c in fn.calls() if c.callee in switchers]
        if not sw:
            continue
        bl = _block_locals(fn)
        if not bl:
            continue
        ctx.saw(fn, len(sw))
        lp = loops(fn)
        for call in sw:
            n += 1
            # ---- walk every path from the switch, tracking which block locals still point into the old block
            start = (call.block.id, call.idx + 1, frozenset(bl))
            seen = {start}
            work = [(start, [(call.block.id, call.ln, 'switch')])]
            viol = {}
            stale_loads = []       # (event, local) loads through an old-block pointer (the carry-over)
            stale_copies = []      # memcpy-style carry-over
            while work:
                (bid, idx, stale), trail = work.pop()
                b = fn.blocks[bid]
                stop = False
                for ev in b.events[idx:]:
                    if ev.k == 'call' and ev.callee in switchers:
                        stop = True      # a new switch starts its own walk
                        break
                    if ev.k == 'call' and ev.callee in ('memcpy', 'memmove', '__builtin_memcpy', '__builtin___memcpy_chk', '__builtin_memmove', '__builtin___memmove_chk') and len(ev.args) >= 3:
                        if 'old' in _gen(ev.args[0], bl, stale):
                            viol.setdefault(('store', ev.ln), (ev, 'a copy into the block that was current before the switch', trail + [(bid, ev.ln, 'copy')]))
                        if _gen(ev.args[1], bl, stale) == {'old'}:
                            stale_copies.append(ev)
                    if ev.k in ('store', 'decl'):
                        lhs, rhs, o = ev.store_parts()
                        l0 = strip_casts(lhs)
                        if l0.get('op') == 'ref' and l0.get('rk') == 'local' and l0.get('name') in bl:
                            if rhs is not None and o == '=':
                                g = _gen(rhs, bl, stale)
                                if g == {'new'}:
                                    stale = stale - {l0['name']}
                                elif 'old' in g:
                                    stale = stale | {l0['name']}
                            continue
                        # store through a pointer: which generation is the destination?
                        if l0.get('op') in ('un', 'member', 'sub'):
                            gd = _gen(lhs, bl, stale)
                            if 'old' in gd and ev.k == 'store' and not (rhs is None and l0.get('op') == 'member' and False):
                                viol.setdefault(('store', ev.ln), (ev, 'a store through %s, which still points into the block that was current before the switch' %
                                                                  '/'.join(sorted(x for x in stale if any(m.get('name') == x for m in walk(lhs)))), trail + [(bid, ev.ln, 'store')]))
                            if rhs is not None:
                                for m in walk(rhs):
                                    if m.get('op') == 'ref' and m.get('name') in stale and m.get('rk') == 'local':
                                        stale_loads.append((ev, m['name']))
                if stop:
                    continue
                if b.cond is not None:
                    for c in walk(b.cond):
                        if c.get('op') == 'bin' and c['o'] in ('<', '<=', '>', '>=', '==', '!='):
                            gl = _gen(c['k'][0], bl, stale)
                            gr = _gen(c['k'][1], bl, stale)
                            if (gl == {'old'} and gr == {'new'}) or (gl == {'new'} and gr == {'old'}):
                                viol.setdefault(('cmp', b.id), (b, 'the compare %s takes one side from the new block and the other (%s) from the block that was current before the switch' %
                                                                (show(c), ', '.join(sorted(x for x in stale if any(m.get('name') == x for m in walk(c))))),
                                                                trail + [(bid, c.get('ln', b.line), 'compare')]))
                for s2, label in b.succs:
                    st = (s2.id, 0, stale)
                    if st not in seen:
                        seen.add(st)
                        work.append((st, trail + [(s2.id, s2.line, '')] if len(trail) < 12 else trail))
            ok = not viol
            v = next(iter(viol.values())) if viol else None
            from ..graph import Witness
            ctx.ob('C13.8', ok, fn.name, 'pointers after %s()' % call.callee, call.where(),
                   'every compare and store after the switch uses one block generation' if ok else v[1],
                   Witness(v[2]).render() if v else None)
            # ---- inside a loop: carry-over extent and whole-block strings
            in_loop = [h for h, body in lp.items() if call.block.id in body]
            if not in_loop:
                continue
            nloop += 1
            # the carry-over loop: a loop with a load through an old-block pointer; its bound
            cl = None
            for ev, name in stale_loads:
                for h, body in lp.items():
                    if ev.block.id in body and call.block.id not in body:
                        cl = (h, body, name)
            if cl is None and stale_copies:
                mc = stale_copies[0]
                from_cur = df.derives(fn, mc.args[2], lambda m: m.get('op') == 'member' and m.get('field') == 'cur' and m.get('rec') == 'jls_buf_strings_s',
                                      mc.block, mc.idx, must=True)
                ctx.ob('C13.8', from_cur, fn.name, 'carry-over after %s()' % call.callee, mc.where(),
                       'copies %s bytes, measured from the old block\'s cursor' % show(mc.args[2]) if from_cur else
                       'the carry-over length %s is not measured from the old block\'s cursor' % show(mc.args[2]))
            elif cl is None:
                ctx.ob('C13.8', False, fn.name, 'carry-over after %s()' % call.callee, call.where(),
                       'the switch happens in the middle of a string, yet nothing copies the part already stored in the old block')
            else:
                h, body, name = cl
                hb = fn.blocks[h]
                conds = [fn.blocks[x] for x in body if fn.blocks[x].cond is not None and any(s3.id not in body for s3, _ in fn.blocks[x].succs)]
                ok2, detail = False, 'the carry-over loop has no bound on %s' % name
                for cb in conds:
                    c = strip_casts(cb.cond)
                    if c.get('op') != 'bin' or c['o'] not in ('<', '<=', '!=', '>', '>='):
                        continue
                    l, r = c['k']
                    if var_of(fn, r) == name:
                        l, r = r, l
                        o = {'<': '>', '>': '<', '<=': '>=', '>=': '<=', '!=': '!='}[c['o']]
                    else:
                        o = c['o']
                    if var_of(fn, l) != name:
                        continue
                    from_cur = df.derives(fn, r, lambda m: m.get('op') == 'member' and m.get('field') == 'cur' and m.get('rec') == 'jls_buf_strings_s',
                                          cb, len(cb.events), must=True)
                    # the bound is taken before the switch (it describes the old block)
                    r0 = strip_casts(r)
                    taken_before = True
                    if r0.get('op') == 'ref' and r0.get('rk') == 'local':
                        defs, _ = df.reaching_defs(fn, r0['name'], cb, len(cb.events))
                        taken_before = all(not ev_dominates(call, d) for d in defs)
                    else:
                        taken_before = False
                    if not from_cur:
                        detail = 'the carry-over copies %s up to %s, which is not the old block\'s cursor: bytes that were never written are copied into the string' % (name, show(r))
                    elif not taken_before:
                        detail = 'the carry-over bound %s is read after the switch (it describes the new block)' % show(r)
                    elif o not in ('<', '!='):
                        detail = 'the carry-over copies one byte past the old block\'s cursor (%s)' % show(c)
                    else:
                        ok2, detail = True, 'copies [%s, %s) — the bytes written to the old block' % (name, show(r))
                ctx.ob('C13.8', ok2, fn.name, 'carry-over after %s()' % call.callee, hb.where() if hasattr(hb, 'where') else call.where(), detail)
            # a string that fills a whole block is rejected before the switch
            cdt = control_deps_transitive(fn, call.block.id)
            sw_conds = {a for (a, lab) in cdt if any(a in body for body in [lp[h2] for h2 in in_loop])}
            found = None
            for rv in fn.returns():
                if ret_class(fn, rv, frozenset()) != 'nonzero':
                    continue
                rcd = control_deps(fn).get(rv.block.id, set())
                for (a, lab) in rcd:
                    cb = fn.blocks[a]
                    if cb.cond is None or a not in {x for h2 in in_loop for x in lp[h2]}:
                        continue
                    names = {m.get('name') for m in walk(cb.cond) if m.get('op') == 'ref' and m.get('rk') == 'local'}
                    if names & bl and any(m.get('op') == 'member' and m.get('field') == 'buffer' for m in walk(cb.cond)) or \
                            (names & bl and any(const_of(m) is not None and const_of(m) >= 1024 for m in walk(cb.cond))):
                        # and it sits on the switch branch, before the switch
                        rt = control_deps_transitive(fn, rv.block.id)
                        if sw_conds & {x for (x, _) in rt} and not ev_dominates(call, rv):
                            found = rv
            ctx.ob('C13.8', found is not None, fn.name, 'whole-block string before %s()' % call.callee, call.where(),
                   'rejected at %s' % found.where() if found else
                   'a string longer than one string block is carried over in full again and again: no exit on the switch branch compares the string start with the block start (or its length with the capacity)')
    ctx.floor('string-block switch sites', n, 2)
    ctx.floor('string-block switches inside a loop', nloop, 1)


def r7(ctx, P, exc):
    from .c10 import USER_STRUCTS
    n = 0
    for fn in P.all_functions():
        for ev in fn.calls():
            if ev.callee not in ('strlen', 'jls_buf_string_save', 'strcpy', 'memcpy', '__builtin_strlen'):
                continue
            for i, a in enumerate(ev.args):
                a0 = strip_casts(a)
                if a0.get('op') != 'member' or a0.get('rec') not in USER_STRUCTS or not a0.get('t', '').startswith('p:'):
                    continue
                if ev.callee == 'jls_buf_string_save' and i != 1:
                    continue
                n += 1
                ctx.saw(fn, 1)
                # callee tolerates NULL?
                tolerant = False
                g = P.functions.get(ev.callee)
                if g is not None:
                    from .c10 import rule_e15  # noqa
                    v = g.params[i]['name']
                    w = find_path(g, 'entry', lambda e2, facts: 'target' if (e2.k == 'call' and e2.callee in ('strlen', 'memcpy', '__builtin_memcpy', '__builtin___memcpy_chk', '__builtin_strlen')
                                                                               and any(var_of(g, x) == v for x in e2.args)) else None,
                                  start_facts=frozenset([(v, 'eq', 0)]))
                    tolerant = w is None
                san = set()
                vk = None
                from ..ir import path_of
                pp = path_of(a0)
                vk = str(pp) if pp is not None else None
                for b in fn.blocks.values():
                    for label in ('T', 'F'):
                        for (var, kind, c) in cond_facts(fn, b.cond, label):
                            if var == vk and kind == 'ne' and c == 0:
                                san.add((b.id, label))
                w2 = None
                if not tolerant:
                    w2 = find_path(fn, 'entry', lambda e2, facts: 'target' if e2 is ev else None,
                                   edge_ok=lambda b, s, label: (b.id, label) not in san, refine=False)
                ctx.ob('C13.7', tolerant or w2 is None, fn.name, '%s(%s)' % (ev.callee, show(a0)), ev.where(),
                       'callee accepts NULL' if tolerant else ('NULL tested first' if w2 is None else
                       'an absent (NULL) string in the user\'s definition is passed to %s(), which dereferences it' % ev.callee),
                       w2.render() if w2 else None)
    ctx.floor('user string uses', n, 2)


def r9(ctx, P, rule='C13.9', names=('jls_core_user_data',), minimum=1):
    """delivery loops do not skip what they read"""
    n = 0
    for fn in P.fns_in('src/reader.c'):
        if fn.name not in names:
            continue
        cb = [p['name'] for p in fn.params if p.get('t', '').startswith('p:fn')]
        if not cb:
            continue
        calls_cb = [ev for ev in fn.calls() if ev.callee in cb or (ev.e.get('callee') is None and (ev.e.get('fn') or {}).get('name') in cb)]
        if not calls_cb:
            continue
        lp = loops(fn)
        reads = [c for c in fn.calls(('jls_core_rd_chunk',)) if any(c.block.id in body for body in lp.values())]
        for rd in reads:
            body = None
            for h, bd in lp.items():
                if rd.block.id in bd and (body is None or len(bd) < len(body[1])):
                    body = (h, bd)
            h, bd = body
            if not any(c.block.id in bd for c in calls_cb):
                continue
            n += 1
            ctx.saw(fn, 1)
            # from the successful read: reach the loop header again without the callback
            from ..guard import zero_edges_of_call
            okedges = zero_edges_of_call(fn, rd)
            starts = [(fn.blocks[bid], [i for i, (s_, l_) in enumerate(fn.blocks[bid].succs) if l_ == lab][0]) for (bid, lab) in okedges
                      if any(l_ == lab for s_, l_ in fn.blocks[bid].succs)]
            w = None
            for st in starts or [rd]:
                def on_event(e2, facts):
                    if e2 in calls_cb:
                        return 'stop'
                    if e2.k == 'ret':
                        return 'stop'
                    if e2 is rd or (e2.k == 'call' and e2.callee in ('jls_core_rd_chunk',) and e2.block.id in bd):
                        return 'target'
                    return None
                w = w or find_path(fn, st, on_event, refine=False)
            ctx.ob(rule, w is None, fn.name, 'every chunk read in the delivery loop reaches the callback', rd.where(),
                   'no path from the read to the next read bypasses the callback' if w is None else
                   'a stored item can be skipped silently: a path leads from a successfully read chunk to the next iteration without calling the callback',
                   w.render() if w else None)
    ctx.floor('delivery loops', n, minimum)


def storage_types_rule(ctx, P, rule):
    """every storage type the user-data writer accepts is one the reader delivers"""
    w = P.fn('jls_wr_user_data')
    r = P.fn('jls_core_user_data')
    ctx.saw(w)
    ctx.saw(r)
    names = {it['v']: it['name'] for it in P.enum('jls_storage_type_e')['items']}

    def arms(fn, param_like):
        out = {}
        for b in fn.blocks.values():
            cases = [(s, lab) for s, lab in b.succs if isinstance(lab, tuple) and lab[0] in ('case', 'default')]
            if not cases or b.cond is None:
                continue
            if not any(m.get('op') == 'ref' and param_like in (m.get('name') or '') for m in walk(b.cond)):
                continue
            for i_, (s, lab) in enumerate(b.succs):
                if isinstance(lab, tuple) and lab[0] == 'case':
                    for v in lab[1]:
                        out[v] = (b, i_)
        return out
    wa, ra = arms(w, 'storage_type'), arms(r, 'storage_type')
    if len(wa) < 3 or len(ra) < 3:
        raise AnalysisBroken('storage type switches: writer %s reader %s' % (sorted(wa), sorted(ra)))
    wr = list(w.calls('jls_raw_wr'))
    cbs = [ev for ev in r.events('call') if ev.callee is None]
    if not wr or not cbs:
        raise AnalysisBroken('jls_wr_user_data / jls_core_user_data: write or callback not found')
    guard_blocks = {b.id for b in w.blocks.values() if b.cond is not None and any(m.get('op') == 'member' and m.get('field') == 'user_data_head' for m in walk(b.cond))}
    delivered = {v for v, st in ra.items() if find_path(r, st, lambda e2, facts: 'target' if e2 in cbs else ('stop' if e2.k == 'ret' else None), refine=False) is not None}
    n = 0
    for v, st in sorted(wa.items()):
        reaches = find_path(w, st, lambda e2, facts: 'target' if e2 in wr else ('stop' if e2.k == 'ret' else None), refine=False,
                            edge_ok=lambda b_, s_, lab: b_.id not in guard_blocks)
        if reaches is None:
            continue          # rejected, or accepted only for the placeholder that opens the list
        n += 1
        ctx.ob(rule, v in delivered, w.name, 'storage type %s is accepted' % names.get(v, v), w.where(),
               'the reader delivers items of this type' if v in delivered else
               'the writer stores an item of type %s anywhere in the list, but jls_core_user_data returns an error when it meets one: every item written after it can no longer be read' % names.get(v, v))
    ctx.floor('accepted user-data storage types', n, 3)


def carry_cursor_rule(ctx, P, rule):
    """after a string block switch, what is carried over into the new block is followed by the block's cursor"""
    n = 0
    for fn in P.fns_in('src/buffer.c'):
        sw = [c for c in fn.calls() if c.callee == 'strings_alloc']
        bulk = [c for c in fn.calls(('memcpy', '__builtin_memcpy', '__builtin___memcpy_chk', 'memmove', '__builtin_memmove'))]
        if not sw or not bulk:
            continue
        for c in bulk:
            # a bulk copy that can follow a block switch
            if not any(find_path(fn, s_, lambda e2, facts: 'target' if e2 is c else None, refine=False) is not None for s_ in sw):
                continue
            n += 1
            ctx.saw(fn, 1)
            dst = show(strip_casts(c.args[0]))
            ln_ = show(strip_casts(c.args[2]))
            # element stores through the cursor:  *s->cur++ = ...
            elem = [ev for ev in fn.stores() if any(m.get('op') == 'un' and m.get('o') == 'post++' and
                                                     strip_casts(m['k'][0]).get('op') == 'member' and strip_casts(m['k'][0]).get('field') == 'cur' for m in walk(ev.store_parts()[0]))]
            def is_adv(e2):
                if e2.k != 'store':
                    return False
                l0 = strip_casts(e2.store_parts()[0])
                if l0.get('op') != 'member' or l0.get('field') != 'cur' or e2.store_parts()[1] is None:
                    return False
                return ln_ in show(e2.store_parts()[1])
            w = find_path(fn, c, lambda e2, facts: 'stop' if is_adv(e2) else ('target' if e2 in elem else None), refine=False)
            ctx.ob(rule, w is None, fn.name, 'cursor after the carried-over part (%s bytes to %s)' % (ln_, dst[:30]), c.where(),
                   'the cursor of the new block is moved past the copied bytes before the next character is stored' if w is None else
                   'the part of the string that was carried into the new block is copied in bulk, but the block cursor stays where it was: the rest of the string is stored on top of it and the reader returns only the tail',
                   w.render() if w else None)
    ctx.note('%s: %d bulk copies after a string block switch' % (rule, n))



def separator_rule(ctx, P, rule):
    fn = P.fn('jls_buf_rd_str')
    ctx.saw(fn)
    tests = [b for b in fn.blocks.values() if b.cond is not None and any(const_of(m) == 0x1f for m in walk(b.cond)) and
             any(m.get('op') == 'bin' and m['o'] in ('==', '!=') for m in walk(b.cond))]
    if not tests:
        raise AnalysisBroken('jls_buf_rd_str: test for the unit separator not found')
    for b in tests:
        seen, work = set(), [s_ for s_, _ in b.succs]
        loop = False
        while work:
            x = work.pop()
            if x is b:
                # back to the test without reading another character of the payload into the string?
                loop = True
                break
            if x.id in seen:
                continue
            seen.add(x.id)
            # a store of a character into the string block means the next string character: not the same separator run
            if any(ev.k == 'store' and any(m.get('op') == 'un' and m.get('o') == 'post++' and strip_casts(m['k'][0]).get('op') == 'member' and strip_casts(m['k'][0]).get('field') == 'cur' and
                                            strip_casts(strip_casts(m['k'][0])['k'][0]).get('name') != fn.params[0]['name'] for m in walk(ev.store_parts()[0])) for ev in x.events):
                continue
            work.extend(s_ for s_, _ in x.succs)
        ctx.ob(rule, not loop, fn.name, 'skip of the unit separator', b.events[-1].where() if b.events else fn.where(),
               'at most one 0x1f is skipped after a terminator' if not loop else
               'the separator test repeats: every 0x1f that follows a terminator is skipped, so a string that begins with 0x1f (any string but the first of its chunk) loses its leading characters')
