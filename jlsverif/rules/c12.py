"""C12 — UTC entries and the id/time map (narrow): the clauses of "pairs round-trip, iteration delivers exactly the pairs at
or after the requested id, conversion never answers from a partial or unsafe map" whose truth is visible in the shape of the
code.  The accuracy of the conversion (exact at anchors, monotone, within one tick, invertible) is value arithmetic and is
NOT decided."""
from ..export import AnalysisBroken
from ..ir import strip_casts, const_of, walk, show, kids
from ..graph import find_path, ret_class, ev_dominates, control_deps_transitive
from .. import df

EXPL = ('Writer: jls_wr_utc stores the pair in the DATA chunk (header.timestamp = sample id, timestamp = utc) and hands the same '
        'pair plus the offset taken before the write to the time-series writer, whose index entry is (sample id, offset) and '
        'summary entry (sample id, utc); INDEX is followed by SUMMARY (shared with C05.6 / C11.6) and nothing indexed is dropped '
        '(shared with C11.8).  Reader: the sample_id_offset is applied exactly once in the UTC reader and no compare mixes api and '
        'file ids (frames dataflow); the skip loop of jls_core_utc passes over an entry only when its sample id is strictly below '
        'the requested one; the index-entry selection of the shared seek lands on the first of equal ids (shared with C11.9).  '
        'Map: attached to the signal only when completely loaded (shared with C04.9), its arrays stay in step when they grow, a '
        'successful realloc is never dropped, the bisection stays inside the arrays and the slope divisor is compared with zero '
        '(shared with C10.19 / C10.20 / C10.25).')
NOT_DECIDED = ('Exactness at anchors, monotonicity, linear interpolation / extrapolation to within one tick and the inverse to within one '
               'sample are numerical relations over all maps and queries: not decided (an integer re-implementation of the interpolation '
               'that overflows for large differences, seeded as c12-tmap-int-interp, is not detected).')


def run(ctx, sess):
    ctx.explanation = EXPL
    ctx.not_decided = NOT_DECIDED
    P = sess.prog('default')
    ctx.rule('C12.1', 'the pair as written: jls_wr_utc puts the sample id into the DATA payload header and the time into its timestamp field, takes the chunk offset before the write, and hands (sample id, that offset, time) to jls_wr_ts_utc, whose index entry stores (sample id, offset) and whose summary entry stores (sample id, time), both appended at their own entry_count')
    ctx.rule('C12.2', 'sample-id frames in the UTC reader: the sample_id_offset is applied exactly once to each value and no compare mixes an api-relative id with a file id')
    ctx.rule('C12.3', '"exactly the pairs at or after it": the skip loop of jls_core_utc advances over a summary entry only on the edge on which the requested id is strictly greater than the entry id')
    ctx.rule('C12.4', 'the time-series chunks of the UTC track: INDEX immediately followed by its SUMMARY, nothing indexed dropped at commit, seek lands on the first of equal ids, upper index levels keyed by the index below (shared with C05.6, C11.8, C11.9, C11.12)')
    ctx.rule('C12.5', 'the map answers only when complete and safe: attached after a successful load (shared with C04.9); a successful realloc installed, bisection inside the arrays, slope divisor compared with zero (shared with C10.19, C10.20, C10.25)')
    ctx.rule('C12.7', 'the map never stores past its arrays: every store at [entries_length] lies behind a compare of entries_length with entries_alloc, or every caller reserves first through a helper whose growth was evaluated (finite-domain trace: capacity >= requested count on return) for the requests that caller can make')
    ctx.rule('C12.8', 'the map is loaded from every stored pair: the sample id at which a loader of the id<->time map (a caller of the UTC iteration whose callback adds to a map) starts the iteration is a constant below every id that can be stored (<= -2^61) - a start that depends on the signal (one hour of samples before the first one) leaves earlier pairs out of the map although jls_rd_utc returns them, and the conversion then extrapolates instead of reproducing them')
    ctx.rule('C12.9', 'the pairs that are delivered are the pairs that were converted: where jls_core_utc hands a range of a summary chunk (pointer, count) to the callback after subtracting the sample id offset in place, the subtraction covers exactly that range - the loop starts at the index the pointer is advanced by and ends at the entry count the count is derived from, or a helper receives the very pointer and count that are delivered')
    ctx.rule('C12.10', 'conversion arithmetic keeps sign and range (the two structural parts; accuracy to one tick is value arithmetic and not decided): a product of two 64-bit differences is never formed in integer arithmetic, and extrapolation works on both sides of the map: in the conversion functions of tmap.c a difference that involves the queried sample id or time (negative for a query before the first pair) is never converted to an unsigned type - neither by a cast nor by a macro that takes its argument as uint64_t')
    ctx.rule('C12.11', 'the UTC iteration converts the entries of the chunk it just read: jls_core_rd_chunk reports success only behind a successful raw read of that call, so entries that an earlier iteration converted in place are never offered again as if they came from the file (shared with C04.13)')
    ctx.rule('C12.6', 'a callback that asks to stop ends the UTC iteration, and every delivery hands over the buffer just read')

    w = P.fn('jls_wr_utc')
    t = P.fn('jls_wr_ts_utc')
    r = P.fn('jls_core_utc')
    for f in (w, t, r):
        ctx.saw(f)

    # ---- C12.1
    sid, utc = w.params[2]['name'], w.params[3]['name']
    inits = {}
    for ev in w.events():
        if ev.k == 'decl' and ev.e is not None and strip_casts(ev.e).get('op') == 'init':
            for nd in walk(ev.e):
                if nd.get('op') == 'desig' or nd.get('field'):
                    pass
    # the payload initialiser is exported as member-wise stores or an init list: use the text of the declaration
    payload_ok = None
    for ev in w.events():
        if ev.k == 'decl' and 'jls_utc_data_s' in (ev.t or ''):
            txt = show(ev.e) if ev.e is not None else ''
            payload_ok = (sid in txt and utc in txt)
            # order in the struct: header {timestamp, ...}, timestamp  ->  the first initialiser is the sample id, the last the time
            refs = [nd.get('name') for nd in walk(ev.e or {}) if nd.get('op') == 'ref' and nd.get('name') in (sid, utc)]
            payload_ok = payload_ok and refs[:1] == [sid] and refs[-1:] == [utc]
            ctx.ob('C12.1', bool(payload_ok), w.name, 'DATA payload = {header.timestamp = %s, ..., timestamp = %s}' % (sid, utc), ev.where(),
                   'initialisers in struct order: %s' % refs)
    if payload_ok is None:
        raise AnalysisBroken('jls_wr_utc: declaration of the jls_utc_data_s payload not found')
    calls = list(w.calls('jls_wr_ts_utc'))
    if not calls:
        raise AnalysisBroken('jls_wr_utc does not call jls_wr_ts_utc')
    wr = list(w.calls('jls_raw_wr'))
    for c in calls:
        a = [strip_casts(x) for x in c.args]
        ok_pair = a[1].get('name') == sid and a[3].get('name') == utc
        from .c14 import _written_offset_value
        off_ok = _written_offset_value(w, c, a[2])[0]
        ctx.ob('C12.1', ok_pair and off_ok, w.name, 'index entry = (sample id, offset of the chunk just written, time)', c.where(),
               'pair passed unchanged: %s; offset taken before the write: %s' % (ok_pair, off_ok))
    p_sid, p_off, p_utc = (t.params[i]['name'] for i in (1, 2, 3))
    want = {('entries', 'timestamp'): p_sid, ('entries', 'offset'): p_off, ('entries', 'sample_id'): p_sid, ('summary', 'timestamp'): p_utc}
    got = {}
    for ev in t.stores():
        lhs, rhs, o = ev.store_parts()
        l0 = strip_casts(lhs)
        if l0.get('op') == 'member' and rhs is not None and o == '=' and strip_casts(rhs).get('op') == 'ref':
            base = strip_casts(l0['k'][0])
            bname = base.get('name') if base.get('op') == 'ref' else None
            got[(bname, l0.get('field'))] = strip_casts(rhs).get('name')
    # the two entry pointers: &index->entries[index->header.entry_count++] and &summary->entries[summary->header.entry_count++]
    ptrs = {}
    for ev in t.events():
        if ev.k == 'decl' and ev.e is not None:
            e0 = strip_casts(ev.e)
            if e0.get('op') == 'un' and e0.get('o') == '&':
                sub = strip_casts(e0['k'][0])
                if sub.get('op') == 'sub':
                    arr = show(strip_casts(sub['k'][0]))
                    idx = strip_casts(sub['k'][1])
                    own = idx.get('op') == 'un' and idx.get('o') in ('post++',) and show(strip_casts(idx['k'][0])).split('->')[0] == arr.split('->')[0]
                    ptrs[ev.name] = (arr, own)
    for name, (arr, own) in sorted(ptrs.items()):
        ctx.ob('C12.1', own, t.name, '%s appended at its own entry_count' % arr, t.where(), 'post-incremented count of the same object' if own else 'the entry is stored at a position taken from another object')
    idx_ptr = [n for n, (arr, _) in ptrs.items() if arr.startswith('index')]
    sum_ptr = [n for n, (arr, _) in ptrs.items() if arr.startswith('summary')]
    if len(idx_ptr) != 1 or len(sum_ptr) != 1:
        raise AnalysisBroken('jls_wr_ts_utc: entry pointers %s' % sorted(ptrs))
    fields = {(idx_ptr[0], 'timestamp'): p_sid, (idx_ptr[0], 'offset'): p_off, (sum_ptr[0], 'sample_id'): p_sid, (sum_ptr[0], 'timestamp'): p_utc}
    for (b, f), v in sorted(fields.items()):
        ctx.ob('C12.1', got.get((b, f)) == v, t.name, '%s->%s = %s' % (b, f, v), t.where(), 'stores %s' % got.get((b, f)))

    # ---- C12.2
    from .frames import frames_rule
    frames_rule(ctx, P, 'C12.2', kinds=('utc',), minimum=1)

    # ---- C12.3
    req = r.params[2]['name']
    n3 = 0
    for b in r.blocks.values():
        c = strip_casts(b.cond) if b.cond is not None else None
        if c is None:
            continue
        for nd in walk(c):
            if nd.get('op') == 'bin' and nd['o'] in ('<', '<=', '>', '>=', '==', '!='):
                l, rr = strip_casts(nd['k'][0]), strip_casts(nd['k'][1])
                o = nd['o']
                is_entry = lambda e: e.get('op') == 'member' and e.get('field') == 'sample_id' and any(m.get('op') == 'member' and m.get('field') == 'entries' for m in walk(e))
                if is_entry(l) and rr.get('name') == req:
                    l, rr = rr, l
                    o = {'<': '>', '>': '<', '<=': '>=', '>=': '<=', '==': '==', '!=': '!='}[o]
                if not (l.get('name') == req and is_entry(rr)):
                    continue
                # the edge that continues the skip: the one from which the index increment is reached before the delivery
                incs = [ev for ev in r.stores() if ev.store_parts()[2] in ('pre++', 'post++') and
                        any(m.get('op') == 'ref' and m.get('name') == strip_casts(ev.store_parts()[0]).get('name') for m in walk(rr))]
                if not incs:
                    continue
                n3 += 1
                full = {'<', '=', '>'}
                t_set = {'<': {'<'}, '<=': {'<', '='}, '>': {'>'}, '>=': {'>', '='}, '==': {'='}, '!=': {'<', '>'}}[o]   # requested ? entry
                # the skip edge(s): from there the index increment is reached before any delivery
                admits = set()
                for i_, (s_, lab) in enumerate(b.succs):
                    if lab not in ('T', 'F'):
                        continue
                    ivars = {strip_casts(e_.store_parts()[0]).get('name') for e_ in incs}

                    def on_ev(e2, facts, ivars=ivars):
                        if e2.k == 'call' and e2.callee is None:
                            return 'stop'
                        if e2 in incs:
                            return 'target'
                        if (e2.k == 'decl' and e2.name in ivars) or (e2.k == 'store' and e2.store_parts()[2] == '=' and strip_casts(e2.store_parts()[0]).get('name') in ivars):
                            return 'stop'          # the index starts again: another chunk
                        return None
                    wq = find_path(r, (b, i_), on_ev, refine=False)
                    if wq is not None:
                        admits |= (t_set if lab == 'T' else full - t_set)
                ok = admits == {'>'}
                ctx.ob('C12.3', ok, r.name, 'skip condition %s' % show(nd)[:60], b.events[-1].where() if b.events else r.where(),
                       'an entry is passed over only when the requested id is strictly greater' if ok else
                       'the skip continues on orderings %s of (requested id, entry id): an entry at the requested id (or after it) is passed over and never delivered' % sorted(admits))
    ctx.floor('skip compares in jls_core_utc', n3, 1)

    # ---- C12.4 / C12.5: shared rules
    from .common import relay
    from . import c05 as _c05, c11 as _c11, c04 as _c04, c10 as _c10
    relay(ctx, sess, _c11.run, {'C11.6': 'C12.4', 'C11.8': 'C12.4', 'C11.9': 'C12.4', 'C11.12': 'C12.4'}, minimum=4)
    relay(ctx, sess, _c04.run, {'C04.9': 'C12.5'}, only_functions=('utc_load',), minimum=1)
    relay(ctx, sess, _c10.run, {'C10.19': 'C12.5', 'C10.20': 'C12.5', 'C10.25': 'C12.5'},
          only_functions=('jls_tmap_add', 'interp_i64', 'jls_tmap_sample_id_to_timestamp', 'jls_tmap_timestamp_to_sample_id'), minimum=4)

    map_append_rule(ctx, P, 'C12.7')
    map_load_start_rule(ctx, P, 'C12.8')
    relay(ctx, sess, _c04.run, {'C04.13': 'C12.11'}, minimum=1)
    delivered_range_rule(ctx, P, r, 'C12.9')
    signed_delta_rule(ctx, P, 'C12.10')

    # ---- C12.6
    cbs = [ev for ev in r.events('call') if ev.callee is None]
    if not cbs:
        raise AnalysisBroken('callback invocation not found in jls_core_utc')
    from .common import nonzero_starts
    for cb in cbs:
        st = nonzero_starts(r, cb)
        if not st or st == 'returned':
            ctx.ob('C12.6', False, r.name, 'callback result is tested', cb.where(), 'result not tested')
            continue
        bad = None
        for start, facts in st:
            bad = bad or find_path(r, start, lambda e2, facts_: 'target' if (e2.k == 'call' and e2.callee is None) else None, start_facts=facts)
        ctx.ob('C12.6', bad is None, r.name, 'stop request ends the iteration', cb.where(),
               'no further callback after a non-zero result' if bad is None else 'the callback is invoked again after it asked to stop', bad.render() if bad else None)
        # a checked chunk read lies between the previous delivery (or the entry) and this one
        w_ = find_path(r, 'entry', lambda e2, facts_: 'stop' if (e2.k == 'call' and e2.callee == 'jls_core_rd_chunk') else ('target' if e2 is cb else None), refine=False)
        ctx.ob('C12.6', w_ is None, r.name, 'delivery follows a checked chunk read', cb.where(),
               'jls_core_rd_chunk on every path to the callback' if w_ is None else 'a path reaches the callback without reading a chunk', w_.render() if w_ else None)


def map_append_rule(ctx, P, rule):
    """every store at [entries_length] of the map arrays lies behind a capacity test, or behind a reserve that was evaluated"""
    from ..fd import trace_calls, FD, Top
    from ..ir import path_of
    fns = {f.name: f for f in P.fns_in('src/tmap.c')}

    def mentions(e, field):
        return any(m.get('op') == 'member' and m.get('field') == field for m in walk(e or {}))

    def guard_blocks(fn):
        return {b.id for b in fn.blocks.values() if b.cond is not None and mentions(b.cond, 'entries_length') and mentions(b.cond, 'entries_alloc')}

    def reserve_ok(R, extra_one):
        """FD evaluation of a reserve helper R(self, count): on a zero return the capacity covers the count"""
        cparam = R.params[1]['name'] if len(R.params) > 1 else None
        if cparam is None:
            return False, 'no count parameter'
        akey = None
        for b in R.blocks.values():
            for e in [ev.e for ev in b.events if ev.e is not None] + ([b.cond] if b.cond is not None else []):
                for m in walk(e):
                    if m.get('op') == 'member' and m.get('field') == 'entries_alloc':
                        p = path_of(m) or R.path(m)
                        if p is not None:
                            akey = str(p)
        if akey is None:
            return False, 'capacity not read'
        fd = FD(P)
        for extra in ((1,) if extra_one else (1, 2, 999, 1000, 1001, 5000)):
            A = 1000
            count = A + extra
            last = {}

            def on_store(ev, env, sym, last=last):
                lhs, rhs, o = ev.store_parts()
                l0 = strip_casts(lhs)
                if l0.get('op') == 'member' and l0.get('field') == 'entries_alloc' and rhs is not None:
                    try:
                        v = fd.ev(R, rhs, env)
                        last['alloc'] = v
                        env[akey] = v
                    except Exception:
                        last['alloc'] = None
            try:
                box = []
                trace_calls(P, R, {'self': 1, cparam: count, akey: A}, assume_calls=4096, max_steps=5000, on_store=on_store, _retbox=box)
            except Top:
                return False, 'growth not decidable for count %d' % count
            got = last.get('alloc', A)
            if got is None or got < count:
                return False, 'with capacity %d and %d entries requested the capacity becomes %s' % (A, count, got)
        return True, 'capacity >= count for the evaluated requests'

    n = 0
    for fn in fns.values():
        for ev in fn.stores():
            lhs, rhs, o = ev.store_parts()
            l0 = strip_casts(lhs)
            if l0.get('op') != 'sub' or not (strip_casts(l0['k'][1]).get('op') == 'member' and strip_casts(l0['k'][1]).get('field') == 'entries_length'):
                continue
            n += 1
            ctx.saw(fn, 1)
            g = guard_blocks(fn)
            w = find_path(fn, 'entry', lambda e2, facts: 'target' if e2 is ev else None, refine=False, edge_ok=lambda b_, s_, lab: b_.id not in g)
            if w is None:
                ctx.ob(rule, True, fn.name, 'append %s' % show(l0)[:40], ev.where(), 'a compare of entries_length with entries_alloc lies on every path to the store')
                continue
            # the callers must provide the room, once per append
            sites = [(gfn, c) for gfn in fns.values() for c in gfn.calls(fn.name)]
            bad = None
            if not sites:
                bad = 'no capacity test in %s and no caller in this unit' % fn.name
            for gfn, c in sites:
                gg = guard_blocks(gfn)
                reserves = []
                for c2 in gfn.calls():
                    R = fns.get(c2.callee)
                    if R is None or R is fn or not any(mentions(b.cond, 'entries_alloc') for b in R.blocks.values() if b.cond is not None):
                        continue
                    extra_one = len(c2.args) > 1 and strip_casts(c2.args[1]).get('op') == 'bin' and const_of(strip_casts(c2.args[1])['k'][1]) == 1
                    # one reserve for several appends (a loop around the append that does not pass the reserve) needs the full evaluation
                    cyc = find_path(gfn, c, lambda e2, facts: 'stop' if e2 is c2 else ('target' if e2 is c else None), refine=False) is not None
                    okR, why = reserve_ok(R, extra_one and not cyc)
                    if okR:
                        reserves.append(c2)
                    else:
                        bad = bad or '%s() does not make room for what %s then appends (%s)' % (R.name, gfn.name, why)
                wq = find_path(gfn, 'entry', lambda e2, facts: 'stop' if e2 in reserves else ('target' if e2 is c else None), refine=False,
                               edge_ok=lambda b_, s_, lab: b_.id not in gg)
                if wq is not None:
                    bad = bad or '%s reaches %s() without a capacity test or an evaluated reserve' % (gfn.name, fn.name)
            ctx.ob(rule, bad is None, fn.name, 'append %s' % show(l0)[:40], ev.where(),
                   'every caller tests or reserves the capacity first' if bad is None else bad + ': entries are stored past the arrays when a chunk brings more entries than the capacity that is left')
    ctx.floor('appends to the map arrays', n, 2)


def map_load_start_rule(ctx, P, rule):
    from ..fd import FD, Top
    fd = FD(P)
    n = 0
    for fn in P.functions.values():
        for c in fn.calls('jls_core_utc'):
            if len(c.args) < 5:
                continue
            cb = strip_casts(c.args[3])
            if not (cb.get('op') == 'ref' and 'tmap' in (cb.get('name') or '')):
                continue
            n += 1
            ctx.saw(fn, 1)
            a = strip_casts(c.args[2])
            val = None
            try:
                val = fd.ev(fn, a, {})
            except (Top, ZeroDivisionError):
                # a local with a single constant definition
                if a.get('op') == 'ref' and a.get('rk') == 'local':
                    defs = [ev for ev in fn.events() if (ev.k == 'decl' and ev.name == a['name'] and ev.e is not None)] + \
                           [ev for ev in fn.stores() if strip_casts(ev.store_parts()[0]).get('name') == a['name']]
                    defs = list({id(d_): d_ for d_ in defs}.values())
                    if len(defs) == 1 and defs[0].k == 'decl':
                        try:
                            val = fd.ev(fn, defs[0].e, {})
                        except (Top, ZeroDivisionError):
                            val = None
            ok = val is not None and val <= -(1 << 61)
            ctx.ob(rule, ok, fn.name, 'start of the UTC iteration that fills the map', c.where(),
                   'constant %d: below every sample id' % val if ok else
                   ('the iteration starts at %s: pairs stored before that id are returned by jls_rd_utc but never reach the map, so converting their sample id extrapolates from a later segment instead of reproducing the stored time' %
                    (('the constant %d' % val) if val is not None else 'a value that depends on the signal (%s)' % show(a))))
    ctx.floor('map loaders', n, 1)


def delivered_range_rule(ctx, P, r, rule):
    from ..graph import loops
    off_names = set()
    for ev in r.events():
        if ev.k == 'decl' and ev.e is not None and any(m.get('op') == 'member' and m.get('field') == 'sample_id_offset' for m in walk(ev.e)):
            off_names.add(ev.name)

    def is_off(e):
        e = strip_casts(e)
        return (e.get('op') == 'ref' and e.get('name') in off_names) or (e.get('op') == 'member' and e.get('field') == 'sample_id_offset')

    def local_def(name):
        d = [ev for ev in r.events() if ev.k == 'decl' and ev.name == name and ev.e is not None]
        return strip_casts(d[0].e) if len(d) == 1 else None
    # helpers of this file that subtract their third argument from param0[i].sample_id for i < param1
    helpers = {}
    for g in P.fns_in(r.file):
        if g is r or len(g.params) < 3:
            continue
        for ev in g.stores():
            lhs, rhs, o = ev.store_parts()
            l0 = strip_casts(lhs)
            if o == '-=' and l0.get('op') == 'member' and l0.get('field') == 'sample_id' and rhs is not None and strip_casts(rhs).get('op') == 'ref':
                base = strip_casts(l0['k'][0])
                if base.get('op') == 'sub' and strip_casts(base['k'][0]).get('name') == g.params[0]['name']:
                    pi = [i for i, p_ in enumerate(g.params) if p_['name'] == strip_casts(rhs)['name']]
                    # the loop bound is a parameter
                    bound = None
                    for h, body in loops(g).items():
                        if ev.block.id in body:
                            c = strip_casts(g.blocks[h].cond) if g.blocks[h].cond is not None else None
                            if c is not None and c.get('op') == 'bin' and c['o'] == '<' and strip_casts(c['k'][1]).get('op') == 'ref':
                                bi = [i for i, p_ in enumerate(g.params) if p_['name'] == strip_casts(c['k'][1])['name']]
                                bound = bi[0] if bi else None
                    if pi and bound is not None:
                        helpers[g.name] = (0, bound, pi[0])
    n = 0
    lp = loops(r)
    for cb in [ev for ev in r.events('call') if ev.callee is None]:
        if len(cb.args) < 3:
            continue
        ptr, cnt = strip_casts(cb.args[1]), strip_casts(cb.args[2])
        # in-place conversions that can reach this delivery
        convs = []
        for ev in r.stores():
            lhs, rhs, o = ev.store_parts()
            l0 = strip_casts(lhs)
            if o == '-=' and l0.get('op') == 'member' and l0.get('field') == 'sample_id' and rhs is not None and is_off(rhs) and \
                    find_path(r, ev, lambda e2, facts: 'target' if e2 is cb else ('stop' if (e2.k == 'call' and e2.callee == 'jls_core_rd_chunk') else None), refine=False) is not None:
                convs.append(('loop', ev))
        for c in r.calls(tuple(helpers)) if helpers else []:
            if find_path(r, c, lambda e2, facts: 'target' if e2 is cb else ('stop' if (e2.k == 'call' and (e2.callee is None or e2.callee == 'jls_core_rd_chunk')) else None), refine=False) is not None:
                convs.append(('helper', c))
        if not convs:
            continue        # this delivery hands over values converted when they were built (C12.2 decides those)
        n += 1
        why = []
        for kind, ev in convs:
            if kind == 'helper':
                a_ptr, a_cnt = strip_casts(ev.args[helpers[ev.callee][0]]), strip_casts(ev.args[helpers[ev.callee][1]])
                if show(a_ptr) != show(ptr) or show(a_cnt) != show(cnt):
                    why.append('%s converts (%s, %s) but (%s, %s) is delivered' % (ev.callee, show(a_ptr), show(a_cnt), show(ptr), show(cnt)))
                continue
            l0 = strip_casts(ev.store_parts()[0])
            sub = strip_casts(l0['k'][0])
            if sub.get('op') != 'sub':
                why.append('conversion %s is not over an indexed range' % show(l0))
                continue
            base, idx = strip_casts(sub['k'][0]), strip_casts(sub['k'][1])
            # the loop of the conversion: init and bound of its index
            init = bound = None
            for h, body in lp.items():
                if ev.block.id in body and idx.get('op') == 'ref':
                    c = strip_casts(r.blocks[h].cond) if r.blocks[h].cond is not None else None
                    if c is not None and c.get('op') == 'bin' and c['o'] == '<' and strip_casts(c['k'][0]).get('name') == idx['name']:
                        bound = strip_casts(c['k'][1])
                        init = local_def(idx['name'])
                        if init is None:
                            st = [s_ for s_ in r.stores() if s_.k == 'store' and strip_casts(s_.store_parts()[0]).get('name') == idx['name'] and s_.store_parts()[2] == '=' and s_.block.id not in body]
                            init = strip_casts(st[0].store_parts()[1]) if len(st) == 1 else None
            if init is None or bound is None:
                why.append('range of the conversion at line %d not recognised' % ev.ln)
                continue
            # delivered pointer = base + init ; delivered count = bound - init
            p_ok = (ptr.get('op') == 'bin' and ptr['o'] == '+' and show(strip_casts(ptr['k'][0])) == show(base) and show(strip_casts(ptr['k'][1])) == show(init)) or \
                   (const_of(init) == 0 and show(ptr) == show(base))
            cdef = local_def(cnt['name']) if cnt.get('op') == 'ref' else cnt
            c_ok = cdef is not None and ((cdef.get('op') == 'bin' and cdef['o'] == '-' and show(strip_casts(cdef['k'][0])) == show(bound) and show(strip_casts(cdef['k'][1])) == show(init)) or
                                         (const_of(init) == 0 and show(cdef) == show(bound)))
            if not (p_ok and c_ok):
                why.append('entries [%s, %s) of %s are converted, (%s, %s) is delivered' % (show(init), show(bound), show(base), show(ptr), show(cnt) if cdef is None else show(cdef)))
        ctx.ob(rule, not why, r.name, 'converted range = delivered range', cb.where(),
               'the conversion covers exactly what the callback receives' if not why else
               '; '.join(why) + ': entries outside the converted range are handed over with file sample ids (off by the first sample id of the signal), entries converted but not delivered do no harm')
    ctx.floor('deliveries of ranges converted in place', n, 1)


def signed_delta_rule(ctx, P, rule):
    n = 0
    for fn in P.fns_in('src/tmap.c'):
        if len(fn.params) < 2:
            continue
        # values derived from the query: the scalar parameters and locals computed from them
        q = set(p_['name'] for p_ in fn.params[1:] if (p_.get('t') or '') in ('i64', 'f64'))
        if not q:
            continue
        changed = True
        while changed:
            changed = False
            for ev in fn.events():
                if ev.k == 'decl' and ev.e is not None and ev.name not in q and any(m.get('op') == 'ref' and m.get('name') in q for m in walk(ev.e)):
                    q.add(ev.name)
                    changed = True
        bad = []
        seen = 0
        deltas = {}
        for ev in fn.events():
            if ev.k == 'decl' and ev.e is not None and (ev.t or '').startswith('i'):
                d0 = strip_casts(ev.e)
                if d0.get('op') == 'bin' and d0['o'] == '-' and any(m.get('op') == 'ref' and m.get('name') in q for m in walk(d0)):
                    deltas[ev.name] = d0
        for b in fn.blocks.values():
            for e in [ev.e for ev in b.events if getattr(ev, 'e', None) is not None] + ([b.cond] if b.cond is not None else []):
                for nd in walk(e):
                    if nd.get('op') != 'cast' or not (nd.get('t') or '').startswith('u') or (nd.get('t') or '') in ('u1',):
                        continue
                    inner = strip_casts(nd['k'][0])
                    if inner.get('op') == 'bin' and inner['o'] == '-' and (inner.get('t') or '').startswith('i') and \
                            any(m.get('op') == 'ref' and m.get('name') in q for m in walk(inner)):
                        bad.append((nd, inner))
                    if inner.get('op') == 'ref' and inner.get('name') in deltas:
                        bad.append((nd, deltas[inner['name']]))
                    if inner.get('op') == 'bin' and inner['o'] == '-':
                        seen += 1
                for nd in walk(e):
                    if nd.get('op') == 'bin' and nd['o'] == '-' and any(m.get('op') == 'ref' and m.get('name') in q for m in walk(nd)):
                        seen += 1
        if not seen:
            continue
        n += 1
        ctx.saw(fn, 1)
        # a product of two 64-bit differences does not fit 64 bits for realistic spans (2^42 ticks per hour x samples per hour)
        alld = set(ev.name for ev in fn.events() if ev.k == 'decl' and ev.e is not None and (ev.t or '') in ('i64', 'u64') and
                   strip_casts(ev.e).get('op') == 'bin' and strip_casts(ev.e)['o'] == '-')
        def is_delta(x):
            x = strip_casts(x)
            return (x.get('op') == 'ref' and x.get('name') in alld) or (x.get('op') == 'bin' and x['o'] == '-' and (x.get('t') or '') in ('i64', 'u64'))
        prods = []
        for b in fn.blocks.values():
            for e in [ev.e for ev in b.events if getattr(ev, 'e', None) is not None] + ([b.cond] if b.cond is not None else []):
                for nd in walk(e):
                    if nd.get('op') == 'bin' and nd['o'] == '*' and (nd.get('t') or '') in ('i64', 'u64') and is_delta(nd['k'][0]) and is_delta(nd['k'][1]):
                        prods.append(nd)
        # a 64-bit id or time (2^55 ticks today) does not fit a double: the difference is taken first, in integers
        early = []
        for b in fn.blocks.values():
            for e in [ev.e for ev in b.events if getattr(ev, 'e', None) is not None] + ([b.cond] if b.cond is not None else []):
                for nd in walk(e):
                    if nd.get('op') == 'bin' and nd['o'] == '-' and (nd.get('t') or '') in ('f64', 'f32'):
                        for k_ in nd['k']:
                            k0 = k_
                            while k0.get('op') == 'paren':
                                k0 = k0['k'][0]
                            if k0.get('op') == 'cast' and (k0.get('t') or '') in ('f64', 'f32'):
                                inner = strip_casts(k0['k'][0])
                                if (inner.get('t') or '') in ('i64', 'u64') and inner.get('op') in ('ref', 'sub', 'member') and \
                                        any(m.get('op') == 'ref' and (m.get('name') in q or m.get('rk') == 'param') for m in walk(inner)):
                                    early.append((nd, inner))
        ctx.ob(rule, not early, fn.name, 'differences are taken before the conversion to floating point', fn.where(),
               'every floating-point difference has operands that are differences or scaled values already' if not early else
               '%s converts %s to floating point before subtracting: times are about 2^55 ticks, a double keeps 53 bits, so the difference is off by several ticks (the one-tick bound and the exact reproduction of stored pairs are lost)' % (show(early[0][0])[:70], show(early[0][1])))
        ctx.ob(rule, not prods, fn.name, 'no 64-bit integer product of two differences', fn.where(),
               'differences are multiplied in floating point only' if not prods else
               '%s is computed in 64-bit integer arithmetic: a span of an hour is 2^42 ticks, so with more than 2^21 samples between two pairs the product overflows and the interpolated value is garbage' % show(prods[0]))
        ctx.ob(rule, not bad, fn.name, 'differences with the queried value stay signed', fn.where(),
               'no difference of the query is converted to an unsigned type' if not bad else
               '%s is converted to %s%s: for a query before the pair the difference is negative and becomes a count near 2^64, so the result is off by about 2^64 / rate ticks instead of extrapolating backwards' %
               (show(bad[0][1]), bad[0][0].get('t'), (' (inside %s)' % bad[0][0].get('m')) if bad[0][0].get('m') else ''))
    ctx.floor('conversion functions with query differences', n, 2)
