"""C15 — omitting level-0 data never changes length or summaries (structural clauses)."""
from ..export import AnalysisBroken
from ..ir import strip_casts, const_of, walk, show, kids
from ..graph import find_path, ret_class, ev_dominates, control_deps_transitive, cond_facts
from .. import df
from .common import exceptions

EXPL = ('Reaching-definition and ordering rules on the block writer (first block never omitted; summary, timestamp advance and count reset '
        'on both arms), the omitted-block marker agreement between writer (index entry 0) and reader (offset == 0 -> reconstruction), '
        'coverage of the reconstruction dispatch, who-may-store for the omission state, and that the summary is computed from memory.')
NOT_DECIDED = ('Bit-exact reconstruction values and equality of summaries between two runs are value arithmetic.  The reported length of a signal that ends in an omitted partial block is decided structurally (C15.7: omit only full blocks) and is a known finding.')


def run(ctx, sess):
    ctx.explanation = EXPL
    ctx.not_decided = NOT_DECIDED
    ctx.rule('C15.8', 'the summary used to reconstruct an omitted block belongs to the requested signal: the cached level-1 index/summary is reused only when keyed by the signal id and the sample range (shared with C01.a)')
    from .common import relay
    from . import c01 as _src_c01
    relay(ctx, sess, _src_c01.run, {'C01.a': 'C15.8'})
    P = sess.prog('default')
    ctx.rule('C15.1', 'the first block of a signal is always stored: the definition of omit_data that reaches the store/omit branch is masked with data_head.offset != 0')
    ctx.rule('C15.7', 'the reported length does not depend on omission: a block is omitted only when it is full (omit_data is masked with entry_count >= data_length); the count of a partial block is stored only in the block itself')
    ctx.rule('C15.10', 'only constant blocks are left out automatically: the byte every byte of the block is compared with is the first sample replicated over the byte, for every sub-byte width (traced: width 1, 4, 8 x first bytes whose samples differ) - a block whose bytes are equal but whose samples are not is stored')
    ctx.rule('C15.12', 'a block is left out only on request or when a predicate that examines every byte of the block against a reference said it is constant (shared with C09.7)')
    ctx.rule('C15.11', 'samples of stored blocks are what was read: the core read buffer is consumed only after a checked read or a reconstruction of that very block on the same path (shared with C04.8)')
    ctx.rule('C15.9', 'summary entries do not depend on omission: in the level-1 and level-n reductions the chunk position handed in (0 for an omitted block) flows only into the index entry; it is not used in any condition or in any value of a summary entry')
    ctx.rule('C15.2', 'summaries do not depend on omission: from both arms of the omit branch every success path passes the level-1 summary, the timestamp advance and the count reset; the summary path never reads the file')
    ctx.rule('C15.3', 'marker agreement: the writer records index entry 0 for an omitted block and the reader treats offset 0 as omitted (reconstruction, no seek)')
    ctx.rule('C15.4', 'reconstruction covers what may be omitted: exact arms for u8/u4/u1 and float types, every arm counts what it fills; automatic omission applies to widths <= 8')
    ctx.rule('C15.6', 'automatic omission is decided only by a predicate that examines every byte of the block (a stored block is never replaced by a synthesised one unless it is constant)')
    ctx.rule('C15.13', 'reconstruction selects its arm by the storage type: for every accepted type of 8 bits or less and any fixed-point position in the upper half of data_type, the compare that selects the arm still holds (evaluated over the finite set of types x positions) - the definition check masks the position off and the writer decides by the width')
    ctx.rule('C15.16', 'a block that was left out is rebuilt from its own summary entries: the index of the first summary entry used by the reconstruction derives from the start of the block (the block index times samples_per_data), not from the sample the caller asked for - a read that starts inside the block would otherwise be filled from the entries of the following block')
    ctx.rule('C15.5', 'the omission state is stored only by the API entry and by the per-block shift')
    f, br = first_block_stored(ctx, P, 'C15.1')
    full_block_only(ctx, P, 'C15.7')
    position_flow_rule(ctx, P)
    from .common import relay as _relay
    from . import c09 as _src_c09
    _relay(ctx, sess, _src_c09.run, {'C09.7': 'C15.12'}, minimum=1)
    ctx.rule('C15.14', 'the summary mean a constant block is rebuilt from is the stored code: the sample converter that feeds the summaries rescales nothing, whatever the fixed-point position (shared with C02.10) - reconstruction rounds the mean back to the sample value')
    from . import c02 as _src_c02
    _relay(ctx, sess, _src_c02.run, {'C02.10': 'C15.14'}, minimum=1)
    ctx.rule('C15.15', 'the summary an omitted block is rebuilt from is the one that belongs to the cached index: the level-1 cache is marked valid only after both chunks were read (shared with C04.9) - after a failed summary read the retry must not find the previous summary behind a fresh tag')
    from . import c04 as _src_c04
    reconstruct_index_rule(ctx, P, 'C15.16')
    _relay(ctx, sess, _src_c04.run, {'C04.9': 'C15.15'}, only_functions=('jls_core_rd_fsr_level1', 'jls_core_rd_fsr_data0'), minimum=1)
    try:
        const_reference_rule(ctx, P)
    except AnalysisBroken as ex:
        if any(not o['ok'] for o in ctx.obligations):
            ctx.note('C15.10 not evaluated (%s); the omission criterion already fails C15.12' % ex)
        else:
            raise
    from .common import relay
    from . import c04 as _src_c04
    from .c04 import _freshness
    _freshness(ctx, P, exceptions('C04'), rule='C15.11', only=lambda n: 'fsr' in n, minimum=3)
    # ---- C15.2
    need = {
        'summary': lambda e2: e2.k == 'call' and e2.callee == 'jls_core_fsr_summary1',
        'timestamp advance': lambda e2: e2.k == 'store' and strip_casts(e2.store_parts()[0]).get('field') == 'timestamp' and e2.store_parts()[2] in ('+=', '='),
        'entry_count reset': lambda e2: e2.k == 'store' and strip_casts(e2.store_parts()[0]).get('field') == 'entry_count' and const_of(e2.store_parts()[1]) == 0,
    }
    for i, (s, label) in enumerate(br.succs):
        for what, pred in need.items():
            w = find_path(f, (br, i), lambda e2, facts, pred=pred: 'stop' if pred(e2) else ('target' if e2.k == 'ret' and ret_class(f, e2, facts) in ('zero',) else None))
            ctx.ob('C15.2', w is None, f.name, '%s on the %s arm' % (what, 'omit' if label == 'T' else 'store'), '%s:%d' % (f.file, br.line),
                   'on every success path' if w is None else 'success is returned without the %s when the block is %s' % (what, 'omitted' if label == 'T' else 'stored'),
                   w.render() if w else None)
    reads = P.reachable_from(['jls_core_fsr_summary1']) & {'jls_raw_rd', 'jls_raw_rd_payload', 'jls_core_rd_chunk'}
    ctx.ob('C15.2', not reads, 'jls_core_fsr_summary1', 'summary computed from memory', P.fn('jls_core_fsr_summary1').where(), 'reaches %s' % sorted(reads) if reads else 'no file read reachable')
    # ---- C15.3 writer: pos passed to summary1 is 0 on the omit arm
    s1 = list(f.calls('jls_core_fsr_summary1'))
    okw = False
    if s1:
        pv = strip_casts(s1[0].args[1])
        if pv.get('op') == 'ref':
            defs, _ = df.reaching_defs(f, pv['name'], s1[0].block, s1[0].idx)
            zero_defs = [d for d in defs if const_of(d.store_parts()[1]) == 0 and d.store_parts()[2] == '=']
            tell_defs = [d for d in defs if any(nd.get('op') == 'call' and nd.get('callee') == 'jls_raw_chunk_tell' for nd in walk(d.store_parts()[1] or {}))]
            on_omit = [d for d in zero_defs if (br.id, 'T') in control_deps_transitive(f, d.block.id)]
            okw = bool(on_omit) and bool(tell_defs)
    ctx.ob('C15.3', okw, f.name, 'index entry is 0 for an omitted block, the chunk position otherwise', f.where(), 'writer marker: %s' % okw)
    r = P.fn('jls_core_rd_fsr_data0')
    ctx.saw(r)
    okr = False
    for b in r.blocks.values():
        for label in ('T', 'F'):
            for (var, kind, c) in cond_facts(r, b.cond, label):
                if kind == 'eq' and c == 0 and var == 'offset':
                    si = [i for i, (s, l2) in enumerate(b.succs) if l2 == label]
                    # offset comes from the index
                    defs, _ = df.reaching_defs(r, 'offset', b, len(b.events))
                    from_index = all(any(nd.get('op') == 'member' and nd.get('field') == 'offsets' for nd in walk(d.store_parts()[1] or {})) for d in defs) and bool(defs)
                    for i in si:
                        seek = find_path(r, (b, i), lambda e2, facts: 'target' if (e2.k == 'call' and e2.callee in ('jls_raw_chunk_seek', 'jls_core_rd_chunk')) else
                                         ('stop' if e2.k == 'call' and e2.callee == 'reconstruct_omitted_chunk' else None))
                        recon = find_path(r, (b, i), lambda e2, facts: 'target' if (e2.k == 'call' and e2.callee == 'reconstruct_omitted_chunk') else None)
                        okr = from_index and seek is None and recon is not None
    ctx.ob('C15.3', okr, r.name, 'offset 0 means omitted: reconstruct, never seek to 0', r.where(), 'reader marker: %s' % okr)
    # ---- C15.4
    rc = P.fn('reconstruct_omitted_chunk')
    ctx.saw(rc)
    arms = set()
    # locals that hold (a part of) the data type
    dt_locals = set(ev.name for ev in rc.events() if ev.k == 'decl' and ev.e is not None and
                    any(nd.get('op') == 'member' and nd.get('field') == 'data_type' for nd in walk(ev.e)))
    def on_type(x):
        return any((nd.get('op') == 'member' and nd.get('field') == 'data_type') or (nd.get('op') == 'ref' and nd.get('name') in dt_locals) for nd in walk(x))
    for b in rc.blocks.values():
        e = strip_casts(b.cond) if b.cond else None
        if e is not None and e.get('op') == 'bin' and e['o'] == '==' and on_type(e['k'][0]):
            arms.add(strip_casts(e['k'][1]).get('m') or e['k'][1].get('m') or const_of(e['k'][1]))
    # which types need an exact arm: every accepted type the writer omits on its own (width <= the automatic threshold,
    # evaluated with the library's own size function) and the float types (synthesised from mean/std)
    from .defnorm import accepted_data_types
    from ..fd import FD
    fd_ = FD(P)
    psz = P.fn('jls_datatype_parse_size')
    arm_vals = set()
    for a_ in arms:
        if isinstance(a_, int):
            arm_vals.add(a_)
    for b in rc.blocks.values():
        e = strip_casts(b.cond) if b.cond else None
        if e is not None and e.get('op') == 'bin' and e['o'] == '==' and on_type(e['k'][0]):
            c_ = const_of(e['k'][1])
            if c_ is not None:
                arm_vals.add(c_)
    need = 0
    # C15.13: the arm is selected by the storage type alone.  The definition check accepts any fixed-point position
    # (it validates data_type & 0xffff) and the writer leaves constant blocks out by the sample width only.
    dt_nodes = [nd for ev in rc.events() for nd in walk(getattr(ev, 'e', None) or {}) if nd.get('op') == 'member' and nd.get('field') == 'data_type'] + \
               [nd for b in rc.blocks.values() if b.cond is not None for nd in walk(b.cond) if nd.get('op') == 'member' and nd.get('field') == 'data_type']
    if not dt_nodes:
        raise AnalysisBroken('reconstruct_omitted_chunk does not read the data type')
    dt_key = str(rc.path(dt_nodes[0]))
    from ..fd import Top
    arm_blocks = [b for b in rc.blocks.values() if b.cond is not None and strip_casts(b.cond).get('op') == 'bin' and strip_casts(b.cond)['o'] == '==' and
                  on_type(strip_casts(b.cond)['k'][0]) and const_of(strip_casts(b.cond)['k'][1]) is not None]
    masks_q = False
    for dt in accepted_data_types(P):
        if fd_.call(psz, [dt]) > 8:
            continue
        bad = []
        for q in (1, 4, 0x80, 0xff):
            env = {dt_key: dt | (q << 16)}
            for ev in rc.events():
                if ev.k == 'decl' and ev.name in dt_locals:
                    try:
                        env[ev.name] = fd_.ev(rc, ev.e, env)
                    except (Top, ZeroDivisionError):
                        pass
            hit = []
            for b in arm_blocks:
                try:
                    if fd_.ev(rc, b.cond, env):
                        hit.append(const_of(strip_casts(b.cond)['k'][1]))
                except (Top, ZeroDivisionError):
                    pass
            if hit != [dt]:
                bad.append(q)
        ctx.ob('C15.13', not bad, rc.name, 'arm of type 0x%04x is selected whatever the fixed-point position' % dt, rc.where(),
               'evaluated for q = 1, 4, 128, 255: the arm of the storage type is taken' if not bad else
               'with a fixed-point position (q = %s) the type matches no arm - the definition check accepts it (it looks at data_type & 0xffff) and the writer leaves constant blocks out by the sample width alone, so such a block reads back as zeros' % ', '.join(map(str, bad)))
    for dt in accepted_data_types(P):
        w_ = fd_.call(psz, [dt])
        if w_ <= 8:
            need += 1
            ctx.ob('C15.4', dt in arm_vals, rc.name, 'arm for automatically omitted type 0x%04x (width %d)' % (dt, w_), rc.where(),
                   'exact arm present' if dt in arm_vals else
                   'constant blocks of this type are omitted by the writer (width <= 8) but reconstruction has no arm for it: they read back as zeros')
    for name in ('JLS_DATATYPE_F32', 'JLS_DATATYPE_F64'):
        ctx.ob('C15.4', name in arms, rc.name, 'arm for %s' % name, rc.where(), 'dispatch arms %s' % sorted(map(str, arms)))
    ctx.floor('automatically omittable data types', need, 4)
    from .c10b import r9 as count_rule
    # fills are counted (shared with C10.9)
    fills = [ev for ev in rc.calls() if ev.callee in ('memset', '__builtin_memset', '__builtin___memset_chk', 'construct_f32', 'construct_f64')]
    for ev in fills:
        def on_event(e2, facts):
            if e2.k == 'store':
                l0 = strip_casts(e2.store_parts()[0])
                if l0.get('op') == 'member' and l0.get('field') == 'entry_count' and e2.store_parts()[2] == '+=':
                    return 'stop'
            if e2.k == 'ret' and ret_class(rc, e2, facts) in ('zero', 'unknown'):
                return 'target'
            return None
        w = find_path(rc, ev, on_event)
        ctx.ob('C15.4', w is None, rc.name, 'fill %s is counted' % show(ev.e)[:40], ev.where(), 'counted' if w is None else 'filled but not counted', w.render() if w else None)
    # automatic omission threshold
    thr = None
    for b in f.blocks.values():
        e = strip_casts(b.cond) if b.cond else None
        if e is not None and e.get('op') == 'bin' and e['o'] in ('<=', '<') and any(nd.get('op') == 'call' and nd.get('callee') == 'sample_size_bits' for nd in walk(e['k'][0])):
            c = const_of(e['k'][1])
            thr = c if e['o'] == '<=' else c - 1
    ctx.ob('C15.4', thr == 8, f.name, 'automatic omission only for widths <= 8', f.where(), 'threshold %s' % thr)
    # ---- C15.6 (shared with C09.7)
    from .c09 import omission_criterion

    class Sub:
        def __init__(self, ctx):
            self.ctx = ctx

        def __getattr__(self, k):
            return getattr(self.ctx, k)

        def ob(self, rid, ok, fn, construct, where='', detail='', witness=None):
            return self.ctx.ob('C15.6', ok, fn, construct, where, detail, witness)

        def floor(self, *a):
            pass
    omission_criterion(Sub(ctx), P)
    # ---- C15.5
    n = 0
    allowed = {'wr_data', 'jls_wr_fsr_omit_data'}
    for fn in P.all_functions():
        for ev in fn.stores():
            l0 = strip_casts(ev.store_parts()[0])
            if l0.get('op') == 'member' and l0.get('field') == 'write_omit_data':
                n += 1
                ctx.saw(fn)
                ctx.ob('C15.5', fn.name in allowed, fn.name, 'store to write_omit_data', ev.where(),
                       'API entry / per-block shift' if fn.name in allowed else 'the omission state is modified outside the API entry and the block writer')
    ctx.floor('stores to write_omit_data', n, 3)
    # the request takes effect: omit_data initial value derives from write_omit_data
    init = [d for d in f.stores() if (d.k == 'decl' and d.name == 'omit_data')]
    ok = bool(init) and any(nd.get('op') == 'member' and nd.get('field') == 'write_omit_data' for nd in walk(init[0].e or {}))
    ctx.ob('C15.5', ok, f.name, 'request feeds the omit decision', f.where(), '')


def _mask_kinds(f, e):
    """which guarantees a conjunct of the omit decision gives"""
    kinds = set()
    for c in _conjuncts(e):
        names = [nd for nd in walk(c) if nd.get('op') == 'member']
        if any(nd.get('field') == 'offset' and '.data_head' in tuple(f.path(nd) or ()) for nd in names):
            kinds.add('has_chunk')
        c0 = strip_casts(c)
        if c0.get('op') == 'bin' and c0['o'] in ('>=', '==', '>', '<=', '<') and any(nd.get('field') == 'entry_count' for nd in names) and \
                any(nd.get('field') in ('data_length', 'samples_per_data') for nd in names):
            # entry_count >= data_length  (or data_length <= entry_count): the block is full
            l, r = c0['k']
            lf = any(nd.get('op') == 'member' and nd.get('field') == 'entry_count' for nd in walk(l))
            if (lf and c0['o'] in ('>=', '==')) or ((not lf) and c0['o'] in ('<=', '==')):
                kinds.add('full_block')
    return kinds


def _conjuncts(e):
    e0 = strip_casts(e)
    if e0 is not None and e0.get('op') == 'bin' and e0['o'] in ('&&', '&'):
        return _conjuncts(e0['k'][0]) + _conjuncts(e0['k'][1])
    return [e0] if e0 is not None else []


def omit_guarantees(f, block, idx, depth=0):
    """conjuncts every value of omit_data reaching the position is masked with (intersection over paths)"""
    defs, entry = df.reaching_defs(f, 'omit_data', block, idx)
    if not defs or entry or depth > 8:
        return set(), ['no definition']
    out = None
    detail = []
    for d in defs:
        lhs, rhs, o = d.store_parts()
        k = set()
        if rhs is not None and o in ('&=', '='):
            k = _mask_kinds(f, rhs)
            if o == '&=' or (o == '=' and any(nd.get('op') == 'ref' and nd.get('name') == 'omit_data' for nd in walk(rhs))):
                k2, _ = omit_guarantees(f, d.block, d.idx, depth + 1)
                k |= k2
        detail.append('%s@%d %s' % (o, d.ln, sorted(k)))
        out = k if out is None else (out & k)
    return out or set(), detail


def _omit_branch(P):
    f = P.fn('wr_data', 'src/wr_fsr.c')
    br = None
    for b in f.blocks.values():
        e = strip_casts(b.cond) if b.cond else None
        if e is not None and e.get('op') == 'ref' and e.get('name') == 'omit_data' and len(b.succs) == 2:
            br = b
    if br is None:
        raise AnalysisBroken('wr_data: `if (omit_data)` branch not found')
    return f, br


def first_block_stored(ctx, P, rule):
    f, br = _omit_branch(P)
    ctx.saw(f)
    kinds, detail = omit_guarantees(f, br, len(br.events))
    ctx.ob(rule, 'has_chunk' in kinds, f.name, 'omit_data masked by "a data chunk already exists"', '%s:%d' % (f.file, br.line), '; '.join(detail))
    return f, br


def full_block_only(ctx, P, rule):
    f, br = _omit_branch(P)
    kinds, detail = omit_guarantees(f, br, len(br.events))
    ctx.ob(rule, 'full_block' in kinds, f.name, 'omit_data masked by "the block is full"', '%s:%d' % (f.file, br.line),
           '; '.join(detail) if 'full_block' in kinds else
           'a partial (last) block can be omitted: its sample count is stored nowhere else, so the reported length falls back to a multiple of sample_decimate_factor (%s)' % '; '.join(detail))


def position_flow_rule(ctx, P):
    n = 0
    for name in ('jls_core_fsr_summary1', 'jls_core_fsr_summaryN'):
        fn = P.fn(name)
        ctx.saw(fn, 1)
        pos = [p['name'] for p in fn.params if p.get('t') == 'i64']
        if not pos:
            raise AnalysisBroken('%s: chunk position parameter not found' % name)
        pos = pos[-1]
        # locals derived from pos carry the marker too
        carriers = {pos}
        for _ in range(3):
            for ev in fn.stores():
                lhs, rhs, o = ev.store_parts()
                l0 = strip_casts(lhs)
                if rhs is not None and l0.get('op') == 'ref' and any(nd.get('op') == 'ref' and nd.get('name') in carriers for nd in walk(rhs)):
                    carriers.add(l0['name'])
        bad = []
        uses = 0
        for b in fn.blocks.values():
            if b.cond is not None and any(nd.get('op') == 'ref' and nd.get('name') in carriers for nd in walk(b.cond)):
                uses += 1
                bad.append('condition %s at line %d' % (show(b.cond)[:40], b.line))
            for ev in b.events:
                if ev.e is None or not any(nd.get('op') == 'ref' and nd.get('name') in carriers for nd in walk(ev.e)):
                    continue
                uses += 1
                if ev.k == 'call':
                    if 'log' in (ev.callee or ''):
                        continue
                    bad.append('argument of %s() at line %d' % (ev.callee, ev.ln))
                elif ev.k in ('store', 'decl'):
                    lhs, rhs, o = ev.store_parts()
                    l0 = strip_casts(lhs)
                    p_ = fn.path(l0)
                    if l0.get('op') == 'ref' and l0.get('name') in carriers:
                        continue
                    if p_ is not None and '.offsets' in tuple(p_) and o == '=' and strip_casts(rhs).get('op') == 'ref':
                        continue
                    bad.append('store %s at line %d' % (show(ev.e)[:50], ev.ln))
        n += uses
        ctx.ob('C15.9', not bad, fn.name, 'the chunk position only becomes the index entry', fn.where(),
               '%d uses: index entry and logging only' % uses if not bad else
               'the position (0 = omitted) influences %s: summaries of an omitted block differ from those of the same block when stored' % '; '.join(bad[:2]))
    ctx.floor('uses of the chunk position in the reductions', n, 2)



def const_reference_rule(ctx, P):
    from ..fd import trace_calls, Top
    from ..ir import path_of
    fn = P.fn('wr_data')
    ctx.saw(fn, 1)
    preds = [c for c in fn.calls() if c.callee in P.functions and P.functions[c.callee].file == fn.file and
             len(c.args) == 3 and P.functions[c.callee].ret in ('u1', 'bool', '_Bool', 'u8', 'i32')]
    preds = [c for c in preds if any(ev.k == 'ret' for ev in P.functions[c.callee].events()) and
             any(b.cond is not None and any(m.get('op') == 'un' and m.get('o') == '*' for m in walk(b.cond)) for b in P.functions[c.callee].blocks.values())]
    if len(preds) != 1:
        raise AnalysisBroken('wr_data: constant-block predicate call not found (%d candidates)' % len(preds))
    pred = preds[0]
    width_fn = None
    for c in fn.calls():
        g = P.functions.get(c.callee)
        if g is not None and g.file == fn.file and len(c.args) == 1 and any(c2.callee == 'jls_datatype_parse_size' for c2 in g.calls()):
            width_fn = g.name
    if width_fn is None:
        raise AnalysisBroken('wr_data: sample width helper not found')
    # bind the member reads the skeleton needs
    keys = {}
    for b in fn.blocks.values():
        for e in [ev.e for ev in b.events if ev.e is not None] + ([b.cond] if b.cond is not None else []):
            for m in walk(e):
                if m.get('op') == 'member' and m.get('field') in ('entry_count', 'data_length', 'write_omit_data', 'shift_buffer', 'shift_amount'):
                    p = path_of(m) or fn.path(m)
                    if p is not None:
                        keys[m['field']] = str(p)
    derefs = set()
    for ev in fn.events():
        for m in walk(ev.e or {}):
            if m.get('op') == 'un' and m.get('o') == '*' and any(q.get('op') == 'member' and q.get('field') == 'data' for q in walk(m)):
                derefs.add('deref:' + show(strip_casts(m['k'][0])))
    bad = []
    n = 0
    for width in (1, 4, 8):
        for first in (0x21, 0x12, 0x0f, 0xf0, 0xa5, 0x01, 0x80, 0xff, 0x00):
            env = {'self': 1}
            env.update({keys.get('entry_count', 'x'): 64, keys.get('data_length', 'y'): 64, keys.get('write_omit_data', 'z'): 0, keys.get('shift_buffer', 'w'): 0, keys.get('shift_amount', 'v'): 0})
            for d in derefs:
                env[d] = first
            got = []
            a2 = strip_casts(pred.args[2])

            def on_event(ev, env_, sym, got=got):
                if ev is pred and not got:
                    got.append(env_.get(a2.get('name')) if a2.get('op') == 'ref' else None)
            try:
                trace_calls(P, fn, env, assume_calls={None: 0, width_fn: width}, partial=True, max_steps=3000,
                            no_inline=(width_fn, pred.callee), on_event=on_event)
            except Top:
                pass          # the skeleton after the predicate depends on its result
            if not got:
                raise AnalysisBroken('wr_data: the constant-block predicate is not reached by the trace for width %d (a member the skeleton depends on is not bound)' % width)
            n += 1
            sample = first & ((1 << width) - 1)
            want = sum(sample << (k * width) for k in range(8 // width))
            if got[0] != want:
                bad.append('width %d, first byte 0x%02x: bytes are compared with 0x%s, the first sample replicated is 0x%02x' %
                           (width, first, ('%02x' % got[0]) if isinstance(got[0], int) else got[0], want))
    ctx.ob('C15.10', not bad, fn.name, 'reference byte of the constant-block test', pred.where(),
           'first sample replicated over the byte for widths 1, 4, 8 (%d traces)' % n if not bad else
           '; '.join(bad[:2]) + ': a block of equal bytes whose samples differ (e.g. 4-bit samples alternating 1, 2) is taken for constant, left out, and read back as the replicated first sample')
    ctx.floor('reference byte traces', n, 20)


def reconstruct_index_rule(ctx, P, rule):
    fn = P.fn('reconstruct_omitted_chunk')
    params = set(p_['name'] for p_ in fn.params)
    cands = []
    for ev in fn.events('decl'):
        e = strip_casts(ev.e) if ev.e is not None else None
        if e is None or e.get('op') != 'bin' or e['o'] != '/':
            continue
        if not any(m.get('op') == 'member' and m.get('field') == 'sample_decimate_factor' for m in walk(e['k'][1])):
            continue
        cands.append(ev)
    if not cands:
        raise AnalysisBroken('reconstruct_omitted_chunk: summary entry index (.. / sample_decimate_factor) not found')
    for ev in cands:
        num = strip_casts(strip_casts(ev.e)['k'][0])
        refs = [m for m in walk(num) if m.get('op') == 'ref' and m.get('rk') in ('param', 'local')]
        from_param = [m['name'] for m in refs if m.get('rk') == 'param' or m['name'] in params]
        block_based = False
        for m in refs:
            if m.get('rk') == 'local':
                d = [x for x in fn.events('decl') if x.name == m['name'] and x.e is not None]
                if d and any(y.get('op') == 'member' and y.get('field') == 'samples_per_data' for y in walk(d[0].e)) and any(y.get('op') == 'bin' and y['o'] == '*' for y in walk(d[0].e)):
                    block_based = True
        ctx.ob(rule, block_based and not from_param, fn.name, 'first summary entry of the rebuilt block (%s)' % ev.name, ev.where(),
               'derived from the block start' if (block_based and not from_param) else
               'derived from %s, the sample that was asked for: a window that starts inside a left-out block is rebuilt from entries one or more positions too far, the tail of the block shows the values of the next block (or the read fails at the end of the summary chunk)' % (from_param or ['?'])[0])
