"""C14 — write-once: stored content is never rewritten, only links and head tables.

Decides the structural clauses of DESIGN §4 C14 (C14.1 .. C14.8).
"""
from ..export import AnalysisBroken
from ..ir import strip_casts, const_of, walk, show, kids, Path, obj_prefix
from ..graph import (find_path, ret_class, ev_dominates, control_deps_transitive, cond_facts)
from .. import df
from . import chunks
from .common import exceptions, compare_info

EXPL = ('Who-may-call and field-effect rules over the whole program: single libc write/ftruncate point; every jls_bk_fwrite site is a '
        'header, payload or file-header writer; member-wise stores to frozen chunk-header fields occur only in constructors before the '
        'chunk is written; in-place rewrites seek to the chunk\'s own remembered offset and restore the position; the only payload '
        'rewritten in place is a track head table whose entries change once from zero to the offset of a chunk already on disk; every '
        'linked chunk was written (and thereby stamped) before it is cached for later rewrite.')
NOT_DECIDED = 'Byte equality of a rewritten header with the original apart from the link fields follows from C14.3/4/8 given the compiler; no run-time claim is made.'

WRITER_ROOT_PREFIXES = ('jls_wr_', 'jls_twr_')


def run(ctx, sess):
    ctx.explanation = EXPL
    ctx.not_decided = NOT_DECIDED
    ctx.rule('C14.10', 'one writer at a time: every call into the synchronous writer from the threaded writer holds the process lock, so no second thread can move the file position between a chunk header and its payload (shared with C06.2)')
    from .common import relay
    from . import c06 as _src_c06
    relay(ctx, sess, _src_c06.run, {'C06.2': 'C14.10'})
    ctx.rule('C14.13', 'the process lock that serialises the two threads at the file is a lock: every lock operation of the backend either returns with the mutex held or the caller sees the failure - a lock that can time out behind a caller that ignores the result lets both threads write at the shared file position (shared with C06.3: may-held equals must-held at every lock operation)')
    relay(ctx, sess, _src_c06.run, {'C06.3': 'C14.13'}, minimum=10)
    P = sess.prog('default')
    exc = exceptions('C14')
    ctx.rule('C14.1', 'single write point: libc write only in jls_bk_fwrite, ftruncate only in jls_bk_truncate, and jls_bk_truncate is not reachable from any writer API root')
    ctx.rule('C14.2', 'who-may-call jls_bk_fwrite: each site writes a whole chunk header, the file header at offset 0, or is the payload writer')
    ctx.rule('C14.3', 'frozen header fields (tag, rsv0_u8, chunk_meta, payload_length, item_prev) are stored member-wise only in a constructor of that chunk before it is written; payload_prev_length and crc32 only in jls_raw_wr_header, the former only when appending')
    ctx.rule('C14.4', 'in-place header rewrite: jls_raw_wr_header outside the append operation is preceded by a seek to the same chunk\'s remembered offset')
    ctx.rule('C14.5', 'in-place payload rewrite: jls_raw_wr_payload outside the append operation rewrites only a track head table, after seeking to that head chunk')
    ctx.rule('C14.6', 'head table entries are written once: a store to head_offsets[i] reachable from writer roots is guarded by head_offsets[i] == 0 and stores the offset of a chunk already written')
    ctx.rule('C14.7', 'seek bracket: after an in-place write every path to a zero return restores the saved position')
    ctx.rule('C14.11', 'the file header is written when the file is created and when it is closed, never in between: the function that writes the file header at offset 0 is called only from the raw open and the raw close')
    ctx.rule('C14.12', 'no chunk is left half written by an argument error: where a public writer function hands a caller-supplied pointer straight to the chunk writer as payload, a missing pointer (NULL with a non-zero size) is rejected before the chunk header is written - the payload writer rejects it only after the header is in the file, and the next chunk would overwrite that header')
    ctx.rule('C14.9', 'the append operation is used only at the end of the file: in writer code no jls_raw_wr is reachable from a seek to a remembered chunk offset unless the saved end position was restored first')
    ctx.rule('C14.8', 'a chunk is linked (and its header cached for later rewrite) only after it was written and stamped: jls_raw_wr(&X.hdr) dominates jls_core_update_item_head(.., &X)')

    roots = sorted(f.name for f in P.all_functions() if f.api and f.name.startswith(WRITER_ROOT_PREFIXES))
    if len(roots) < 10:
        raise AnalysisBroken('writer API roots not found (%d)' % len(roots))
    wreach = P.reachable_from(roots)
    for n in wreach:
        if n in P.functions:
            ctx.saw(P.functions[n])

    # ---- C14.1
    OUT = {'write': 'jls_bk_fwrite', 'pwrite': None, 'writev': None, 'fwrite': None, 'fputs': None, 'fputc': None,
           'ftruncate': 'jls_bk_truncate', 'truncate': None, 'mmap': None, 'fallocate': None, 'posix_fallocate': None,
           'sendfile': None, 'copy_file_range': None, 'pwrite64': None, 'ftruncate64': None}
    found = {'write': 0, 'ftruncate': 0}
    for name, owner in OUT.items():
        for fn, ev in P.callers().get(name, []):
            ctx.saw(fn, 1)
            if name in found:
                found[name] += 1
            ctx.ob('C14.1', owner is not None and fn.name == owner, fn.name, 'libc %s()' % name, ev.where(),
                   'output primitive %s outside its single owner %s' % (name, owner))
    if not found['write'] or not found['ftruncate']:
        raise AnalysisBroken('backend anchors moved: write=%d ftruncate=%d' % (found['write'], found['ftruncate']))
    for fn, ev in P.callers().get('open', []):
        ctx.ob('C14.1', fn.name == 'jls_bk_fopen', fn.name, 'libc open()', ev.where(), 'file opened outside jls_bk_fopen')
    bad = 'jls_bk_truncate' in wreach
    detail = ''
    if bad:
        for r in roots:
            ps = P.call_paths(r, 'jls_bk_truncate', 1)
            if ps:
                detail = ' -> '.join(ps[0])
                break
    ctx.ob('C14.1', not bad, 'jls_bk_truncate', 'reachable from writer roots', P.fn('jls_bk_truncate').where(), detail)

    # ---- C14.2
    fh_size = P.record('jls_file_header_s')['size']
    ch_size = P.record('jls_chunk_header_s')['size']
    payload_writers = set()
    sites = P.callers().get('jls_bk_fwrite', [])
    if not sites:
        raise AnalysisBroken('no caller of jls_bk_fwrite')
    for fn, ev in sites:
        ctx.saw(fn, 1)
        a = ev.args
        src = strip_casts(a[1])
        t = src.get('t', '')
        inner_t = strip_casts(src['k'][0]).get('t') if src.get('op') == 'un' and src['o'] == '&' else None
        cnt = const_of(a[2])
        key = 'jls_bk_fwrite(%s, %s)' % (show(src), show(a[2]))
        if t == 'p:s:jls_chunk_header_s' or inner_t == 's:jls_chunk_header_s':
            ctx.ob('C14.2', cnt == ch_size, fn.name, key, ev.where(), 'chunk header write of %s bytes, sizeof = %d' % (cnt, ch_size))
        elif t == 'p:s:jls_file_header_s' or inner_t == 's:jls_file_header_s':
            seek0 = [c for c in fn.calls('jls_bk_fseek') if const_of(c.args[1]) == 0 and const_of(c.args[2]) == 0 and ev_dominates(c, ev)]
            ctx.ob('C14.2', cnt == fh_size and bool(seek0), fn.name, key, ev.where(),
                   'file header write of %s bytes (sizeof %d); dominated by seek to offset 0: %s' % (cnt, fh_size, bool(seek0)))
        else:
            payload_writers.add(fn.name)
            # payload writer: bytes come from the caller's payload parameter or the zero/CRC footer
            p = fn.path(src)
            okp = p is not None and (p.root_kind == 'param' or p.root_kind == 'local')
            ctx.ob('C14.2', okp and fn.name.endswith('wr_payload'), fn.name, key, ev.where(),
                   'byte write outside a header/file-header/payload writer' if not (okp and fn.name.endswith('wr_payload')) else 'payload writer')

    # ---- C14.3
    ctors = [c for c in chunks.constructors(P) if c.wr_calls]
    if len(ctors) < 8:
        raise AnalysisBroken('chunk constructors found: %d (expected >= 8)' % len(ctors))
    nfrozen = 0
    for fn, ev, field, p in chunks.hdr_field_stores(P):
        ctx.saw(fn)
        if field in chunks.FROZEN:
            nfrozen += 1
            k = '%s:%s' % (fn.name, field)
            hdrp = tuple(p[:-1]) if p is not None else None
            mine = [c for c in ctors if c.fn is fn and hdrp is not None and tuple(c.hdr) == hdrp]
            if not mine and fn.name in chunks.ctor_helpers(P):
                sites = [c for c in ctors if c.helper == fn.name]
                late = None
                for c in sites:
                    for w in c.wr_calls:
                        late = late or find_path(c.fn, w, lambda e2, facts, c=c: 'target' if e2 is c.offset_store else None, refine=False)
                ctx.ob('C14.3', bool(sites) and late is None, fn.name, 'store to %s' % field, ev.where(),
                       'in a constructor helper that each of its %d callers invokes before jls_raw_wr' % len(sites) if (sites and late is None) else
                       'the constructor helper runs after the chunk was written (or has no constructing caller)', late.render() if late else None)
                continue
            if not mine:
                if k in exc:
                    ctx.note('exception %s: %s' % (k, exc[k]))
                    continue
                ctx.ob('C14.3', False, fn.name, 'store to %s' % field, ev.where(),
                       '`%s` stores a frozen header field outside a constructor of that chunk' % show(ev.e))
                continue
            c = mine[0]
            # not after the chunk was written: no path from jls_raw_wr(&X.hdr) to this store
            late = None
            for w in c.wr_calls:
                wit = find_path(fn, w, lambda e2, facts, ev=ev: 'target' if e2 is ev else None, refine=False)
                if wit is not None:
                    late = wit
            ctx.ob('C14.3', late is None, fn.name, 'store to %s' % field, ev.where(),
                   'frozen field stored after the chunk was written' if late else 'in constructor, before jls_raw_wr',
                   late.render() if late else None)
        elif field in ('payload_prev_length', 'crc32'):
            ok = fn.name == 'jls_raw_wr_header'
            detail = 'stamped in jls_raw_wr_header'
            if ok and field == 'payload_prev_length':
                # only under fpos >= fend
                cds = control_deps_transitive(fn, ev.block.id)
                guard = False
                for (bid, label) in cds:
                    c = fn.blocks[bid].cond
                    e = strip_casts(c) if c else None
                    if e is not None and e.get('op') == 'bin' and e['o'] in ('>=', '>', '<', '<='):
                        lp, rp = fn.path(strip_casts(e['k'][0])), fn.path(strip_casts(e['k'][1]))
                        if lp is not None and rp is not None and {lp.last_field(), rp.last_field()} == {'fpos', 'fend'}:
                            # fpos >= fend on T, or fend <= fpos on T, or fpos < fend on F ...
                            o = e['o']
                            if lp.last_field() == 'fend':
                                o = {'>=': '<=', '>': '<', '<': '>', '<=': '>='}[o]
                            if (o in ('>=', '>') and label == 'T') or (o in ('<', '<=') and label == 'F'):
                                guard = True
                ok = guard
                detail = 'payload_prev_length stamped only when appending (fpos >= fend): %s' % guard
            ctx.ob('C14.3', ok, fn.name, 'store to %s' % field, ev.where(), detail)
    ctx.floor('frozen-field stores seen', nfrozen, 40)

    # ---- C14.4 / C14.7 for header rewrites
    for fn, ev in P.callers().get('jls_raw_wr_header', []):
        ctx.saw(fn, 1)
        if fn.name == 'jls_raw_wr':
            continue
        hp = fn.path(ev.args[1])
        obj = Path(tuple(hp[:-1])) if hp is not None and hp[-1] == '.hdr' else None
        seeks = [c for c in fn.calls('jls_raw_chunk_seek') if ev_dominates(c, ev)]
        good = None
        for c in seeks:
            sp = fn.path(strip_casts(c.args[1]))
            if sp is not None and obj is not None and tuple(sp) == tuple(obj) + ('.offset',):
                good = c
        # no other seek between the good seek and the write
        ok = good is not None
        detail = 'seek to %s.offset dominates the header write' % obj if ok else 'no dominating jls_raw_chunk_seek(%s.offset) before rewriting %s' % (obj, hp)
        if ok:
            for c in seeks:
                if c is not good and ev_dominates(good, c):
                    ok = False
                    detail = 'another seek (line %d) lies between the seek to the chunk and the header write' % c.ln
        ctx.ob('C14.4', ok, fn.name, 'jls_raw_wr_header(%s)' % show(strip_casts(ev.args[1])), ev.where(), str(detail))
        _bracket(ctx, fn, ev, 'jls_raw_chunk_seek', 'jls_raw_chunk_tell')

    # ---- C14.5 payload rewrites
    n5 = 0
    for fn, ev in P.callers().get('jls_raw_wr_payload', []):
        ctx.saw(fn, 1)
        if fn.name == 'jls_raw_wr':
            # append operation: must follow the header write of the same chunk
            hw = [c for c in fn.calls('jls_raw_wr_header') if ev_dominates(c, ev)]
            ctx.ob('C14.5', bool(hw), fn.name, 'append: payload after header', ev.where(), 'jls_raw_wr_header dominates jls_raw_wr_payload: %s' % bool(hw))
            continue
        n5 += 1
        pp = fn.path(ev.args[2])
        sz = ev.args[1]
        szc = const_of(sz)
        is_table = pp is not None and pp.last_field() == 'head_offsets'
        rec = P.record('jls_core_track_s')
        tbl = [f for f in rec['fields'] if f['name'] == 'head_offsets']
        tbl_size = tbl[0]['size_bits'] // 8 if tbl else None
        seeks = [c for c in fn.calls('jls_raw_chunk_seek') if ev_dominates(c, ev)]
        seek_ok = False
        for c in seeks:
            sp = fn.path(strip_casts(c.args[1]))
            if sp is not None and pp is not None and sp.last_field() == 'offset' and tuple(sp[:-2]) == tuple(pp[:-1]) and sp[-2] == '.head':
                seek_ok = True
        ctx.ob('C14.5', is_table and szc == tbl_size and seek_ok, fn.name, 'jls_raw_wr_payload(%s)' % show(strip_casts(ev.args[2])), ev.where(),
               'payload %s, size %s (table %s), seek to the head chunk: %s' % (pp, szc, tbl_size, seek_ok))
        _bracket(ctx, fn, ev, 'jls_raw_chunk_seek', 'jls_raw_chunk_tell')
    if n5 == 0:
        raise AnalysisBroken('no in-place payload rewrite found (jls_track_wr_head anchor moved)')

    # ---- C14.7 for the file header
    f = P.fn('wr_file_header')
    for ev in f.calls('jls_bk_fwrite'):
        _bracket(ctx, f, ev, 'jls_bk_fseek', 'jls_bk_ftell', seek_arg=1, allow_zero_test=True)

    # ---- C14.6
    head_table_rule(ctx, P, wreach, 'C14.6')
    file_header_rule(ctx, P)
    payload_pointer_rule(ctx, P)

    # ---- C14.9
    n9 = 0
    for name in sorted(wreach):
        fn = P.functions.get(name)
        if fn is None:
            continue
        appenders = set(g.name for g in P.all_functions() if 'jls_raw_wr' in P.reachable_from([g.name])) | {'jls_raw_wr'}
        wrs = [c for c in fn.calls() if c.callee in appenders]
        if not wrs:
            continue
        saved = set()
        for ev in fn.stores():
            lhs, rhs, o = ev.store_parts()
            l0 = strip_casts(lhs)
            if rhs is not None and l0.get('op') == 'ref' and any(nd.get('op') == 'call' and nd.get('callee') == 'jls_raw_chunk_tell' for nd in walk(rhs)):
                saved.add(l0['name'])
        for sk in fn.calls('jls_raw_chunk_seek'):
            a = strip_casts(sk.args[1])
            if a.get('op') == 'ref' and a.get('name') in saved:
                continue          # restoring the saved position
            n9 += 1

            def on_event(e2, facts):
                if e2.k == 'call' and e2.callee in ('jls_raw_seek_end',):
                    return 'stop'
                if e2.k == 'call' and e2.callee == 'jls_raw_chunk_seek':
                    a2 = strip_casts(e2.args[1])
                    if a2.get('op') == 'ref' and a2.get('name') in saved:
                        return 'stop'
                if e2.k == 'call' and e2.callee in appenders:
                    return 'target'
                return None
            w = find_path(fn, sk, on_event)
            ctx.ob('C14.9', w is None, fn.name, 'no append after seeking to %s' % show(a)[:40], sk.where(),
                   'position restored before any append' if w is None else
                   'jls_raw_wr runs at a remembered chunk offset: a whole chunk (header and payload) already on disk is rewritten in place', w.render() if w else None)
    ctx.note('C14.9: %d seeks to remembered offsets in functions that also append' % n9)
    # ---- C14.8
    n8 = 0
    for fn, ev, hp, cp in chunks.link_calls(P):
        ctx.saw(fn, 1)
        n8 += 1
        w = chunks.written_before_link(fn, ev, cp)
        ctx.ob('C14.8', w is not None, fn.name, 'link %s' % cp, ev.where(),
               'jls_raw_wr(&%s.hdr) dominates the link' % cp if w else
               'the chunk is linked (its header copied into the list head for later in-place rewrite) before jls_raw_wr stamped payload_prev_length/crc32: the later rewrite changes payload_prev_length on disk')
    ctx.floor('link call sites', n8, 8)


def _elem_zero_facts(fn, cond, label):
    """facts (path+index, eq/ne, 0) from conditions on array elements: !a[i], a[i] == 0"""
    if cond is None or label not in ('T', 'F'):
        return []
    truth = label == 'T'
    e = strip_casts(cond)
    while e.get('op') == 'un' and e['o'] == '!':
        truth = not truth
        e = strip_casts(e['k'][0])
    c = 0
    if e.get('op') == 'bin' and e['o'] in ('==', '!='):
        l, r = strip_casts(e['k'][0]), strip_casts(e['k'][1])
        if const_of(r) is not None:
            e2, c = l, const_of(r)
        elif const_of(l) is not None:
            e2, c = r, const_of(l)
        else:
            return []
        eq = (e['o'] == '==') == truth
        e = e2
        kind = 'eq' if eq else 'ne'
    else:
        kind = 'ne' if truth else 'eq'
    if e.get('op') != 'sub':
        return []
    p = fn.path(e)
    if p is None:
        return []
    return [((tuple(p), show(e['k'][1])), kind, c)]


def _offset_of_written_chunk(P, fn, store_ev, rhs):
    r = strip_casts(rhs)
    p = fn.path(r)
    if p is not None and p.last_field() == 'offset':
        obj = tuple(p[:-1])
        for c in fn.calls('jls_raw_wr'):
            hp = fn.path(c.args[1])
            if hp is not None and tuple(hp) == obj + ('.hdr',) and ev_dominates(c, store_ev):
                return True, '%s of a chunk written at line %d' % (p, c.ln)
        return False, '%s stored before that chunk was written' % p
    if r.get('op') == 'ref' and r.get('rk') == 'param':
        # every caller passes the offset of a chunk it has written
        pi = [i for i, q in enumerate(fn.params) if q['name'] == r['name']]
        if not pi:
            return False, 'parameter not found'
        bad = []
        n = 0
        for cf, cev in P.callers().get(fn.name, []):
            n += 1
            a = strip_casts(cev.args[pi[0]])
            ok, d = _written_offset_value(cf, cev, a)
            if not ok:
                bad.append('%s (%s): %s' % (cf.name, cev.where(), d))
        if bad:
            return False, 'caller passes an offset that is not a written chunk: ' + '; '.join(bad)
        return n > 0, 'parameter; all %d callers pass the offset of a chunk they wrote' % n
    return False, 'value %s is not the offset of a chunk' % show(r)


def _written_offset_value(fn, at_ev, a):
    """a is X.offset (or a local derived from jls_raw_chunk_tell taken before a
    dominating jls_raw_wr) for a chunk written before at_ev."""
    p = fn.path(a)
    if p is not None and p.last_field() == 'offset':
        obj = tuple(p[:-1])
        for c in fn.calls('jls_raw_wr'):
            hp = fn.path(c.args[1])
            if hp is not None and tuple(hp) == obj + ('.hdr',) and ev_dominates(c, at_ev):
                return True, 'chunk written'
        return False, '%s not written before' % p
    if a.get('op') == 'ref' and a.get('rk') == 'local':
        defs, _ = df.reaching_defs(fn, a['name'], at_ev.block, at_ev.idx)
        # a copy of X.offset of a chunk that is written before the use
        if defs:
            rhss = [strip_casts(d.e if d.k == 'decl' else d.store_parts()[1]) for d in defs if (d.e if d.k == 'decl' else d.store_parts()[1]) is not None]
            ps = [fn.path(r) for r in rhss]
            if len(rhss) == len(defs) and all(p_ is not None and p_.last_field() == 'offset' for p_ in ps):
                return _written_offset_value(fn, at_ev, rhss[0]) if len(set(str(p_) for p_ in ps)) == 1 else (False, 'several chunk objects')
        if defs and all(any(n.get('op') == 'call' and n.get('callee') == 'jls_raw_chunk_tell' for n in walk(d.store_parts()[1] or {})) for d in defs):
            # a jls_raw_wr lies between the tell and the use
            for c in fn.calls('jls_raw_wr'):
                if all(ev_dominates(d, c) for d in defs) and ev_dominates(c, at_ev):
                    return True, 'position taken before a dominating jls_raw_wr'
            return False, 'no jls_raw_wr between taking the position and using it'
    return False, 'value %s' % show(a)


def _bracket(ctx, fn, write_ev, seek_name, tell_name, seek_arg=1, allow_zero_test=False):
    """Every path from the in-place write to a zero return passes a seek whose
    target is a local assigned from tell() before the write."""
    saved = set()
    for ev in fn.stores():
        lhs, rhs, o = ev.store_parts()
        l0 = strip_casts(lhs)
        if rhs is not None and l0.get('op') == 'ref' and any(n.get('op') == 'call' and n.get('callee') == tell_name for n in walk(rhs)):
            if ev_dominates(ev, write_ev):
                saved.add(l0['name'])

    def is_restore(e2):
        if e2.k == 'call' and e2.callee == seek_name:
            a = strip_casts(e2.args[seek_arg])
            return a.get('op') == 'ref' and a['name'] in saved
        return False

    def edge_ok(b, s, label):
        if allow_zero_test and b.cond is not None:
            for (var, kind, c) in cond_facts(fn, b.cond, label):
                if var in saved and kind == 'eq' and c == 0:
                    return False      # saved position 0: nothing to restore (new file)
        return True

    def on_event(e2, facts):
        if is_restore(e2):
            return 'stop'
        if e2.k == 'ret' and ret_class(fn, e2, facts) in ('zero', 'unknown', 'void'):
            # `return rc` with rc possibly zero counts
            return 'target'
        return None
    w = find_path(fn, write_ev, on_event, edge_ok=edge_ok) if saved else 'no saved position'
    ok = saved and w is None
    ctx.ob('C14.7', bool(ok), fn.name, 'restore position after %s' % write_ev.callee, write_ev.where(),
           'saved in %s; restored on every success path' % sorted(saved) if ok else
           ('position not saved from %s() before the write' % tell_name if not saved else 'a success return is reachable without restoring the position'),
           w.render() if (saved and w is not None) else None)


def head_table_rule(ctx, P, wreach, rule):
    """a track-head entry changes once, from zero to the offset of a chunk that is already in the file"""
    n6 = 0
    for fn in P.all_functions():
        if fn.name not in wreach:
            continue
        for ev in fn.stores():
            lhs, rhs, o = ev.store_parts()
            l0 = strip_casts(lhs)
            if l0.get('op') != 'sub':
                continue
            p = fn.path(l0)
            if p is None or len(p) < 3 or p[-2] != '.head_offsets':
                continue
            n6 += 1
            ctx.saw(fn)
            idx = l0['k'][1]
            # guard: control dependent on head_offsets[idx] == 0
            guard = False
            for (bid, label) in control_deps_transitive(fn, ev.block.id):
                c = fn.blocks[bid].cond
                for (var, kind, cval) in _elem_zero_facts(fn, c, label):
                    if var == (tuple(p), show(idx)) and kind == 'eq' and cval == 0:
                        guard = True
            # value: X.offset of a chunk written before, or a parameter (then callers are checked)
            val_ok, vdetail = _offset_of_written_chunk(P, fn, ev, rhs)
            ctx.ob(rule, guard and val_ok, fn.name, 'store to head_offsets[%s]' % show(idx), ev.where(),
                   'guarded by zero test: %s; value: %s' % (guard, vdetail))
    ctx.floor('head table stores reachable from writer roots', n6, 2)


def file_header_rule(ctx, P):
    """who may write the file header"""
    # writers of the file header: functions that pass an object of the file-header record to jls_bk_fwrite
    hw = set()
    for fn, ev in P.callers().get('jls_bk_fwrite', []):
        a = strip_casts(ev.args[1]) if len(ev.args) > 1 else None
        if a is not None and any((nd.get('t') or '').endswith('jls_file_header_s') for nd in walk(a)):
            hw.add(fn.name)
    if not hw:
        raise AnalysisBroken('no function writes a jls_file_header_s')
    n = 0
    for h in sorted(hw):
        for fn, ev in P.callers().get(h, []):
            n += 1
            ctx.saw(fn, 1)
            ok = fn.name in ('jls_raw_open', 'jls_raw_close') or fn.name in hw
            ctx.ob('C14.11', ok, fn.name, 'call of %s()' % h, ev.where(),
                   'file creation / close' if ok else
                   'the file header (offset 0) is rewritten outside open and close: bytes that were stored are modified while the recording is in progress')
    ctx.floor('calls of the file header writer', n, 2)


def payload_pointer_rule(ctx, P):
    from ..graph import cond_facts
    n = 0
    for fn in P.all_functions():
        if not fn.api or fn.file != 'src/writer.c':
            continue
        ptrs = {p['name'] for p in fn.params if p.get('t', '').startswith('p:') and not p.get('t', '').startswith('p:s:')}
        sizes = {p['name'] for p in fn.params if p.get('t') in ('u32', 'u64')}
        for c in fn.calls('jls_raw_wr'):
            a = df.resolve_local(fn, c.args[2], c.block, c.idx) if len(c.args) > 2 else None
            a0 = strip_casts(a) if a is not None else None
            if a0 is None or a0.get('op') != 'ref' or a0.get('name') not in ptrs:
                continue
            v = a0['name']
            n += 1
            ctx.saw(fn, 1)
            ok_edges = set()
            for b in fn.blocks.values():
                if b.cond is None or len(b.succs) < 2:
                    continue
                for label in ('T', 'F'):
                    for (var, kind, cval) in cond_facts(fn, b.cond, label):
                        if str(var) == v and kind == 'ne' and cval == 0:
                            ok_edges.add((b.id, label))
                        if str(var) in sizes and kind == 'eq' and cval == 0:
                            ok_edges.add((b.id, label))      # nothing to write: a missing pointer is fine
                # `size && !ptr` rejecting: its F edge means (size == 0 or ptr != 0)
                e = strip_casts(b.cond)
                if e.get('op') == 'bin' and e['o'] == '&&' and any(nd.get('op') == 'un' and nd.get('o') == '!' and strip_casts(nd['k'][0]).get('name') == v for nd in walk(e)):
                    ok_edges.add((b.id, 'F'))
            w = find_path(fn, 'entry', lambda e2, facts: 'target' if e2 is c else None, refine=False,
                          edge_ok=lambda b, s_, label: (b.id, label) not in ok_edges)
            ctx.ob('C14.12', w is None, fn.name, 'payload pointer %s checked before the chunk is started' % v, c.where(),
                   'NULL with a non-zero size is rejected first' if w is None else
                   '%s can be NULL with a non-zero size when the chunk header is written; the payload writer then fails, the header stays in the file and the next chunk overwrites it' % v,
                   w.render() if w else None)
    ctx.floor('caller pointers forwarded as chunk payload', n, 1)
