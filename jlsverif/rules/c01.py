"""C01 — FSR round trip (narrow): the two clauses whose truth is visible in code shape."""
from ..export import AnalysisBroken
from ..ir import strip_casts, const_of, walk, show, kids
from ..graph import find_path, ret_class
from .common import compare_info

EXPL = ('Shape clauses of C01 (the round trip itself is not decided): the level-1 cache hit is keyed by the signal id and the sample range; sample bytes of the read buffer are used only after a checked read / reconstruction on the same path; the read buffer growth is strictly increasing and the size requested on TOO_BIG covers what the payload reader compares for every byte residue; the first block is always stored and a block is omitted only when full; the sample-id offset is applied once per value and api / file ids are never compared (may-dataflow); the seek descent carries no accumulator from level to level; at close every summary level whose index still refers to unreachable chunks is written.')
NOT_DECIDED = ('Bit-exactness of the packer and window-copy arithmetic, seek step sizes: value arithmetic, not decided (the defects found there were found by replay, not by a rule).')


def run(ctx, sess):
    ctx.explanation = EXPL
    ctx.not_decided = NOT_DECIDED
    P = sess.prog('default')
    ctx.rule('C01.a', 'the cached level-1 index/summary is reused only when its chunk_meta matches the requested signal id and the sample lies in its range')
    ctx.rule('C01.c', '"whatever reads were issued before": sample bytes in the core read buffer are used only after a checked read or reconstruction of that block succeeded on the same path (no block is served from what an earlier call left in the buffer)')
    ctx.rule('C01.d', '"whatever the first sample id was": the first block of a signal, which carries the sample-id offset, is always stored (omission masked by "a data chunk already exists")')
    ctx.rule('C01.e', '"whatever the first sample id was": the sample_id_offset is applied exactly once to each id and no compare mixes an api-relative id with a file id, in every function of the sample read path that mentions the offset')
    ctx.rule('C01.f', 'seek descent: in the index descent of jls_core_fsr_seek / jls_core_ts_seek no compound-updated local (other than the level counter) carries a value from one level into the next; the step size of a level is computed from the definition and that level alone')
    ctx.rule('C01.g', '"the reader reports exactly the number of samples": at close every FSR summary level whose index holds entries is written, unless its single entry is the first chunk of the level below and the level has no chunk on disk (then that chunk is reachable through its own track head)')
    ctx.rule('C01.h', '"the reader reports exactly the number of samples": a block is omitted only when it is full; the sample count of a partial block exists only in its data chunk')
    ctx.rule('C01.i', '"for every accepted data type, incl. 1- and 4-bit": the threaded entry queues ceil(count x bits / 8) bytes of the caller\'s block for every width and count residue, so no trailing sub-byte sample is dropped before the writer sees it (shared with C06.13)')
    ctx.rule('C01.j', '"however the writes were split into calls" includes empty ones: with data_length == 0 the block writer jls_wr_fsr_data reaches no store into the writer state (first sample id, block header, counters) - an empty first call must not decide where the signal starts')
    ctx.rule('C01.k', '"however the writes were split into calls", sub-byte types: when a block is flushed, the bits kept in its last, partial byte are the block\'s own remainder (entry_count x width mod 8), computed from the block header - not the running shift state of the packer, which belongs to the call in progress')
    ctx.rule('C01.l', '"for any signal definition the writer accepts": the alignment keeps the divisibility it established between the block size, the decimation factors and the entries per summary (shared with C16.7) - a definition whose entries per summary is not a multiple of the summary decimation makes upper index levels unreadable')
    ctx.rule('C01.n', '"however the writes were split into calls", sub-byte types: the byte that carries the pending bits to the next call also holds bits of the caller\'s buffer behind the last sample - wherever it is merged into stored data it is masked to the pending bit count, or every store into it is masked')
    ctx.rule('C01.o', '"every type": constant blocks of types of 8 bits or less are rebuilt from the summary mean, which is the stored code only as long as the sample converter rescales nothing, whatever the fixed-point position (shared with C02.10)')
    ctx.rule('C01.p', '"whatever reads were issued before": the cached level-1 index / summary of the sample reader is marked valid only after both chunks were read - a failed read in between must not leave the previous summary behind a fresh tag (shared with C04.9)')
    ctx.rule('C01.m', '"however the writes were split into calls", sub-byte types: traced for widths 1 and 4, partly filled blocks and call sizes that stay in the block, fill it exactly or cross into the next ones, the bit packer reads every byte of the caller\'s data exactly once')
    ctx.rule('C01.b', 'grow-to-fit: buffer growth strictly increasing and overflow-free; the grow request covers the on-disk payload size for every residue')
    f = P.fn('jls_core_rd_fsr_level1')
    ctx.saw(f)
    sig = [p['name'] for p in f.params if p['t'] == 'u16']
    if not sig:
        raise AnalysisBroken('jls_core_rd_fsr_level1: signal id parameter not found')
    sig = sig[0]
    # key-equal edges
    key_edges = set()
    range_edges = set()
    for b in f.blocks.values():
        ci = compare_info(b.cond)
        if ci is not None:
            l, r, eq_label = ci
            for x, y in ((l, r), (r, l)):
                if any(nd.get('op') == 'member' and nd.get('field') == 'chunk_meta' and 'rd_index_chunk' in str(f.path(nd) or '') for nd in walk(x)) and \
                        any(nd.get('op') == 'ref' and nd.get('name') == sig for nd in walk(y)):
                    key_edges.add((b.id, eq_label))
        e = strip_casts(b.cond) if b.cond else None
        if e is not None and e.get('op') == 'bin' and e['o'] in ('>=', '<', '>', '<=') and any(nd.get('op') == 'ref' and nd.get('name') == 'start_sample_id' for nd in walk(e)):
            range_edges.add((b.id, 'T'))
    # cache-hit returns: zero returns reachable without reading a chunk
    hits = []
    for r in f.returns():
        w = find_path(f, 'entry', lambda e2, facts: 'stop' if (e2.k == 'call' and e2.callee in ('jls_core_rd_chunk', 'jls_core_fsr_seek')) else
                      ('target' if (e2 is r and ret_class(f, e2, facts) in ('zero', 'unknown')) else None))
        if w is not None:
            hits.append(r)
    if not hits:
        raise AnalysisBroken('no cache-hit return found in jls_core_rd_fsr_level1')
    for r in hits:
        w = find_path(f, 'entry', lambda e2, facts: 'stop' if (e2.k == 'call' and e2.callee in ('jls_core_rd_chunk', 'jls_core_fsr_seek')) else ('target' if e2 is r else None),
                      edge_ok=lambda b, s, label: (b.id, label) not in key_edges)
        ctx.ob('C01.a', w is None and bool(key_edges), f.name, 'cache hit requires chunk_meta == level 1 | signal id', r.where(),
               'keyed by the signal' if (w is None and key_edges) else 'the cached index of another signal can be returned (reads on other signals change the result)', w.render() if w else None)
        # both range compares on the path
        n_range = len(range_edges)
        w2 = None
        for edge in range_edges:
            w2 = w2 or find_path(f, 'entry', lambda e2, facts: 'stop' if (e2.k == 'call' and e2.callee in ('jls_core_rd_chunk', 'jls_core_fsr_seek')) else ('target' if e2 is r else None),
                                 edge_ok=lambda b, s, label, edge=edge: (b.id, label) != edge)
        ctx.ob('C01.a', w2 is None and n_range >= 2, f.name, 'cache hit requires the sample inside the cached index range', r.where(),
               '%d range compares on every path' % n_range if (w2 is None and n_range >= 2) else 'a cache hit is possible for a sample outside the cached range', w2.render() if w2 else None)
    # the key constant: level 1 << 12 | id & 0xff  matches the writer's packing
    consts = set()
    for b in f.blocks.values():
        if (b.id, 'T') in key_edges or (b.id, 'F') in key_edges:
            for nd in walk(b.cond):
                if nd.get('op') == 'bin' and nd['o'] in ('<<', '&') and const_of(nd['k'][1]) is not None:
                    consts.add((nd['o'], const_of(nd['k'][1]), const_of(nd['k'][0])))
    ok = ('<<', 12, 1) in consts
    ctx.ob('C01.a', ok, f.name, 'cache key uses level 1 in bits 15:12', f.where(), 'constants %s' % sorted(consts, key=str))
    # the cached copy is taken from the chunk just read
    cp = [ev for ev in f.calls('jls_buf_copy')]
    ctx.ob('C01.a', len(cp) >= 2, f.name, 'index and summary are copied into the cache after each read', f.where(), '%d copies' % len(cp))
    from .c10b import r8
    r8(ctx, P, rule='C01.b')
    from .c04 import _freshness
    from .common import exceptions
    _freshness(ctx, P, exceptions('C04'), rule='C01.c', only=lambda n: 'fsr' in n and 'statistics' not in n, minimum=3)
    from .c15 import first_block_stored
    first_block_stored(ctx, P, 'C01.d')
    from .c15 import full_block_only
    full_block_only(ctx, P, 'C01.h')
    from .frames import frames_rule
    frames_rule(ctx, P, 'C01.e', kinds=('samples',), minimum=3)
    descent_purity(ctx, P, 'C01.f')
    empty_call_rule(ctx, P, 'C01.j')
    block_tail_rule(ctx, P, 'C01.k')
    packer_reads_rule(ctx, P, 'C01.m')
    pending_bits_rule(ctx, P, 'C01.n')
    from .common import relay as _relay
    from . import c16 as _src_c16
    _relay(ctx, sess, _src_c16.run, {'C16.7': 'C01.l'}, minimum=1)
    from . import c02 as _src_c02, c04 as _src_c04
    _relay(ctx, sess, _src_c02.run, {'C02.10': 'C01.o'}, minimum=1)
    _relay(ctx, sess, _src_c04.run, {'C04.9': 'C01.p'}, only_functions=('jls_core_rd_fsr_level1', 'jls_core_rd_fsr_data0', 'jls_core_fsr'), minimum=1)
    from .c06 import sample_bytes_rule
    sample_bytes_rule(ctx, P, 'C01.i')
    from .c11 import pending_index_rule
    pending_index_rule(ctx, P, 'C01.g', ('src/wr_fsr.c',))


def descent_purity(ctx, P, rule, names=('jls_core_fsr_seek', 'jls_core_ts_seek')):
    """seek descent: what one level computes does not leak into the next level"""
    from ..graph import loops
    from .. import df
    n = 0
    for name in names:
        fn = P.functions.get(name)
        if fn is None:
            continue
        ctx.saw(fn, 1)
        lp = loops(fn)
        # descent loops: outermost loops that read a chunk
        reads = [c for c in fn.calls(('jls_core_rd_chunk', 'jls_raw_rd', 'jls_raw_rd_header'))]
        cand = [(h, body) for h, body in lp.items() if any(c.block.id in body for c in reads)]
        cand = [(h, body) for h, body in cand if not any(h in b2 and h2 != h for h2, b2 in cand)]
        for h, body in cand:
            n += 1
            hb = fn.blocks[h]
            counters = set()
            if hb.cond is not None:
                counters = {x.get('name') for x in walk(hb.cond) if x.get('op') == 'ref' and x.get('rk') == 'local'}
            carried = []
            for ev in [e_ for bid in body for e_ in fn.blocks[bid].events if e_.k == 'store']:
                lhs, rhs, o = ev.store_parts()
                l0 = strip_casts(lhs)
                if l0.get('op') != 'ref' or l0.get('rk') != 'local' or o == '=':
                    continue
                v = l0['name']
                if v in counters:
                    continue
                # does this compound update reach the loop header and get used in the next iteration before a plain definition?
                defs, _ = df.reaching_defs(fn, v, hb, 0)
                if ev not in defs:
                    continue

                def on_event(e2, facts, v=v):
                    if e2.block.id not in body:
                        return 'stop'
                    uses = e2.e is not None and any(x.get('op') == 'ref' and x.get('name') == v and x.get('rk') == 'local' for x in walk(e2.e))
                    if e2.k in ('store', 'decl') and df.stores_to_local(e2, v):
                        lhs2, rhs2, o2 = e2.store_parts()
                        if o2 == '=' and not (rhs2 is not None and any(x.get('op') == 'ref' and x.get('name') == v for x in walk(rhs2))):
                            return 'stop'
                        return 'target'
                    return 'target' if uses else None
                w = find_path(fn, (hb, 0) if len(hb.succs) else 'entry', on_event, refine=False,
                              on_block_end=lambda b, facts, v=v: 'target' if (b.id in body and b.cond is not None and any(x.get('op') == 'ref' and x.get('name') == v for x in walk(b.cond))) else None) \
                    if hb.succs else None
                if w is not None:
                    carried.append((v, ev, w))
            ctx.ob(rule, not carried, fn.name, 'descent loop at line %d keeps no accumulator across levels' % hb.line, '%s:%d' % (fn.file, hb.line),
                   'every compound-updated local is re-initialised inside the iteration (level counter: %s)' % ', '.join(sorted(counters)) if not carried else
                   '%s is updated with %s inside the loop and its value survives into the next level (defined outside the loop, never reset): the step computed for a level depends on the levels visited before' % (
                       carried[0][0], show(carried[0][1].e)[:50]),
                   carried[0][2].render() if carried else None)
    ctx.floor('seek descent loops', n, 1)



def empty_call_rule(ctx, P, rule):
    from ..ir import strip_casts, show
    from ..graph import find_path
    fn = P.fn('jls_wr_fsr_data')
    ctx.saw(fn)
    lenp = fn.params[3]['name']
    selfp = fn.params[0]['name']
    stores = []
    for ev in fn.stores():
        l0 = strip_casts(ev.store_parts()[0])
        p = fn.path(l0)
        if p is not None and p.root == selfp and l0.get('op') in ('member', 'sub'):
            stores.append(ev)
    if len(stores) < 2:
        raise AnalysisBroken('jls_wr_fsr_data: %d stores into the writer state' % len(stores))
    w = find_path(fn, 'entry', lambda e2, facts: 'target' if e2 in stores else None, start_facts=frozenset([(lenp, 'eq', 0)]))
    ctx.ob(rule, w is None, fn.name, 'an empty call changes nothing', fn.where(),
           'with %s == 0 no store into the writer state is reachable (%d stores examined)' % (lenp, len(stores)) if w is None else
           'a call with %s == 0 reaches a store into the writer state: an empty first call fixes the first sample id of the signal, and the samples of the first real call are then treated as a gap or an overlap' % lenp,
           w.render() if w else None)



def block_tail_rule(ctx, P, rule):
    from ..ir import strip_casts, show, walk
    from .. import df
    fn = P.fn('wr_data')
    ctx.saw(fn)
    tails = []
    for ev in fn.stores():
        l0 = strip_casts(ev.store_parts()[0])
        if l0.get('op') == 'sub' and ev.store_parts()[1] is not None and any(m.get('op') == 'bin' and m['o'] == '-' and const_of(m['k'][1]) == 1 for m in walk(l0['k'][1])):
            tails.append(ev)
    if not tails:
        raise AnalysisBroken('wr_data: store to the last byte of the block not found')
    for ev in tails:
        rhs = ev.store_parts()[1]
        shifts = [m for m in walk(rhs) if m.get('op') == 'bin' and m['o'] == '<<']
        src = []
        for sh in shifts:
            cnt = strip_casts(sh['k'][1])
            if cnt.get('op') == 'ref' and cnt.get('rk') == 'local':
                defs, _ = df.reaching_defs(fn, cnt['name'], ev.block, ev.idx)
                for d in defs:
                    r = d.e if d.k == 'decl' else d.store_parts()[1]
                    src.append(show(r) if r is not None else '?')
            else:
                src.append(show(cnt))
        ok = bool(src) and all('entry_count' in s_ for s_ in src)
        ctx.ob(rule, ok, fn.name, 'bits kept in the last byte of a flushed block', ev.where(),
               'mask width = %s' % src if ok else
               'the mask width is %s, not the remainder of this block: a block that fills up in the middle of a call is flushed with the shift state left by the previous call, and its last byte takes bits of the next block' % src)


def packer_reads_rule(ctx, P, rule):
    """the bit packer reads every byte of the caller's block exactly once, also when a call crosses storage blocks"""
    from ..fd import trace_calls, Top, FD
    from ..ir import strip_casts, show, walk, path_of
    fn = P.fn('wr_data_inner')
    ctx.saw(fn)
    fd = FD(P)
    keys = {}
    for b in fn.blocks.values():
        for e in [ev.e for ev in b.events if ev.e is not None] + ([b.cond] if b.cond is not None else []):
            for m in walk(e):
                if m.get('op') == 'member' and m.get('field') in ('shift_amount', 'data_length', 'entry_count', 'shift_buffer'):
                    for p in (path_of(m), fn.path(m)):
                        if p is not None:
                            keys.setdefault(m['field'], set()).add(str(p))
    need = ('shift_amount', 'data_length', 'entry_count')
    if not all(k_ in keys for k_ in need):
        raise AnalysisBroken('wr_data_inner: members not found: %s' % [k_ for k_ in need if k_ not in keys])
    width_calls = [c for c in fn.calls('jls_datatype_parse_size')]
    srcp = None
    for ev in fn.events('decl'):
        if ev.e is not None and (ev.t or '').startswith('p:') and any(m.get('op') == 'ref' and m.get('name') == fn.params[1]['name'] for m in walk(ev.e)):
            srcp = ev.name
    if srcp is None:
        raise AnalysisBroken('wr_data_inner: source byte pointer not found')
    lenp = fn.params[2]['name']
    bad = []
    n = 0
    BASE = 0x4000
    for w in (1, 4):
        for cap in (16, 24):                        # samples per storage block
            for have in (0, 3, cap - 3, cap - 1):   # samples already in the block
                if (have * w) % 8 == 0 and have not in (0,):
                    pass
                shift = (have * w) % 8
                for cnt in (1, 2, 3, 5, 8, 13, cap, cap + 5, 2 * cap + 3):
                    env = {'self': 1, fn.params[1]['name']: BASE, lenp: cnt}
                    for k_ in keys['shift_amount']:
                        env[k_] = shift
                    for k_ in keys['data_length']:
                        env[k_] = cap
                    for k_ in keys['entry_count']:
                        env[k_] = have
                    for k_ in keys.get('shift_buffer', ()):
                        env[k_] = 0
                    reads = []

                    def upd(env_, field, val):
                        for k_ in keys[field]:
                            env_[k_] = val

                    def on_store(ev, env_, sym, reads=reads):
                        lhs, rhs, o = ev.store_parts()
                        l0 = strip_casts(lhs)
                        # loads through the source pointer
                        for m in walk(rhs or {}):
                            if m.get('op') == 'sub' and strip_casts(m['k'][0]).get('name') == srcp and isinstance(env_.get(srcp), int):
                                try:
                                    reads.append(env_[srcp] + fd.ev(fn, m['k'][1], env_) - BASE)
                                except Exception:
                                    pass
                        # member stores of the writer state: keep the trace's view of them current
                        if l0.get('op') == 'member' and l0.get('field') in ('entry_count', 'shift_amount', 'shift_buffer') and rhs is not None:
                            cur = env_.get(sorted(keys[l0['field']])[0], 0)
                            try:
                                v = fd.ev(fn, rhs, env_)
                            except Exception:
                                return
                            if o == '=':
                                nv = v
                            elif o == '+=':
                                nv = cur + v
                            elif o == '-=':
                                nv = cur - v
                            else:
                                return
                            upd(env_, l0['field'], nv)

                    def on_event(ev, env_, sym, reads=reads):
                        if ev.k == 'store' and ev.e is not None and ev.e.get('op') == 'un' and ev.e.get('o') == 'post++' and \
                                strip_casts(ev.e['k'][0]).get('name') == srcp and isinstance(env_.get(srcp), int):
                            reads.append(env_[srcp] - BASE)
                        if ev.k == 'call' and ev.callee == 'wr_data':
                            upd(env_, 'entry_count', 0)          # the block was flushed
                    try:
                        calls = trace_calls(P, fn, env, assume_calls={None: 0, 'jls_datatype_parse_size': w}, max_steps=20000,
                                            on_store=on_store, on_event=on_event, no_inline=('wr_data',))
                    except Top:
                        raise AnalysisBroken('wr_data_inner: skeleton not decidable for width %d, %d in block, %d new samples' % (w, have, cnt))
                    for cal, a, ev in calls:
                        if cal in ('memcpy', '__builtin_memcpy', '__builtin___memcpy_chk') and len(a) >= 3 and isinstance(a[1], int) and isinstance(a[2], int):
                            reads.extend(range(a[1] - BASE, a[1] - BASE + a[2]))
                    n += 1
                    want = list(range((cnt * w + 7) // 8))
                    if sorted(reads) != want:
                        bad.append('width %d, block of %d with %d samples in it, call of %d samples: source bytes read %s, the call provides bytes %s' %
                                   (w, cap, have, cnt, sorted(reads)[:12], want[:12]))
    ctx.ob(rule, not bad, fn.name, 'source bytes consumed by the bit packer', fn.where(),
           '%d (width, block fill, call size) combinations traced: every byte of the block the caller provides is read exactly once' % n if not bad else
           '; '.join(bad[:2]) + ' (%d of %d combinations): the packer falls out of step with the data of the caller for the rest of the call' % (len(bad), n))
    ctx.floor('bit packer traces', n, 100)


def pending_bits_rule(ctx, P, rule):
    from ..ir import strip_casts, show, walk
    n = 0
    for fn in P.fns_in('src/wr_fsr.c'):
        def is_pb(e):
            e = strip_casts(e)
            return e.get('op') == 'member' and e.get('field') == 'shift_buffer'

        def masked(e):
            e0 = e
            while e0.get('op') in ('cast', 'paren'):
                e0 = e0['k'][0]
            return e0.get('op') == 'bin' and e0['o'] == '&'
        uses = []
        for b in fn.blocks.values():
            for ev in b.events:
                e = getattr(ev, 'e', None)
                if e is None:
                    continue
                rhs = ev.store_parts()[1] if ev.k in ('store', 'decl') else e
                for nd in walk(rhs or {}):
                    # merged into a wider value:  x | pending   /  pending | x ; or stored as a data byte
                    if nd.get('op') == 'bin' and nd['o'] == '|':
                        for k_ in nd['k']:
                            if is_pb(k_):
                                uses.append((ev, False))
                            else:
                                k0 = k_
                                while k0.get('op') in ('cast', 'paren'):
                                    k0 = k0['k'][0]
                                if k0.get('op') == 'bin' and k0['o'] == '&' and any(is_pb(x) for x in k0['k']):
                                    uses.append((ev, True))
                if ev.k == 'store' and rhs is not None and strip_casts(ev.store_parts()[0]).get('op') in ('sub', 'un'):
                    r0 = rhs
                    while r0.get('op') in ('cast', 'paren'):
                        r0 = r0['k'][0]
                    if is_pb(r0):
                        uses.append((ev, False))
                    elif r0.get('op') == 'bin' and r0['o'] == '&' and any(is_pb(x) for x in r0['k']):
                        uses.append((ev, True))
        if not uses:
            continue
        stores = [ev for ev in fn.stores() if ev.k == 'store' and is_pb(ev.store_parts()[0]) and ev.store_parts()[1] is not None]
        clean_stores = bool(stores) and all(masked(ev.store_parts()[1]) or const_of(strip_casts(ev.store_parts()[1])) == 0 for ev in stores)
        for ev, m in uses:
            n += 1
            ctx.saw(fn, 1)
            ok = m or clean_stores
            dirty = [s_ for s_ in stores if not (masked(s_.store_parts()[1]) or const_of(strip_casts(s_.store_parts()[1])) == 0)]
            ctx.ob(rule, ok, fn.name, 'pending bits merged at line %d are clean' % ev.ln, ev.where(),
                   'masked where they are merged' if m else ('every store into the pending byte is masked' if clean_stores else
                   'the pending byte is merged unmasked, and the store %s keeps whatever followed the last sample in the caller\'s byte: when a call ends inside a byte, the bits behind its last sample become samples of the next call' % (show(dirty[0].e)[:60] if dirty else '?')))
    ctx.floor('merges of the pending byte', n, 2)
