"""C18 — CRC-32C is computed correctly for every length, alignment and code path."""
import os
import re
import subprocess

from ..export import AnalysisBroken, unit_flags
from ..ir import strip_casts, const_of, walk, show, kids
from ..graph import find_path, ret_class, ev_dominates, loops
from ..fd import FD, Top, values_at
from .. import gf2
from .c04 import INTRINSIC_WIDTH, hdr_extent

EXPL = ('Table-driven implementation (not built by the default configuration, analysed on every run): all 8 x 256 constants equal the '
        'slices generated from the Castagnoli polynomial and are GF(2)-linear; the slicing-by-8 loop body and the bytewise head/tail '
        'statements are abstractly interpreted over GF(2)-affine forms and compared with the exact 8-byte / 1-byte register update; '
        'the loads through the input pointer tile [data, data + length) exactly once, in order and aligned, for every alignment and a grid of lengths (finite-domain trace); framing '
        '(init / final XOR) of every implementation; stride agreement of the intrinsic loops; exactly one implementation per platform.')
NOT_DECIDED = 'Semantics of the hardware CRC instructions (trusted); agreement on random long buffers is a run-time fact.'
POLY = 0x82F63B78


def run(ctx, sess):
    ctx.explanation = EXPL
    ctx.not_decided = NOT_DECIDED
    P = sess.prog('default')
    S = sess.prog('crc_sw')
    ctx.rule('C18.1', 'tables: slice k of the table-driven implementation equals the k-th slicing table of polynomial 0x82F63B78 and is GF(2)-linear')
    ctx.rule('C18.2', 'kernels: the slicing-by-8 loop body equals the exact 8-byte CRC register update and the bytewise statements equal the 1-byte update (GF(2) abstract interpretation)')
    ctx.rule('C18.3', 'framing: initial value and final XOR are 0xFFFFFFFF in jls_crc32c and jls_crc32c_hdr of every implementation')
    ctx.rule('C18.4', 'coverage of the intrinsic implementations: for every (alignment, length) of a finite grid the CRC steps, each consuming its operand width, tile the input exactly and in order; the header variant covers 28 bytes')
    ctx.rule('C18.5', 'coverage of the table implementation: traced for every alignment 0..7 and lengths 0..40, 63..65, 100, 257, the loads through the input pointer tile [data, data + length) exactly once and in order, and every 32-bit load is 4-byte aligned')
    ctx.rule('C18.6', 'dispatch: for every platform macro set exactly one implementation is included')
    # ---- C18.1
    k = S.fn('crc32cSlicingBy8')
    ctx.saw(k)
    tables = {}
    for name, g in S.globals.items():
        if g.get('extent') == 256 and g.get('init') is not None:
            vals = [const_of(x) for x in kids(g['init'])]
            if len(vals) == 256 and all(v is not None for v in vals):
                tables[name] = [v & 0xFFFFFFFF for v in vals]
    if len(tables) < 8:
        # the tables are not constants: whether their contents are right cannot be decided here, but a reader that can run
        # before the code that fills them is a verdict
        lazy = [name for name, g in S.globals.items() if g.get('init') is None and (g.get('extent') in (256, 8) or 'able' in name)]
        fillers = set()
        for fn in S.all_functions():
            if fn.file != k.file:
                continue
            for ev in fn.stores():
                l0 = strip_casts(ev.store_parts()[0])
                if ev.k == 'store' and l0.get('op') == 'sub' and any(m.get('op') == 'ref' and m.get('rk') == 'global' and m.get('name') in lazy for m in walk(l0)):
                    fillers.add(fn.name)
        if lazy and fillers:
            ctx.rule('C18.7', 'tables that are filled at run time are filled before they are read: every function of the table-driven implementation that reads such a table (directly or through its kernel) calls the code that fills it on every path before the read')
            reach_fill = set(fillers)
            grew = True
            while grew:
                grew = False
                for fn in S.all_functions():
                    if fn.file == k.file and fn.name not in reach_fill and any(c.callee in reach_fill for c in fn.calls()):
                        reach_fill.add(fn.name)
                        grew = True
            readers = set()
            for fn in S.all_functions():
                if fn.file != k.file or fn.name in fillers:
                    continue
                for b in fn.blocks.values():
                    for ev in b.events:
                        e = getattr(ev, 'e', None)
                        if e is not None and any(m.get('op') == 'sub' and any(x.get('op') == 'ref' and x.get('rk') == 'global' and x.get('name') in lazy for x in walk(m['k'][0])) for m in walk(e)):
                            readers.add(fn.name)
            bad = []
            # the flag idiom `if (!ready) fill();`: a test of a global that the filling code sets counts as the call
            flags_ = set()
            for fname in fillers:
                for ev in S.functions[fname].stores():
                    l0 = strip_casts(ev.store_parts()[0])
                    if ev.k == 'store' and l0.get('op') == 'ref' and l0.get('rk') == 'global':
                        flags_.add(l0['name'])

            def flag_test(b, facts):
                return 'stop' if (b.cond is not None and any(m.get('op') == 'ref' and m.get('rk') == 'global' and m.get('name') in flags_ for m in walk(b.cond)) and
                                  any(c_.callee in reach_fill for s_, _ in b.succs for c_ in s_.events if c_.k == 'call')) else None
            for fn in S.all_functions():
                if fn.file != k.file or not getattr(fn, 'api', False) and fn.static:
                    continue
                uses = [c for c in fn.calls() if c.callee in readers]
                direct = fn.name in readers
                if not uses and not direct:
                    continue
                if direct:
                    first = None
                    w = find_path(fn, 'entry', lambda e2, facts: 'stop' if (e2.k == 'call' and e2.callee in reach_fill) else
                                  ('target' if (getattr(e2, 'e', None) is not None and any(m.get('op') == 'sub' and any(x.get('op') == 'ref' and x.get('rk') == 'global' and x.get('name') in lazy for x in walk(m['k'][0])) for m in walk(e2.e))) else None), refine=False, on_block_end=flag_test)
                    ctx.ob('C18.7', w is None, fn.name, 'tables filled before they are read', fn.where(),
                           'the filling code is called on every path before the first table load' if w is None else
                           'a table load can be reached before the code that fills the tables ran: the first call of this function in a process computes its CRC from zeroed tables', w.render() if w else None)
                for c in uses:
                    w = find_path(fn, 'entry', lambda e2, facts, c=c: 'stop' if (e2.k == 'call' and e2.callee in reach_fill and e2 is not c) else ('target' if e2 is c else None), refine=False, on_block_end=flag_test)
                    if c.callee in reach_fill:
                        w = None
                    ctx.ob('C18.7', w is None, fn.name, 'tables filled before %s reads them' % c.callee, c.where(),
                           'the filling code is called on every path before the kernel' if w is None else
                           'the kernel is reached before the code that fills the tables ran', w.render() if w else None)
            if any(not o['ok'] for o in ctx.obligations):
                ctx.note('C18.1: the tables are generated at run time, their contents are not decided')
                return
        raise AnalysisBroken('CRC tables found in the table-driven configuration: %s' % sorted(tables))
    ref = [gf2.slice_table(i, POLY) for i in range(8)]
    slice_of = {}
    for name, vals in sorted(tables.items()):
        g = S.globals[name]
        where = '%s:%d' % (g['file'], g['line'])
        match = [i for i in range(8) if ref[i] == vals]
        nbad = 0
        if not match:
            # closest slice, count differing entries
            best = min(range(8), key=lambda i: sum(1 for a, b in zip(ref[i], vals) if a != b))
            nbad = sum(1 for a, b in zip(ref[best], vals) if a != b)
            first = [j for j in range(256) if ref[best][j] != vals[j]][0]
            ctx.ob('C18.1', False, name, 'equals a slicing table of 0x82F63B78', where, '%d entries differ from slice %d (first: [%d] = 0x%08X, expected 0x%08X)' % (nbad, best, first, vals[first], ref[best][first]))
        else:
            slice_of[name] = match[0]
            ctx.ob('C18.1', True, name, 'equals a slicing table of 0x82F63B78', where, 'slice %d, 256 entries' % match[0])
        ctx.ob('C18.1', gf2.table_linear(vals), name, 'GF(2)-linear', where, 'T[a^b] == T[a]^T[b], T[0] == 0')
    ctx.ob('C18.1', sorted(slice_of.values()) == list(range(8)), 'crc32c_sw.c', 'the eight tables are slices 0..7', k.where(), str(sorted(slice_of.items(), key=lambda x: x[1])))
    lin_tables = {n: v for n, v in tables.items() if gf2.table_linear(v)}
    # ---- C18.2
    lp = loops(k)
    crc_var = k.params[0]['name']
    ptr_var = None
    for ev in k.events('decl'):
        if ev.t and ev.t.startswith('p:') and ev.e is not None and any(nd.get('op') == 'ref' and nd.get('name') == k.params[1]['name'] for nd in walk(ev.e)):
            ptr_var = ev.name
    if ptr_var is None:
        raise AnalysisBroken('input pointer local of crc32cSlicingBy8 not found')
    nk = 0
    for hdr, body in sorted(lp.items()):
        blocks = [k.blocks[b] for b in body]
        main = max(blocks, key=lambda b: len([e for e in b.events if e.k in ('store', 'decl')]))
        evs = [e for e in main.events if e.k in ('store', 'decl') and not (e.k == 'store' and strip_casts(e.store_parts()[0]).get('name') not in (crc_var, ptr_var)
                                                                          and e.store_parts()[1] is None)]
        # how many input bytes does one iteration consume?
        for nbytes in (1, 8):
            K = gf2.Kernel(S, k, nbytes, crc_var, ptr_var, lin_tables)
            try:
                out = K.run(evs)
            except gf2.NotLinear as ex:
                res = ('notlinear', str(ex))
                continue
            if K.off != nbytes:
                res = ('offset', 'consumes %d bytes' % K.off)
                continue
            refm = gf2.reference_matrix(nbytes, POLY)
            diff = [i for i in range(32) if out.rows[i] != refm[i]]
            res = ('ok', nbytes) if not diff else ('diff', 'output bits %s differ from the %d-byte CRC register update' % (diff[:6], nbytes))
            break
        nk += 1
        kind = 'slicing-by-8 body' if res == ('ok', 8) else ('bytewise update' if res == ('ok', 1) else 'kernel')
        ctx.ob('C18.2', res[0] == 'ok', k.name, 'loop at line order %d: %s' % (nk, kind if res[0] == 'ok' else 'kernel'), '%s:%d' % (k.file, main.line),
               'equals the exact %d-byte update (32 output forms over %d input bits compared)' % (res[1], 32 + 8 * res[1]) if res[0] == 'ok' else res[1])
    ctx.floor('kernels in crc32cSlicingBy8', nk, 3)
    # ---- C18.3 framing
    impls = [('table-driven', S), ('default build', P)]
    for label, prog in impls:
        for fname in ('jls_crc32c', 'jls_crc32c_hdr'):
            f = prog.fn(fname)
            ctx.saw(f)
            ok_init, ok_fin = _framing(f)
            ctx.ob('C18.3', ok_init, '%s[%s]' % (fname, f.file), 'initial value 0xFFFFFFFF', f.where(), '')
            ctx.ob('C18.3', ok_fin, '%s[%s]' % (fname, f.file), 'final XOR 0xFFFFFFFF', f.where(), '')
    # ---- C18.4 strides
    f = P.fn('jls_crc32c')
    _PROG[0] = P
    _strides(ctx, f)
    h = P.fn('jls_crc32c_hdr')
    n, how = hdr_extent(h)
    ctx.ob('C18.4', n == 28, 'jls_crc32c_hdr[%s]' % h.file, 'header variant covers 28 bytes', h.where(), '%s bytes (%s)' % (n, how))
    hs = S.fn('jls_crc32c_hdr')
    n, how = hdr_extent(hs)
    ctx.ob('C18.4', n == 28, 'jls_crc32c_hdr[%s]' % hs.file, 'header variant covers 28 bytes', hs.where(), '%s bytes (%s)' % (n, how))
    # ---- C18.5 the table implementation consumes the input exactly once, in order
    from ..fd import trace_calls
    TSZ = {'u8': 1, 'i8': 1, 'u16': 2, 'i16': 2, 'u32': 4, 'i32': 4, 'u64': 8, 'i64': 8}
    deref_of_inc = {}          # id of a p++ node -> width of the load it feeds
    for b_ in k.blocks.values():
        for e in [ev.e for ev in b_.events if ev.e is not None] + ([b_.cond] if b_.cond is not None else []):
            for nd in walk(e):
                if nd.get('op') == 'un' and nd.get('o') == '*':
                    inner = nd['k'][0]
                    while inner.get('op') in ('cast', 'paren'):
                        inner = inner['k'][0]
                    if inner.get('op') == 'un' and inner.get('o') in ('post++', 'post--'):
                        deref_of_inc[inner.get('id')] = TSZ.get(nd.get('t'), None)
    dparam, lparam = k.params[1]['name'], k.params[2]['name']
    bad = []
    cases = 0
    for addr in range(0, 8):
        for L in list(range(0, 41)) + [63, 64, 65, 100, 257]:
            base = 0x1000 + addr
            loads = []

            def on_event(ev, env, sym, loads=loads, base=base, L=L):
                if ev.k not in ('store', 'decl') or ev.e is None:
                    return
                def ptr_val(x):
                    while x.get('op') in ('cast', 'paren'):
                        x = x['k'][0]
                    if x.get('op') == 'ref' and isinstance(env.get(x.get('name')), int) and base - 64 <= env[x['name']] <= base + L + 64:
                        return env[x['name']]
                    return None
                if ev.k == 'store' and ev.e.get('id') in deref_of_inc and deref_of_inc[ev.e.get('id')]:
                    v = ptr_val(ev.e['k'][0])
                    if v is not None:
                        loads.append((v, deref_of_inc[ev.e['id']]))
                    return
                for nd in walk(ev.e):
                    if nd.get('op') == 'un' and nd.get('o') == '*':
                        inner = nd['k'][0]
                        while inner.get('op') in ('cast', 'paren'):
                            inner = inner['k'][0]
                        if inner.get('op') == 'un' and inner.get('o') in ('post++', 'post--'):
                            continue          # recorded at the increment
                        v = ptr_val(inner)
                        if v is not None and TSZ.get(nd.get('t')):
                            loads.append((v, TSZ[nd['t']]))
                    elif nd.get('op') == 'sub' and const_of(nd['k'][1]) is not None and TSZ.get(nd.get('t')):
                        v = ptr_val(nd['k'][0])
                        if v is not None:
                            loads.append((v + const_of(nd['k'][1]) * TSZ[nd['t']], TSZ[nd['t']]))
            try:
                trace_calls(S, k, {k.params[0]['name']: 0, dparam: base, lparam: L}, max_steps=20000, on_event=on_event)
            except Top:
                bad.append('addr%%8=%d L=%d: the control skeleton is not decidable' % (addr, L))
                continue
            cases += 1
            # consecutive repeats of the same load are one access
            segs = []
            for x in loads:
                if not segs or segs[-1] != x:
                    segs.append(x)
            pos = base
            why = None
            for a_, w_ in segs:
                if a_ != pos:
                    why = 'load of %d bytes at offset %d, expected offset %d' % (w_, a_ - base, pos - base)
                    break
                if w_ >= 4 and a_ % 4:
                    why = '%d-byte load at an address that is not 4-byte aligned (offset %d)' % (w_, a_ - base)
                    break
                pos += w_
            if why is None and pos != base + L:
                why = 'bytes [0, %d) consumed, length is %d' % (pos - base, L)
            if why:
                bad.append('addr%%8=%d L=%d: %s' % (addr, L, why))
    ctx.ob('C18.5', not bad, k.name, 'the loads tile [data, data + length) exactly, in order, word loads aligned', k.where(),
           '%d (alignment, length) pairs traced' % cases if not bad else '; '.join(bad[:3]) + ' (%d of %d pairs)' % (len(bad), cases + 0))
    ctx.floor('(alignment, length) pairs traced through the table implementation', cases, 300)
    # ---- C18.6 dispatch
    sets = [
        ('linux x86_64', [], 'crc32c_intel_sse4.c'),
        ('JLS_OPTIMIZE_CRC_DISABLE', ['-DJLS_OPTIMIZE_CRC_DISABLE=1'], 'crc32c_sw.c'),
        ('linux non-x86', ['-U__x86_64__', '-U__x86_64', '-U__amd64__', '-U__amd64'], 'crc32c_sw.c'),
        ('windows x64', ['-D_WIN32', '-D_M_X64', '-U__linux__', '-U__linux', '-Ulinux'], 'crc32c_intel_sse4.c'),
        ('windows non-x64', ['-D_WIN32', '-U__x86_64__', '-U__x86_64', '-U__amd64__', '-U__amd64', '-U__linux__', '-U__linux', '-Ulinux'], 'crc32c_sw.c'),
        ('macOS arm64', ['-D__APPLE__', '-D__MACH__', '-D__aarch64__', '-U__x86_64__', '-U__x86_64', '-U__amd64__', '-U__amd64', '-U__linux__', '-U__linux', '-Ulinux'], 'crc32c_arm_neon.c'),
        ('macOS x86_64', ['-D__APPLE__', '-D__MACH__', '-U__linux__', '-U__linux', '-Ulinux'], 'crc32c_intel_sse4.c'),
        ('unknown OS', ['-U__x86_64__', '-U__x86_64', '-U__amd64__', '-U__amd64', '-U__linux__', '-U__linux', '-Ulinux'], 'crc32c_sw.c'),
    ]
    src = os.path.join(sess.repo, 'src', 'crc32c.c')
    for label, defs, want in sets:
        cmd = ['clang', '-E', '-M', '-MG', '-w', src, '-I' + os.path.join(sess.repo, 'include'), '-I' + os.path.join(sess.repo, 'include_prv'), '-msse4.2'] + defs
        p = subprocess.run(cmd, stdout=subprocess.PIPE, stderr=subprocess.PIPE, text=True)
        inc = sorted(set(re.findall(r'(crc32c_[a-z0-9_]+\.c)', p.stdout)))
        ctx.ob('C18.6', inc == [want], 'crc32c.c', 'platform %s' % label, 'src/crc32c.c', 'includes %s' % inc if inc == [want] else 'includes %s, expected exactly [%s]' % (inc, want))


def _framing(f):
    ALL1 = 0xFFFFFFFF
    ok_init = False
    for ev in list(f.events('decl')) + list(f.events('store')) + list(f.events('call')):
        e = ev.e
        if e is None:
            continue
        if ev.k == 'decl' and const_of(strip_casts(e)) is not None and (const_of(strip_casts(e)) & ALL1) == ALL1 and ev.t in ('u32', 'u64'):
            ok_init = True
        if ev.k == 'call' and ev.callee in INTRINSIC_WIDTH and ev.args and const_of(ev.args[0]) is not None and (const_of(ev.args[0]) & ALL1) == ALL1:
            ok_init = True
        if ev.k == 'store' and ev.store_parts()[1] is not None and const_of(strip_casts(ev.store_parts()[1])) is not None and \
                (const_of(strip_casts(ev.store_parts()[1])) & ALL1) == ALL1 and ev.store_parts()[2] == '=':
            ok_init = True
    ok_fin = True
    rets = f.returns()
    for r in rets:
        e = strip_casts(r.e)
        ok = e is not None and e.get('op') == 'bin' and e['o'] == '^' and any(const_of(x) is not None and (const_of(x) & ALL1) == ALL1 for x in e['k'])
        if not ok and e is not None and e.get('op') == 'un' and e['o'] == '~':
            ok = True
        ok_fin = ok_fin and ok
    return ok_init, ok_fin and bool(rets)


def _strides(ctx, f):
    """Coverage of the intrinsic implementation of jls_crc32c: for every (alignment, length) of a finite grid the
    control skeleton is evaluated (set-of-constants), the CRC steps are collected in order with the bytes each one
    consumes (operand width; address from the dereferenced operand or from the memcpy that filled the operand),
    and they must tile [data, data + length) exactly, in order."""
    from ..fd import trace_calls
    P = f._prog if hasattr(f, '_prog') else None
    BASE = 0x10000
    data_p, len_p = f.params[0]['name'], f.params[1]['name']
    bad = []
    cases = 0
    kinds = set()
    # lengths: a dense low range, plus the neighbourhood of every constant the unit compares a length with
    # (thresholds that switch to another code path)
    thresholds = set()
    for g in [f] + [h for h in _PROG[0].fns_in(f.file) if h is not f]:
        for b in g.blocks.values():
            if b.cond is None:
                continue
            for nd in walk(b.cond):
                if nd.get('op') == 'bin' and nd['o'] in ('<', '<=', '>', '>='):
                    for k_ in nd['k']:
                        c_ = const_of(k_)
                        if c_ is not None and 64 < c_ <= (1 << 16):
                            thresholds.add(c_)
    extra = sorted(set(x for t in thresholds for x in (t - 1, t, t + 1, t + 7, 2 * t + 3)))
    for align in range(8):
        for L in list(range(0, 41)) + [63, 64, 65, 100, 255, 256, 257] + extra:
            cases += 1
            try:
                calls = trace_calls(_PROG[0], f, {data_p: BASE + align, len_p: L})
            except Top:
                bad.append('align %d len %d: control flow not decidable from (address, length)' % (align, L))
                continue
            pos = BASE + align
            filled = {}
            err = None
            for callee, args, ev in calls:
                if callee in ('memcpy', '__builtin_memcpy', '__builtin___memcpy_chk'):
                    dst, src, n = args[0], args[1], args[2]
                    if isinstance(dst, tuple) and dst[0] == 'addr' and isinstance(src, int) and isinstance(n, int):
                        filled[dst[1]] = (src, n)
                    continue
                w = INTRINSIC_WIDTH.get(callee)
                if w is None:
                    continue
                kinds.add(callee)
                op = args[1] if len(args) > 1 else None
                if isinstance(op, tuple) and op[0] == 'deref':
                    addr, n = op[1], w
                elif isinstance(op, tuple) and op[0] == 'var' and op[1] in filled:
                    addr, n = filled[op[1]]
                else:
                    err = '%s operand does not come from the input (line %d)' % (callee, ev.ln)
                    break
                if n != w:
                    err = '%s consumes %d bytes but its operand was filled with %d (line %d)' % (callee, w, n, ev.ln)
                    break
                if addr != pos:
                    err = '%s at line %d reads offset %d, expected offset %d (bytes skipped or read twice)' % (callee, ev.ln, addr - BASE - align, pos - BASE - align)
                    break
                pos += w
            if err is None and pos != BASE + align + L:
                err = 'steps cover %d of %d bytes' % (pos - BASE - align, L)
            if err:
                bad.append('align %d len %d: %s' % (align, L, err))
    ctx.ob('C18.4', not bad, '%s[%s]' % (f.name, f.file), 'CRC steps tile the input exactly for every (alignment, length)', f.where(),
           '%d (alignment, length) cases, steps %s' % (cases, sorted(kinds)) if not bad else '%d of %d cases fail; first: %s' % (len(bad), cases, bad[0]))
    ctx.floor('intrinsic kinds used by %s' % f.file, len(kinds), 2)


_PROG = [None]
