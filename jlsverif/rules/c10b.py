"""C10 part 2: C10.4 .. C10.12."""
from ..export import AnalysisBroken
from ..ir import strip_casts, const_of, walk, show, kids, path_of
from ..graph import (find_path, ret_class, ev_dominates, control_deps_transitive, cond_facts, loops)
from ..guard import var_of, nonneg_edges, zero_edges_of_call
from ..fd import FD, Top
from .. import df
from .common import consumed

MEMCPY = ('memcpy', '__builtin_memcpy', '__builtin___memcpy_chk', 'memmove')

# allocator -> (how the object is delivered, releaser)
PAIRS = {
    'malloc': ('ret', 'free'), 'calloc': ('ret', 'free'),
    'jls_buf_alloc': ('ret', 'jls_buf_free'),
    'jls_tmap_alloc': ('ret', 'jls_tmap_free'),
    'jls_bkt_initialize': ('ret', 'jls_bkt_finalize'),
    'eventflag_create': ('ret', 'eventflag_destroy'),
    'jls_fsr_open': (0, 'jls_fsr_close'),
    'jls_wr_ts_open': (0, 'jls_wr_ts_close'),
    'jls_raw_open': (0, 'jls_raw_close'),
    'jls_wr_open': (0, 'jls_wr_close'),
    'jls_rd_open': (0, 'jls_rd_close'),
    'jls_twr_open': (0, 'jls_twr_close'),
}


def run(ctx, sess, P, G, T, reach, roots, exc):
    ctx.rule('C10.4', 'allocation growth is checked: no result of jls_buf_realloc is discarded')
    ctx.rule('C10.5', 'read at extent: after memcpy(d, p, n) the byte p[n] is not read unconditionally (the caller provided n bytes)')
    ctx.rule('C10.6', 'table extents: every non-constant subscript of a global constant table is bounded below the table extent')
    ctx.rule('C10.7', 'resources: every allocator result stored in a field has a matching release of that field reachable from a close/free API; a local resource is released or handed over on every exit')
    ctx.rule('C10.8', 'grow-to-fit: buffer growth is strictly increasing and overflow-free, and the size requested on TOO_BIG covers the quantity the reader compared')
    ctx.rule('C10.9', 'reconstruction makes progress: no output block is filled without being counted')
    ctx.rule('C10.10', 'window gates: negative start, start+length beyond the signal and non-positive increment return errors before the caller\'s buffer is touched')
    ctx.rule('C10.11', 'tainted divisor: a divisor derived from a definition parameter is a non-zero constant, directly max(x, c>0), or dominated by a non-zero test')
    ctx.rule('C10.13', 'allocation results are checked: no dereference of a malloc/calloc/realloc result is reachable while it may be NULL')
    ctx.rule('C10.14', 'length arithmetic: a 32-bit product/sum of an API-supplied length that reaches an allocator size, a copy length or an address computation is preceded on every path by a compare of that length with a constant (it cannot wrap)')
    ctx.rule('C10.15', 'ring hand-out: on every path of the message ring allocator to a non-NULL return a compare bounds size plus its 4-byte prefix and a later 4-byte wrap marker by the ring size (size + 8 <= B), or keeps the next write index strictly below the read index (size + 4 < tail)')
    ctx.rule('C10.16', 'capacity bookkeeping: the capacity stored for a buffer (the field its reuse/grow test compares with the requested length) is covered by the bytes allocated for it: allocation size >= header + capacity x element size, as linear forms of the same variables')
    ctx.rule('C10.17', 'interior pointers follow the block: when a block that other pointer fields of the same object point into is reallocated, each of those fields is stored again on every success path after the new block is installed')
    ctx.rule('C10.18', 'accepted definitions only: a value the threaded writer keeps from a definition request (the per-signal entry size) is stored only on the zero-result edge of the synchronous definition call')
    ctx.rule('C10.19', 'a successful realloc is never dropped: on every path on which the result is not NULL it is stored back into the field it was taken from before the function returns or indexes that field (the old block may already be freed)')
    ctx.rule('C10.20', 'bisection stays inside the array: in a search loop `lo < hi` that probes x[mid] with mid = (lo + hi + 1) / 2 (which can equal hi), the initial hi is length - 1, not length')
    ctx.rule('C10.21', 'bounded appends: every entries[entry_count++] store into the fixed-size index and summary buffers of the time-series writer is preceded on every path by a compare of that entry_count with the allocated capacity')
    ctx.rule('C10.22', 'count-bounded writes: in a count-down loop (`while (n)` with n decremented in the body) every store through a pointer that the loop advances is separated from every decrement of n by the loop test, so that no byte is written once the count has reached 0')
    ctx.rule('C10.23', 'scratch capacity agrees with its fill bound: a buffer from jls_core_f64_buf_alloc(N) is handed to a filler only with the count N, and is appended to only through a counter that is reset (together with a counter advanced at least as often) when that counter reaches N')
    ctx.rule('C10.24', 'the forward header scan ends: traced for a grid of (start position, file size) pairs with candidates that never match, jls_raw_chunk_scan returns, and it has examined exactly the 8-byte aligned offsets from the start to size - 32 in order (none skipped, none twice)')
    ctx.rule('C10.25', 'defined conversions: a floating-point quotient whose value (directly, through locals or through round/floor/ceil) is converted to an integer has a divisor that is a non-zero constant or was compared with zero on every path from its definition to the division')
    ctx.rule('C10.27', 'allocation sizes keep their width: the size handed to malloc / calloc / realloc / jls_buf_realloc does not come (directly, through locals, or through the return value of a helper of the unit) from a count x size product that was cast down to 32 bits')
    ctx.rule('C10.26', 'the realign of a sub-byte overlap reads exactly the caller bytes that hold new samples (shared with C09.9): one byte more is a read outside the buffer the caller provided')
    ctx.rule('C10.28', 'no stale pointer into the read buffer: a local pointer taken from <core>.buf->start is not used after a call that can reallocate that buffer (the chunk read and everything that reaches it) unless it is taken again first')
    ctx.rule('C10.30', 'sizes computed in 32 bits do not wrap for any accepted definition: every 32-bit product in the writer and core units that involves a definition parameter (samples_per_data, sample_decimate_factor, entries_per_summary, summary_decimate_factor) stays below 2^32 when each parameter is at most twice the limit the validator enforces (alignment rounds up) and a sample is at most 64 bits (interval evaluation)')
    ctx.rule('C10.31', 'a refused definition leaves the stored definition alone: duplicate id, missing source and invalid parameters are rejected before anything is copied into the live definition - later writes size their copies and buffers from it (shared with C13.2)')
    ctx.rule('C10.32', 'the bit copy that assembles sub-byte samples in the caller\'s buffer writes only the bytes that hold requested samples: traced for destination and source bit offsets 0..15 and bit counts around the byte and word boundaries, every store and every memcpy lies in [dst + dst_bit / 8, dst + ceil((dst_bit + nbits) / 8))')
    ctx.rule('C10.29', 'conversion reads what the chunk holds: where the samples of the chunk in the read buffer are converted (jls_dt_buffer_to_f64 with the payload as source), the count derives from the entry count in that chunk\'s header (clamped to the block size the scratch was allocated for), not from the definition alone')
    ctx.rule('C10.12', 'no read of uninitialised instance memory: every field of a malloc\'ed instance that is read anywhere is initialised before the instance is published')
    r4(ctx, P)
    r5(ctx, P, reach)
    r6(ctx, P, G, T, reach)
    r7(ctx, P, reach, exc)
    r8(ctx, P)
    r9(ctx, P)
    r10(ctx, P)
    r11(ctx, P)
    r13(ctx, P)
    r12(ctx, P)
    from . import c10c
    c10c.r14(ctx, P)
    c10c.r15(ctx, P)
    c10c.r16(ctx, P)
    c10c.r17(ctx, P)
    c10c.r17b(ctx, P)
    c10c.r18(ctx, P)
    c10c.r19(ctx, P)
    c10c.r20(ctx, P)
    c10c.r21(ctx, P)
    c10c.r22(ctx, P)
    c10c.r23(ctx, P)
    c10c.r24(ctx, P)
    c10c.r25(ctx, P)
    c10c.r27(ctx, P)
    c10c.r28(ctx, P)
    c10c.r29(ctx, P)
    c10c.r30(ctx, P, sess)
    c10c.r32(ctx, P)
    from .common import relay
    from . import c09 as _src_c09
    relay(ctx, sess, _src_c09.run, {'C09.9': 'C10.26'}, minimum=1)
    from . import c13 as _src_c13
    relay(ctx, sess, _src_c13.run, {'C13.2': 'C10.31'}, only_functions=('jls_wr_signal_def', 'jls_wr_source_def'), minimum=2)


def r4(ctx, P):
    n = 0
    for fn, ev in P.callers().get('jls_buf_realloc', []):
        n += 1
        ctx.saw(fn, 1)
        ok, how = consumed(fn, ev)
        ctx.ob('C10.4', ok, fn.name, 'result of jls_buf_realloc()', ev.where(), how)
    ctx.floor('jls_buf_realloc call sites', n, 8)


def r5(ctx, P, reach):
    n = 0
    for name in sorted(reach):
        fn = P.functions.get(name)
        if fn is None:
            continue
        for mc in fn.calls(MEMCPY):
            if len(mc.args) < 3:
                continue
            sv = var_of(fn, mc.args[1])
            nv = var_of(fn, mc.args[2])
            if sv is None or nv is None:
                continue
            n += 1
            cd_m = control_deps_transitive(fn, mc.block.id)
            # loads  sv[nv]
            for b in fn.blocks.values():
                for ev in b.events:
                    if ev.e is None:
                        continue
                    for nd in walk(ev.e):
                        if nd.get('op') == 'sub' and var_of(fn, nd['k'][0]) == sv and var_of(fn, nd['k'][1]) == nv:
                            # is it a load (not the store target)?
                            if ev.k == 'store' and strip_casts(ev.store_parts()[0]).get('id') == nd.get('id'):
                                continue
                            # same values of sv / nv as at the memcpy: no store to either between
                            def changed(e2):
                                if e2.k in ('store', 'decl'):
                                    l0 = strip_casts(e2.store_parts()[0])
                                    return l0.get('op') == 'ref' and l0.get('name') in (sv, nv)
                                return False
                            w = find_path(fn, mc, lambda e2, facts: 'target' if e2 is ev else ('stop' if changed(e2) else None), refine=False)
                            same_arm = ev_dominates(mc, ev) or w is not None
                            if not same_arm:
                                continue
                            cd_l = control_deps_transitive(fn, b.id)
                            extra = cd_l - cd_m
                            ctx.ob('C10.5', bool(extra), fn.name, 'load %s after memcpy(.., %s, %s)' % (show(nd), sv, nv), ev.where(),
                                   'conditional on %s' % sorted(extra)[:2] if extra else
                                   'the copy asserts the source holds %s bytes; %s[%s] is read whenever the copy runs (one byte past the caller\'s buffer when it is exactly that long)' % (nv, sv, nv))
    ctx.floor('memcpy(dst, var, var) sites examined', n, 5)


def r6(ctx, P, G, T, reach):
    from .c10 import IndexRule, items_of
    IR = IndexRule(ctx, P, G, T)
    n = 0
    for name in sorted(reach):
        fn = P.functions.get(name)
        if fn is None:
            continue
        seen = set()
        for e, ev, b in items_of(fn):
            for nd in walk(e):
                if nd.get('op') != 'sub' or 'extent' not in nd or nd['id'] in seen:
                    continue
                seen.add(nd['id'])
                base = strip_casts(nd['k'][0])
                if base.get('op') != 'ref' or base.get('rk') != 'global':
                    continue
                if const_of(strip_casts(nd['k'][1])) is not None:
                    continue
                n += 1
                se = fn.sub_event(nd['id'])
                if se is not None:
                    ev, b = se, se.block
                ok, how = IR.safe(fn, nd['k'][1], ev, b, nd['extent'])
                ctx.ob('C10.6', bool(ok), fn.name, 'table %s' % show(nd)[:60], '%s:%d' % (fn.file, nd.get('ln', 0)),
                       'extent %d: %s' % (nd['extent'], how))
    ctx.floor('table subscripts', n, 2)


# --------------------------------------------------------------------------- resources

def r7(ctx, P, reach, exc):
    for a, (how, rel) in PAIRS.items():
        if a in ('malloc', 'calloc'):
            continue
        P.fn(a)
        P.fn(rel)
    close_roots = sorted(f.name for f in P.all_functions() if f.api and (f.name.endswith('_close') or f.name.endswith('_free')))
    close_reach = P.reachable_from(close_roots)
    # ---- field owners
    releases = {}      # (rec, field) -> [(fn, ev)]
    for rel in set(r for (_, r) in PAIRS.values()):
        for fn, ev in P.callers().get(rel, []):
            a0 = strip_casts(ev.args[0]) if ev.args else None
            if a0 is not None and a0.get('op') == 'member':
                releases.setdefault((a0.get('rec'), a0['field'], rel), []).append((fn, ev))
            elif a0 is not None:
                # through an alias local:  p = X->f; free(p)
                p = fn.path(a0)
                if p is not None and p.last_field():
                    releases.setdefault((None, p.last_field(), rel), []).append((fn, ev))
    nf = 0
    for fn in P.all_functions():
        for ev in fn.calls():
            if ev.callee not in PAIRS:
                continue
            how, rel = PAIRS[ev.callee]
            target = None
            if how == 'ret':
                # stored to a field?
                for e2 in ev.block.events[ev.idx + 1:]:
                    if e2.k in ('store', 'decl'):
                        lhs, rhs, o = e2.store_parts()
                        if rhs is not None and strip_casts(rhs).get('id') == ev.e.get('id'):
                            l0 = strip_casts(lhs)
                            if l0.get('op') == 'member':
                                target = l0
                            break
            else:
                a = strip_casts(ev.args[how])
                if a.get('op') == 'un' and a['o'] == '&':
                    inner = strip_casts(a['k'][0])
                    if inner.get('op') == 'member':
                        target = inner
            if target is None:
                continue
            nf += 1
            ctx.saw(fn, 1)
            key = (target.get('rec'), target['field'], rel)
            got = releases.get(key, []) + releases.get((None, target['field'], rel), [])
            got_reach = [(f2, e2) for (f2, e2) in got if f2.name in close_reach]
            ctx.ob('C10.7', bool(got_reach), fn.name, 'owner of %s.%s (%s)' % (target.get('rec'), target['field'], ev.callee), ev.where(),
                   'released by %s in %s' % (rel, got_reach[0][0].name) if got_reach else
                   ('%s(<%s.%s>) is never called on a path from a close/free API: the object allocated here is leaked' % (rel, target.get('rec'), target['field'])))
    ctx.floor('field-owned allocations', nf, 12)
    # ---- local resources
    nl = 0
    for fn in P.all_functions():
        for ev in fn.calls():
            if ev.callee not in PAIRS:
                continue
            how, rel = PAIRS[ev.callee]
            var = None
            starts = []
            if how == 'ret':
                for e2 in ev.block.events[ev.idx + 1:]:
                    if e2.k in ('store', 'decl'):
                        lhs, rhs, o = e2.store_parts()
                        if rhs is not None and strip_casts(rhs).get('id') == ev.e.get('id'):
                            l0 = strip_casts(lhs)
                            if l0.get('op') == 'ref' and l0.get('rk') == 'local':
                                var = l0['name']
                                starts = [(e2, frozenset([(var, 'ne', 0)]))]
                            break
            else:
                a = strip_casts(ev.args[how])
                if a.get('op') == 'un' and a['o'] == '&':
                    inner = strip_casts(a['k'][0])
                    if inner.get('op') == 'ref' and inner.get('rk') == 'local':
                        var = inner['name']
                        ze = zero_edges_of_call(fn, ev)
                        for (bid, lab) in ze:
                            b2 = fn.blocks[bid]
                            for i, (s, l2) in enumerate(b2.succs):
                                if l2 == lab:
                                    starts.append(((b2, i), frozenset()))
                        if not ze:
                            starts = [(ev, frozenset())]
            if var is None:
                continue
            nl += 1
            ctx.saw(fn, 1)

            def on_event(e2, facts, var=var, rel=rel):
                if any(v == var and k == 'eq' and c == 0 for (v, k, c) in facts):
                    return 'stop'
                if e2.k == 'call':
                    if e2.callee == rel or (rel == 'free' and e2.callee in ('free', 'realloc')):
                        if any(var_of(fn, a) == var for a in e2.args):
                            return 'stop'
                    # wrappers that release their argument
                    g = P.functions.get(e2.callee)
                    if g is not None and any(var_of(fn, a) == var for a in e2.args) and releases_param(P, g, [i for i, a in enumerate(e2.args) if var_of(fn, a) == var][0], rel):
                        return 'stop'
                if e2.k in ('store', 'decl'):
                    lhs, rhs, o = e2.store_parts()
                    l0 = strip_casts(lhs)
                    if rhs is not None and var_of(fn, rhs) == var and l0.get('op') != 'ref':
                        return 'stop'       # handed over: stored into a field / through an out-parameter
                    if rhs is not None and var_of(fn, rhs) == var and l0.get('op') == 'ref' and l0.get('rk') != 'local':
                        return 'stop'
                if e2.k == 'ret':
                    if e2.e is not None and var_of(fn, e2.e) == var:
                        return 'stop'
                    return 'target'
                return None
            w = None
            for st, facts in starts:
                w = find_path(fn, st, on_event, start_facts=facts)
                if w is not None:
                    break
            k = '%s:%s' % (fn.name, var)
            if w is not None and k in exc:
                ctx.note('exception %s: %s' % (k, exc[k]))
                continue
            ctx.ob('C10.7', w is None, fn.name, 'local `%s` from %s()' % (var, ev.callee), ev.where(),
                   'released or handed over on every exit' if w is None else
                   'a return is reachable with `%s` neither released (%s) nor handed over' % (var, rel), w.render() if w else None)
    ctx.floor('local resources', nl, 8)


_rp_memo = {}


def releases_param(P, g, i, rel, depth=0):
    key = (g.name, i, rel)
    if key in _rp_memo:
        return _rp_memo[key]
    _rp_memo[key] = False
    if i >= len(g.params) or depth > 3:
        return False
    v = g.params[i]['name']
    for ev in g.calls():
        if ev.callee == rel or (rel == 'free' and ev.callee == 'free'):
            if any(var_of(g, a) == v for a in ev.args):
                _rp_memo[key] = True
                return True
        h = P.functions.get(ev.callee)
        if h is not None:
            for j, a in enumerate(ev.args):
                if var_of(g, a) == v and releases_param(P, h, j, rel, depth + 1):
                    _rp_memo[key] = True
                    return True
    return False


# --------------------------------------------------------------------------- growth

def r8(ctx, P, rule='C10.8'):
    fd = FD(P)
    g = P.fn('jls_buf_realloc')
    ctx.saw(g)
    # G1: the loop that grows
    lps = loops(g)
    n = 0
    for hdr, body in lps.items():
        hb = g.blocks[hdr]
        # variables compared in conditions of the loop
        cvars = set()
        for bid in body:
            c = g.blocks[bid].cond
            if c is not None:
                cvars |= set(nd['name'] for nd in walk(c) if nd.get('op') == 'ref' and nd.get('rk') == 'local')
        for bid in body:
            for ev in g.blocks[bid].events:
                if ev.k != 'store':
                    continue
                lhs, rhs, o = ev.store_parts()
                l0 = strip_casts(lhs)
                if l0.get('op') != 'ref' or l0.get('name') not in cvars:
                    continue
                n += 1
                ok = False
                why = 'update `%s`' % show(ev.e)
                if o in ('*=', '<<=') and rhs is not None and const_of(rhs) is not None and const_of(rhs) >= (2 if o == '*=' else 1):
                    ok = True
                elif o == '+=' and rhs is not None and const_of(rhs) is not None and const_of(rhs) > 0:
                    ok = True
                elif o == '=' and rhs is not None:
                    r0 = strip_casts(rhs)
                    if r0.get('op') == 'bin' and r0['o'] in ('*', '<<') and var_of(g, r0['k'][0]) == l0['name'] and const_of(r0['k'][1]) is not None and const_of(r0['k'][1]) >= (2 if r0['o'] == '*' else 1):
                        ok = True
                    elif var_of(g, r0) is not None and var_of(g, r0) != l0['name']:
                        ok = True      # = need
                if not ok:
                    why += ' is not strictly increasing and overflow-free (a self-product is stationary at 0/1, squares 2^20 to 2^40 and wraps to 0)'
                ctx.ob(rule, ok, g.name, 'growth step', ev.where(), why)
    ctx.floor('growth loop updates in jls_buf_realloc', n, 1)
    # G2: what the payload reader compares when it answers TOO_BIG, as a function of the payload length
    # (set-of-constants evaluation of the compared quantity at the TOO_BIG return)
    from ..fd import values_at
    from ..ir import path_of
    rp = P.fn('jls_raw_rd_payload')
    too_big = P.enum_consts.get('JLS_ERROR_TOO_BIG')
    guard = None
    for r in rp.returns():
        if r.e is not None and const_of(strip_casts(r.e)) == too_big:
            for (bid, label) in control_deps_transitive(rp, r.block.id):
                c = rp.blocks[bid].cond
                e = strip_casts(c) if c else None
                if e is not None and e.get('op') == 'bin' and e['o'] in ('>', '>=', '<', '<='):
                    sides = e['k']
                    par = [x for x in sides if var_of(rp, x) in [p_['name'] for p_ in rp.params]]
                    oth = [x for x in sides if x not in par]
                    if par and oth:
                        guard = (r, oth[0], var_of(rp, par[0]))
    if guard is None:
        raise AnalysisBroken('TOO_BIG guard of jls_raw_rd_payload not found')
    ret_ev, qty, cap = guard
    lpaths = set()
    for ev_ in rp.events():
        for nd in walk(ev_.e):
            if nd.get('op') == 'member' and nd.get('field') == 'payload_length':
                lpaths.add(str(path_of(nd)))
                if rp.path(nd) is not None:
                    lpaths.add(str(rp.path(nd)))
    for bl in rp.blocks.values():
        for nd in walk(bl.cond):
            if nd.get('op') == 'member' and nd.get('field') == 'payload_length':
                lpaths.add(str(path_of(nd)))

    def need(L):
        env = {k_: L for k_ in lpaths}
        env['self'] = 1
        vals = values_at(P, rp, ret_ev, qty, env)
        vals.discard(None)
        if len(vals) != 1:
            raise AnalysisBroken('quantity compared by jls_raw_rd_payload not evaluable for payload length %d (%s)' % (L, vals))
        return vals.pop()
    over = set(need(L) - L for L in range(1, 65))
    overhead = max(over)
    need_fn = 'the quantity jls_raw_rd_payload compares with %s' % cap
    ctx.note(rule + ': (compared quantity - payload length) over residues = %s' % sorted(over))
    # the bytes actually read into the caller's buffer are that same quantity (bounded read)
    for fr in rp.calls('jls_bk_fread'):
        dst = strip_casts(fr.args[1])
        if var_of(rp, dst) in [p_['name'] for p_ in rp.params]:
            bad_r = []
            for L in range(1, 65):
                env = {k_: L for k_ in lpaths}
                env['self'] = 1
                env[cap] = 1 << 30
                got = values_at(P, rp, fr, fr.args[2], env)
                got.discard(None)
                if len(got) != 1 or got != {need(L)}:
                    bad_r.append('L=%d: reads %s bytes, compared %d' % (L, sorted(got), need(L)))
            ctx.ob(rule, not bad_r, rp.name, 'bytes read into the caller buffer == quantity compared with its capacity', fr.where(),
                   'equal for every residue' if not bad_r else
                   'the capacity check and the read disagree (%s): the read overruns a buffer sized as documented' % bad_r[0])
    # every site that grows a buffer and then reads a payload into it
    n2 = 0
    for fn in P.all_functions():
        for rd in fn.calls(('jls_raw_rd', 'jls_raw_rd_payload')):
            mx = rd.args[2] if rd.callee == 'jls_raw_rd' else rd.args[1]
            mp = fn.path(strip_casts(mx))
            if mp is None or mp.last_field() != 'alloc_size':
                continue
            bufp = tuple(mp[:-1])
            for gr in fn.calls('jls_buf_realloc'):
                gp = fn.path(gr.args[0])
                if gp is None or tuple(gp) != bufp:
                    continue
                n2 += 1
                ctx.saw(fn, 1)
                # the grow must happen on every path to the read, unless it is skipped only when the buffer already covers the need
                if not ev_dominates(gr, rd) and find_path(fn, 'entry', lambda e2, facts: 'stop' if e2 is gr else ('target' if e2 is rd else None), refine=False) is not None:
                    okg = False
                    why = 'the grow is conditional'
                    from ..graph import control_deps
                    # retry idiom: read first, grow when the reader itself answered TOO_BIG, then read again
                    for (bid, label) in control_deps_transitive(fn, gr.block.id):
                        for (var_, kind_, cv_) in cond_facts(fn, fn.blocks[bid].cond, label):
                            if kind_ == 'eq' and cv_ == too_big and find_path(fn, gr, lambda e2, facts: 'target' if e2 is rd else None, refine=False) is not None:
                                okg = True
                    if okg:
                        ctx.ob(rule, True, fn.name, 'buffer covers the on-disk payload on every path to the read', gr.where(), 'retry idiom: grow on TOO_BIG, then read again')
                        req = strip_casts(gr.args[1])
                    for (bid, label) in (control_deps(fn).get(gr.block.id, ()) if not okg else ()):
                        c_ = strip_casts(fn.blocks[bid].cond) if fn.blocks[bid].cond else None
                        if c_ is None or c_.get('op') != 'bin' or c_['o'] not in ('>', '>=') or label != 'T':
                            continue
                        rp_ = fn.path(strip_casts(c_['k'][1]))
                        if rp_ is None or rp_.last_field() != 'alloc_size':
                            continue
                        lens_ = [nd for nd in walk(c_['k'][0]) if nd.get('op') == 'member' and nd.get('field') == 'payload_length']
                        if not lens_:
                            continue
                        lp_ = str(path_of(lens_[0]))
                        okg = True
                        for L in range(1, 65):
                            try:
                                v_ = fd.ev(fn, c_['k'][0], {lp_: L, str(fn.path(lens_[0])): L})
                            except Top:
                                okg = False
                                break
                            if v_ < need(L):
                                okg = False
                                why = 'the grow is skipped when `%s` <= alloc_size, but the reader needs %d bytes for a %d-byte payload' % (show(c_['k'][0]), need(L), L)
                                break
                    ctx.ob(rule, okg, fn.name, 'buffer covers the on-disk payload on every path to the read', gr.where(),
                           'grow skipped only when the buffer is already large enough' if okg else why + ': payloads within %d bytes of the buffer size get TOO_BIG and are dropped' % overhead)
                req = strip_casts(gr.args[1])
                # requested = f(payload_length): evaluate with payload_length bound to L
                lens = [nd for nd in walk(req) if nd.get('op') == 'member' and nd.get('field') == 'payload_length']
                bad = []
                if not lens:
                    ctx.ob(rule, False, fn.name, 'grow request before reading a payload', gr.where(), 'request %s does not depend on the payload length' % show(req))
                    continue
                lp = str(path_of(lens[0]))
                for L in range(1, 65):
                    try:
                        got = fd.ev(fn, req, {lp: L, str(fn.path(lens[0])): L})
                    except Top:
                        bad = ['request %s not evaluable' % show(req)]
                        break
                    nd_ = need(L)
                    if got < nd_:
                        bad.append('L=%d: requests %d, reader needs %d' % (L, got, nd_))
                ctx.ob(rule, not bad, fn.name, 'grow request before reading a payload', gr.where(),
                       'request %s >= %s for every residue' % (show(req), need_fn) if not bad else
                       'request `%s` is smaller than what %s compares (%s): TOO_BIG is answered again (retry loop spins / chunk is dropped) for payloads within %d bytes of the buffer size; %s' %
                       (show(req), 'jls_raw_rd_payload', need_fn, overhead, bad[0]))
    ctx.floor('grow-then-read sites', n2, 2)


def r9(ctx, P):
    f = P.fn('reconstruct_omitted_chunk')
    ctx.saw(f)
    fills = [ev for ev in f.calls() if ev.callee in ('memset', '__builtin_memset', '__builtin___memset_chk', 'construct_f32', 'construct_f64')]
    n = 0
    for ev in fills:
        # destination derives from the output block pointer `d`
        n += 1

        def on_event(e2, facts):
            if e2.k == 'store':
                lhs, rhs, o = e2.store_parts()
                l0 = strip_casts(lhs)
                if l0.get('op') == 'member' and l0.get('field') == 'entry_count' and o in ('+=',):
                    return 'stop'
            if e2.k == 'ret' and ret_class(f, e2, facts) in ('zero', 'unknown'):
                return 'target'
            return None
        w = find_path(f, ev, on_event)
        ctx.ob('C10.9', w is None, f.name, 'fill %s is counted' % show(ev.e)[:40], ev.where(),
               'entry_count advanced' if w is None else
               'the block is filled and success returned with entry_count unchanged (0): the caller\'s copy loop makes no progress and computes a negative size',
               w.render() if w else None)
    ctx.floor('fill sites in reconstruct_omitted_chunk', n, 5)


def r10(ctx, P):
    for fname, start, length_like in (('jls_core_fsr', 'start_sample_id', 'data_length'), ('jls_core_fsr_statistics', 'start_sample_id', 'data_length')):
        f = P.fn(fname)
        ctx.saw(f)
        data = [p['name'] for p in f.params if p['name'] == 'data']
        if not data:
            raise AnalysisBroken('%s has no `data` parameter' % fname)
        # first uses of the caller's buffer: stores through it, or passing it / a pointer derived from it to a callee
        derived = {'data'}
        for _ in range(3):
            for ev in f.stores():
                lhs, rhs, o = ev.store_parts()
                l0 = strip_casts(lhs)
                if rhs is not None and l0.get('op') == 'ref' and any(nd.get('op') == 'ref' and nd.get('name') in derived for nd in walk(rhs)) and (l0.get('t', ev.t or '') or '').startswith('p'):
                    derived.add(l0['name'])
        uses = []
        for ev in f.events():
            if ev.k == 'call' and any(nd.get('op') == 'ref' and nd.get('name') in derived for a in ev.args for nd in walk(a)):
                uses.append(ev)
            elif ev.k == 'store':
                l0 = strip_casts(ev.store_parts()[0])
                if l0.get('op') in ('sub', 'un', 'member') and any(nd.get('op') == 'ref' and nd.get('name') in derived for nd in walk(l0)):
                    uses.append(ev)
        if not uses:
            raise AnalysisBroken('%s: no use of the output buffer found' % fname)

        def unguarded(san):
            for u in uses:
                w = find_path(f, 'entry', lambda e2, facts: 'target' if e2 is u else None,
                              edge_ok=lambda b, s, label: (b.id, label) not in san, refine=False)
                if w is not None:
                    return w
            return None
        # (1) start >= 0
        w = unguarded(nonneg_edges(f, start))
        ctx.ob('C10.10', w is None, fname, 'negative start rejected before the buffer is used', f.where(),
               'gate present on every path' if w is None else 'the output buffer is reachable with a negative start', w.render() if w else None)
        # (2) end <= samples : a compare X > samples (samples filled by jls_core_fsr_length(&samples)) whose T edge errors
        lenvars = set()
        for c in f.calls('jls_core_fsr_length'):
            a = strip_casts(c.args[2])
            if a.get('op') == 'un' and a['o'] == '&':
                lenvars.add(strip_casts(a['k'][0]).get('name'))
        san = set()
        gate_blocks = []
        params = {p['name'] for p in f.params}

        def mentions(e, names, b):
            """names (directly or through locals defined from them) mentioned by e"""
            out = set()
            for nm in names:
                if df.derives(f, e, lambda nd, nm=nm: nd.get('op') == 'ref' and nd.get('name') == nm, *df.cond_pos(b), must=False):
                    out.add(nm)
            return out
        for b in f.blocks.values():
            e = strip_casts(b.cond) if b.cond else None
            if e is None or e.get('op') != 'bin' or e['o'] not in ('>', '>=', '<', '<='):
                continue
            m = mentions(e, lenvars | {start, length_like}, b)
            if not (m & lenvars) or not (m & {start, length_like}):
                continue
            # the edge that leads straight to an error return is the rejecting one
            for i_, (s_, label) in enumerate(b.succs):
                nb = s_
                hops = 0
                while len(nb.succs) == 1 and not any(ev.k == 'ret' for ev in nb.events) and hops < 6:
                    nb = nb.succs[0][0]
                    hops += 1
                rets = [ev for ev in nb.events if ev.k == 'ret']
                if rets and ret_class(f, rets[0], frozenset()) == 'nonzero':
                    other = b.succs[1 - i_][1]
                    gate_blocks.append((b, m))
                    san.add((b.id, other))
        # together the gates must involve the start and the length
        covered = set()
        for b, m in gate_blocks:
            covered |= m
        if not ({start, length_like} <= covered):
            san = set()
        w = unguarded(san) if san else 'no compare of start+length with the signal length'
        ctx.ob('C10.10', w is None, fname, 'window end beyond the signal rejected before the buffer is used', f.where(),
               'gate present on every path' if w is None else ('%s' % (w if isinstance(w, str) else 'the output buffer is reachable without the end-of-signal check')),
               w.render() if (w is not None and not isinstance(w, str)) else None)
        # (2b) the window gates are written in overflow-free form: no sum or product of two non-constant quantities one of
        # which is an API parameter is formed inside a gate compare (start + length wraps for values near INT64_MAX)
        bad_forms = []
        for b, m in gate_blocks:
            stack = [strip_casts(b.cond)]
            seen_ids = set()
            while stack:
                nd = stack.pop()
                if nd is None or id(nd) in seen_ids:
                    continue
                seen_ids.add(id(nd))
                if nd.get('op') == 'ref' and nd.get('rk') == 'local':
                    r_ = df.resolve_local(f, nd, b, len(b.events))
                    if r_ is not None and r_ is not nd:
                        stack.append(strip_casts(r_))
                    continue
                if nd.get('op') == 'bin' and nd['o'] in ('+', '*') and const_of(nd['k'][0]) is None and const_of(nd['k'][1]) is None:
                    if any(x.get('op') == 'ref' and x.get('rk') == 'param' and x.get('name') in params for k_ in nd['k'] for x in walk(k_)):
                        bad_forms.append(show(nd)[:60])
                for k_ in kids(nd):
                    stack.append(strip_casts(k_))
        ctx.ob('C10.10', not bad_forms and bool(gate_blocks), fname, 'window gates are overflow-free', f.where(),
               '%d gate compare(s) in subtraction / division form' % len(gate_blocks) if (not bad_forms and gate_blocks) else
               ('the gate computes %s from caller-supplied 64-bit values before anything bounds them: it wraps for large values and the check passes' % bad_forms[0] if bad_forms else 'no window gate found'))
        # (3) increment > 0 where there is one
        if any(p['name'] == 'increment' for p in f.params):
            san = set()
            for b in f.blocks.values():
                e = strip_casts(b.cond) if b.cond else None
                if e is None or e.get('op') != 'bin':
                    continue
                l, r = e['k']
                if var_of(f, l) == 'increment' and const_of(r) is not None:
                    c, o = const_of(r), e['o']
                    if (o == '<=' and c >= 0) or (o == '<' and c >= 1):
                        san.add((b.id, 'F'))
                    if (o == '>' and c >= 0) or (o == '>=' and c >= 1):
                        san.add((b.id, 'T'))
            w = unguarded(san) if san else 'no test of increment'
            ctx.ob('C10.10', w is None, fname, 'non-positive increment rejected before the buffer is used', f.where(),
                   'gate present' if w is None else 'increment <= 0 reaches the statistics loop (division / no progress)',
                   w.render() if (w is not None and not isinstance(w, str)) else None)


def divisor_ok(P, fn, nd, ev, block, fd, widths_env=None):
    """nd: bin node with / or %.  Returns (ok, how)."""
    d = strip_casts(nd['k'][1])
    c = const_of(d)
    if c is not None:
        return c != 0, 'constant %d' % c
    # directly max(x, c)
    if d.get('op') == 'call':
        g = P.functions.get(d.get('callee'))
        if g is not None and len(kids(d)) == 2:
            cs = [const_of(a) for a in kids(d)]
            if any(x is not None and x > 0 for x in cs) and _is_max(P, g, fd):
                return True, 'directly %s(x, c>0)' % d['callee']
    v = var_of(fn, d)
    if v is not None:
        # dominating non-zero test
        san = set()
        for b in fn.blocks.values():
            for label in ('T', 'F'):
                for (var, kind, cv) in cond_facts(fn, b.cond, label):
                    if var == v and kind == 'ne' and cv == 0:
                        san.add((b.id, label))
        if san:
            if ev is not None:
                w = find_path(fn, 'entry', lambda e2, facts: 'target' if e2 is ev else None, edge_ok=lambda b, s, label: (b.id, label) not in san, refine=False)
            else:
                w = find_path(fn, 'entry', lambda e2, facts: None, on_block_end=lambda b, facts: 'target' if b is block else None,
                              edge_ok=lambda b, s, label: (b.id, label) not in san, refine=False)
            if w is None:
                return True, 'dominated by a non-zero test of %s' % v
        # local whose every reaching definition is a non-zero constant or max(x, c>0) directly
        if d.get('op') == 'ref' and d.get('rk') == 'local':
            pos = (ev.block, ev.idx) if ev is not None else (block, len(block.events))
            defs, entry = df.reaching_defs(fn, v, *pos)
            if defs and not entry:
                oks = []
                for dd in defs:
                    rhs = dd.store_parts()[1]
                    if rhs is None:
                        oks.append(False)
                        continue
                    r0 = strip_casts(rhs)
                    if const_of(r0) is not None and const_of(r0) != 0:
                        oks.append(True)
                    elif r0.get('op') == 'call' and P.functions.get(r0.get('callee')) is not None and len(kids(r0)) == 2 and \
                            any(const_of(a) is not None and const_of(a) > 0 for a in kids(r0)) and _is_max(P, P.functions[r0['callee']], fd):
                        oks.append(True)
                    else:
                        oks.append(False)
                if all(oks):
                    return True, 'every reaching definition of %s is a non-zero constant or max(x, c>0)' % v
    return False, 'divisor `%s` can be zero' % show(d)


_max_memo = {}


def _is_max(P, g, fd):
    if g.name in _max_memo:
        return _max_memo[g.name]
    ok = True
    try:
        for a in (0, 1, 5, 4294967295):
            for b in (0, 1, 7, 4294967295):
                if fd.call(g, [a, b]) != max(a, b):
                    ok = False
    except (Top, ZeroDivisionError):
        ok = False
    _max_memo[g.name] = ok
    return ok


def r11(ctx, P):
    from .defnorm import check_divisors
    check_divisors(ctx, 'C10.11', P)


def r12(ctx, P):
    n = 0
    for fn in P.all_functions():
        for ev in fn.calls('malloc'):
            # bound to a struct pointer local
            var = None
            rec = None
            for e2 in ev.block.events[ev.idx + 1:]:
                if e2.k in ('store', 'decl'):
                    lhs, rhs, o = e2.store_parts()
                    if rhs is not None and any(nd.get('id') == ev.e.get('id') for nd in walk(rhs)):
                        l0 = strip_casts(lhs)
                        t = l0.get('t') or e2.t or ''
                        if l0.get('op') == 'ref' and t.startswith('p:s:'):
                            var, rec = l0['name'], t[4:]
                    break
            if var is None or rec not in P.records:
                continue
            n += 1
            ctx.saw(fn, 1)
            R = P.records[rec]
            # publication points: store of var through an out-parameter / return
            pubs = []
            for e2 in fn.events():
                if e2.k == 'store':
                    lhs, rhs, o = e2.store_parts()
                    l0 = strip_casts(lhs)
                    if rhs is not None and var_of(fn, rhs) == var and l0.get('op') == 'un' and l0['o'] == '*':
                        pubs.append(e2)
                if e2.k == 'ret' and e2.e is not None and var_of(fn, e2.e) == var:
                    pubs.append(e2)
            # fields loaded anywhere in the program
            loaded = fields_loaded(P, rec)
            whole = [c for c in fn.calls(('memset', '__builtin_memset', '__builtin___memset_chk')) if var_of(fn, c.args[0]) == var]
            for fld in R['fields']:
                fname_ = fld['name']
                if fname_ not in loaded:
                    continue
                if fld['t'].startswith('a?'):
                    continue          # flexible array member: storage handed to its own initialiser
                inits = []
                for e2 in fn.events():
                    if e2.k == 'store':
                        l0 = strip_casts(e2.store_parts()[0])
                        p = path_of(l0)
                        if p is not None and p.root == var and len(p) >= 3 and p[2] == '.' + fname_:
                            if fld['t'].startswith('a') and len(p) > 3:
                                continue      # a single element store does not initialise an array
                            inits.append(e2)
                    if e2.k == 'call':
                        for a in e2.args:
                            a0 = strip_casts(a)
                            inner = strip_casts(a0['k'][0]) if a0.get('op') == 'un' and a0['o'] == '&' else a0
                            p = path_of(inner)
                            if p is not None and p.root == var and len(p) == 3 and p[2] == '.' + fname_ and \
                                    (e2.callee in ('memset', '__builtin_memset', '__builtin___memset_chk') or e2.callee.endswith('_init')):
                                inits.append(e2)
                ok = bool(whole) or (bool(inits) and all(any(ev_dominates(i, p_) for i in inits) for p_ in pubs))
                ctx.ob('C10.12', ok, fn.name, 'field %s.%s initialised before publication' % (rec, fname_), ev.where(),
                       'initialised' if ok else
                       '%s is allocated with malloc and `%s` is read by %s but never initialised in %s before the instance is handed out' %
                       (rec, fname_, sorted(loaded[fname_])[:2], fn.name))
    ctx.floor('malloc\'ed instances', n, 2)


def fields_loaded(P, rec):
    out = {}
    for fn in P.all_functions():
        for b in fn.blocks.values():
            items = [(ev.e, ev) for ev in b.events if ev.e is not None]
            if b.cond is not None:
                items.append((b.cond, None))
            for e, ev in items:
                skip = None
                if ev is not None and ev.k == 'store':
                    lhs, rhs, o = ev.store_parts()
                    if o == '=':
                        # the stored-to lvalue chain is not a load of its last field
                        l0 = strip_casts(lhs)
                        while l0 is not None and l0.get('op') == 'sub':
                            l0 = strip_casts(l0['k'][0])
                        skip = l0.get('id') if l0 is not None else None
                for nd in walk(e):
                    if nd.get('op') == 'member' and nd.get('rec') == rec and nd.get('id') != skip:
                        out.setdefault(nd['field'], set()).add(fn.name)
    return out


def r13(ctx, P):
    n = 0
    for fn in P.all_functions():
        for ev in fn.calls(('malloc', 'calloc', 'realloc')):
            var = None
            st = None
            for e2 in ev.block.events[ev.idx + 1:]:
                if e2.k in ('store', 'decl'):
                    lhs, rhs, o = e2.store_parts()
                    if rhs is not None and any(nd.get('id') == ev.e.get('id') for nd in walk(rhs)):
                        var = var_of(fn, lhs)
                        st = e2
                    break
            if var is None:
                continue
            n += 1
            ctx.saw(fn, 1)

            def deref(e):
                for nd in walk(e):
                    if nd.get('op') == 'member' and nd.get('arrow') and var_of(fn, nd['k'][0]) == var:
                        return True
                    if nd.get('op') == 'sub' and var_of(fn, nd['k'][0]) == var:
                        return True
                    if nd.get('op') == 'un' and nd['o'] == '*' and var_of(fn, nd['k'][0]) == var:
                        return True
                return False

            def on_event(e2, facts):
                if e2.k in ('store', 'decl'):
                    l0 = e2.store_parts()[0]
                    if var_of(fn, l0) == var and e2 is not st:
                        return 'stop'
                if e2.e is not None and deref(e2.e):
                    return 'target'
                if e2.k == 'call' and e2.callee in ('memcpy', 'memset', '__builtin_memcpy', '__builtin_memset', '__builtin___memcpy_chk', '__builtin___memset_chk') \
                        and any(var_of(fn, a) == var for a in e2.args[:2]):
                    return 'target'
                return None
            w = find_path(fn, st, on_event, start_facts=frozenset([(var, 'eq', 0)]),
                          on_block_end=lambda b, facts: 'target' if (b.cond is not None and deref(b.cond)) else None)
            ctx.ob('C10.13', w is None, fn.name, '%s result `%s` checked before use' % (ev.callee, var), ev.where(),
                   'NULL is tested before any dereference' if w is None else 'the result is dereferenced on a path where it may be NULL', w.render() if w else None)
    ctx.floor('allocation sites bound to a variable', n, 15)
