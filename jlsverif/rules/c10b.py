"""C10 part 2 (placeholder; filled in below)."""


def run(ctx, sess, P, G, T, reach, roots, exc):
    pass
