"""C10.14 / C10.15: lengths supplied through the public API.

C10.14  32-bit arithmetic on an API-supplied length cannot wrap before the result is used as a
        size: a `*`, `+` or `<<` node of 32-bit unsigned type with an operand that still *is* an
        unbounded uint32 parameter of a public function (followed through calls and plain copies),
        whose value reaches an allocator size, a copy length or an address computation, must be
        preceded on every path by a compare of that length with a constant.
C10.15  the region handed out by the message ring carries its 4-byte prefix: on every path of the
        ring allocator to a non-NULL return some compare edge asserts  size + k (+ non-negative
        terms) < / <=  extent  with k >= 4, the extent being the ring size or the read index.

Both are necessary conditions of "never writes outside the library's own allocations"; they are
decided from the expression trees and the CFG, nothing is evaluated on sample inputs.
"""
from ..ir import strip_casts, const_of, walk, show, kids
from ..graph import find_path, ev_dominates, control_deps_transitive
from ..export import AnalysisBroken
from ..guard import var_of, bound_edges
from .. import df

LIBC_SIZE_SINKS = {
    'memcpy': (2,), '__builtin_memcpy': (2,), '__builtin___memcpy_chk': (2,),
    'memmove': (2,), '__builtin_memmove': (2,), '__builtin___memmove_chk': (2,),
    'memset': (2,), '__builtin_memset': (2,), '__builtin___memset_chk': (2,),
    'malloc': (0,), 'calloc': (0, 1), 'realloc': (1,),
}
# the one in-repo allocator whose size parameter is not passed on to libc: it carves the region out of the ring
REPO_ALLOCATORS = {'jls_mrb_alloc': (1,)}
BOUND_K = 1 << 31
U32 = ('u32',)


def _events_and_conds(fn):
    for b in fn.blocks.values():
        for ev in b.events:
            if ev.e is not None:
                yield ev.e, ev, b, ev.idx
        if b.cond is not None:
            yield b.cond, None, b, len(b.events)


def _keeps_type(e):
    """strip casts that do not widen a 32-bit value"""
    while e is not None and e.get('op') == 'cast' and e.get('t') in ('u32', 'i32'):
        e = e['k'][0]
    return e


class Lengths:
    def __init__(self, P):
        self.P = P
        self.tainted = {}      # (fn name, param name) -> origin string
        self._sink_memo = {}
        self._solve()

    # ---- which parameters may still be an unbounded API uint32
    def ident_params(self, fn, e, block, idx, depth=0):
        """parameters of fn that expression e may be equal to (casts within 32 bits and plain copies only)"""
        e = _keeps_type(e)
        if e is None or depth > 4:
            return set()
        if e.get('op') == 'ref' and e.get('rk') == 'param':
            return {e['name']}
        if e.get('op') == 'ref' and e.get('rk') == 'local':
            out = set()
            defs, _ = df.reaching_defs(fn, e['name'], block, idx)
            for d in defs:
                lhs, rhs, o = d.store_parts()
                if rhs is None or o != '=':
                    continue
                if self._clamped(fn, d, rhs):
                    continue
                out |= self.ident_params(fn, rhs, d.block, d.idx, depth + 1)
            return out
        return set()

    def _clamped(self, fn, d, rhs):
        """`if (t < L) L = t;` — the copy is the smaller of two values, bounded by the other one"""
        from ..graph import control_deps
        r = _keeps_type(rhs)
        if r is None or r.get('op') != 'ref':
            return False
        cd = control_deps(fn).get(d.block.id, set())
        for (a, lab) in cd:
            c = strip_casts(fn.blocks[a].cond) if fn.blocks[a].cond else None
            if c is None or c.get('op') != 'bin' or c['o'] not in ('<', '<=', '>', '>='):
                continue
            l, rr = c['k']
            lo, hi = (l, rr) if c['o'] in ('<', '<=') else (rr, l)
            if lab == 'F':
                lo, hi = hi, lo
            if var_of(fn, lo) == r.get('name') and var_of(fn, hi) is not None and var_of(fn, hi) != r.get('name'):
                return True
        return False

    def bounded_at(self, fn, v, target_ev, block=None):
        """no path from the entry reaches the position without crossing  v < constant  (or a re-assignment of v)"""
        edges = bound_edges(fn, v, BOUND_K)

        def on_event(ev, facts):
            if ev is target_ev:
                return 'target'
            if ev.k == 'store' and df.stores_to_local(ev, v):
                lhs, rhs, o = ev.store_parts()
                if o == '=':
                    return 'stop'
            return None
        if target_ev is None:
            w = find_path(fn, 'entry', lambda ev, facts: None, refine=False,
                          edge_ok=lambda b, s, label: (b.id, label) not in edges,
                          on_block_end=lambda b, facts: 'target' if b is block else None)
        else:
            w = find_path(fn, 'entry', on_event, refine=False, edge_ok=lambda b, s, label: (b.id, label) not in edges)
        return w is None

    def _solve(self):
        P = self.P
        for fn in P.all_functions():
            if fn.api:
                for p in fn.params:
                    if p.get('t') in U32:
                        self.tainted[(fn.name, p['name'])] = '%s(%s)' % (fn.name, p['name'])
        changed = True
        while changed:
            changed = False
            for fn in P.all_functions():
                mine = {p for (f, p) in self.tainted if f == fn.name}
                if not mine:
                    continue
                for ev in fn.calls():
                    g = P.functions.get(ev.callee)
                    if g is None:
                        continue
                    for j, a in enumerate(ev.args):
                        if j >= len(g.params) or g.params[j].get('t') not in U32:
                            continue
                        if (g.name, g.params[j]['name']) in self.tainted:
                            continue
                        for p in self.ident_params(fn, a, ev.block, ev.idx) & mine:
                            if not self.bounded_at(fn, p, ev):
                                self.tainted[(g.name, g.params[j]['name'])] = self.tainted[(fn.name, p)] + ' -> %s(%s)' % (g.name, g.params[j]['name'])
                                changed = True
                                break

    # ---- does a value reach a size sink
    def sink_param(self, g, j, depth=0):
        key = (g.name, j)
        if key in self._sink_memo:
            return self._sink_memo[key]
        self._sink_memo[key] = None
        res = None
        if depth <= 3 and j < len(g.params):
            v = g.params[j]['name']
            for e, ev, b, idx in _events_and_conds(g):
                for n in walk(e):
                    if n.get('op') == 'ref' and n.get('name') == v and n.get('rk') == 'param':
                        res = self.flows(g, e, n, ev, b, idx, depth + 1)
                        if res:
                            break
                if res:
                    break
        self._sink_memo[key] = res
        return res

    def _chain(self, root, node):
        """ancestors of node inside root (outermost first), or None"""
        if root is node:
            return []
        for k in kids(root):
            c = self._chain(k, node)
            if c is not None:
                return [root] + c
        return None

    def flows(self, fn, root, node, ev, block, idx, depth=0):
        """where does the value of `node` (inside expression `root` of event ev) end up as a size?"""
        chain = self._chain(root, node)
        if chain is None:
            return None
        # a remainder / small mask discards the magnitude; a compare consumes it
        for a in chain:
            if a.get('op') == 'bin' and a['o'] in ('%', '&', '<', '<=', '>', '>=', '==', '!=', '&&', '||'):
                return None
            if a.get('op') == 'un' and a['o'] == '!':
                return None
        # address computation
        for a in chain:
            if a.get('op') == 'bin' and a['o'] in ('+', '-') and a.get('t', '').startswith('p:'):
                return 'address computation %s' % show(a)[:60]
            if a.get('op') == 'sub':
                return None     # subscripts are C10.1's business
        if ev is not None and ev.k == 'call':
            args = ev.args
            for j, a in enumerate(args):
                if self._chain(a, node) is not None or a is node:
                    if ev.callee in LIBC_SIZE_SINKS and j in LIBC_SIZE_SINKS[ev.callee]:
                        return 'length of %s()' % ev.callee
                    if ev.callee in REPO_ALLOCATORS and j in REPO_ALLOCATORS[ev.callee]:
                        return 'size of %s()' % ev.callee
                    g = self.P.functions.get(ev.callee)
                    if g is not None and depth <= 3:
                        r = self.sink_param(g, j, depth)
                        if r:
                            return '%s(%s): %s' % (g.name, g.params[j]['name'], r)
            return None
        if ev is not None and ev.k in ('store', 'decl'):
            lhs, rhs, o = ev.store_parts()
            l0 = strip_casts(lhs)
            if rhs is not None and l0.get('op') == 'ref' and l0.get('rk') == 'local' and depth <= 3:
                name = l0['name']
                for e2, ev2, b2, idx2 in _events_and_conds(fn):
                    if ev2 is ev:
                        continue
                    for n2 in walk(e2):
                        if n2.get('op') == 'ref' and n2.get('name') == name and n2.get('rk') == 'local':
                            if ev2 is not None and ev2.k in ('store', 'decl') and strip_casts(ev2.store_parts()[0]) is n2:
                                continue
                            defs, _ = df.reaching_defs(fn, name, b2, idx2)
                            if ev not in defs:
                                continue
                            r = self.flows(fn, e2, n2, ev2, b2, idx2, depth + 1)
                            if r:
                                return '%s -> %s' % (name, r)
        return None


def r14(ctx, P):
    L = Lengths(P)
    ctx.note('C10.14: parameters that may carry an unbounded API length: %d (%s ...)' % (
        len(L.tainted), ', '.join('%s.%s' % k for k in sorted(L.tainted)[:6])))
    n_sites = 0
    fns = sorted({f for (f, p) in L.tainted})
    for name in fns:
        fn = P.functions[name]
        mine = {p for (f, p) in L.tainted if f == name}
        seen = set()
        for e, ev, b, idx in _events_and_conds(fn):
            for nd in walk(e):
                narrowing = False
                via_local = None
                if nd.get('op') == 'cast' and nd.get('t') in U32 and nd['k'] and nd['k'][0].get('op') == 'bin' and \
                        nd['k'][0]['o'] in ('*', '+', '<<') and nd['k'][0].get('t') in ('u64', 'i64'):
                    # a 64-bit sum/product of a 32-bit length, narrowed back to 32 bits
                    narrowing = True
                    arith = nd['k'][0]
                elif nd.get('op') == 'bin' and nd['o'] in ('*', '+', '<<') and nd.get('t') in U32:
                    arith = nd
                elif nd.get('op') == 'cast' and nd.get('t') in U32 and nd['k'] and nd['k'][0].get('op') == 'ref' and \
                        nd['k'][0].get('rk') == 'local' and nd['k'][0].get('t') in ('u64', 'i64'):
                    # a 64-bit local computed from a 32-bit length, narrowed back to 32 bits
                    via_local = nd['k'][0]['name']
                    defs, entry = df.reaching_defs(fn, via_local, b, idx)
                    arith = None
                    for d in defs:
                        rhs = d.store_parts()[1]
                        for m in (walk(rhs) if rhs is not None else ()):
                            if m.get('op') == 'bin' and m['o'] in ('*', '+', '<<') and const_of(m) is None and \
                                    any(L.ident_params(fn, strip_casts(k), d.block, d.idx) & mine for k in m['k']):
                                arith, adef = m, d
                    if arith is None:
                        continue
                    narrowing = True
                else:
                    continue
                if const_of(nd) is not None or nd.get('id') in seen:
                    continue
                hit = None
                ab, ai = (adef.block, adef.idx) if via_local else (b, idx)
                for k in arith['k']:
                    ps = L.ident_params(fn, strip_casts(k) if narrowing else k, ab, ai) & mine
                    if ps:
                        hit = sorted(ps)[0]
                if hit is None:
                    continue
                other = [k for k in arith['k'] if not (L.ident_params(fn, strip_casts(k) if narrowing else k, ab, ai) & mine)]
                if arith['o'] == '+' and other and const_of(other[0]) == 0:
                    continue
                sink = L.flows(fn, e, nd, ev, b, idx)
                if not sink:
                    continue
                seen.add(nd.get('id'))
                n_sites += 1
                ctx.saw(fn, 1)
                ok = L.bounded_at(fn, hit, ev, b)
                how = '%s is compared with a constant on every path before the 32-bit arithmetic' % hit
                if not ok and via_local and L.bounded_at(fn, via_local, ev, b):
                    ok, how = True, 'computed in 64 bits as %s, which is compared with a constant on every path before it is narrowed' % via_local
                ctx.ob('C10.14', ok, fn.name, '%s -> %s' % (show(arith)[:70], sink[:80]),
                       '%s:%d' % (fn.file, nd.get('ln', ev.ln if ev is not None else b.line)),
                       how if ok else
                       '%s is an API length (%s) that no compare bounds: the 32-bit %s wraps for large values and the wrapped result is used as %s' % (
                           hit, L.tainted[(name, hit)], {'*': 'product', '+': 'sum', '<<': 'shift'}[arith['o']] + (' (narrowed from 64 bits)' if narrowing else ''), sink))
    ctx.floor('length-arithmetic sites reaching a size', n_sites, 2)
    ctx.floor('parameters carrying API lengths', len(L.tainted), 10)


# --------------------------------------------------------------------------- C10.15

def _lower_form(fn, e, block, idx, depth=0):
    """(coefficients, constant) of a linear lower bound of unsigned expression e: e >= sum(c_i * v_i) + const.
    Unknown unsigned sub-terms contribute 0; `c ? a : b` contributes the smaller constant."""
    e = strip_casts(e)
    if e is None or depth > 6:
        return {}, 0
    c = const_of(e)
    if c is not None:
        return {}, max(c, 0)
    if e.get('op') == 'ref' and e.get('rk') == 'local':
        r = df.resolve_local(fn, e, block, idx)
        if r is not None and r is not e and not (r.get('op') == 'ref' and r.get('name') == e.get('name')):
            defs, entry = df.reaching_defs(fn, e['name'], block, idx)
            if len(defs) == 1 and not entry:
                return _lower_form(fn, r, defs[0].block, defs[0].idx, depth + 1)
        return {e['name']: 1}, 0
    v = var_of(fn, e)
    if v is not None:
        return {v: 1}, 0
    if e.get('op') == 'bin' and e['o'] == '+':
        a, ca = _lower_form(fn, e['k'][0], block, idx, depth + 1)
        b, cb = _lower_form(fn, e['k'][1], block, idx, depth + 1)
        out = dict(a)
        for k2, c2 in b.items():
            out[k2] = out.get(k2, 0) + c2
        return out, ca + cb
    if e.get('op') == 'cond':
        ks = kids(e)
        if len(ks) == 3:
            a, ca = _lower_form(fn, ks[1], block, idx, depth + 1)
            b, cb = _lower_form(fn, ks[2], block, idx, depth + 1)
            common = {k2: min(a[k2], b[k2]) for k2 in a if k2 in b}
            return common, min(ca, cb)
    return {}, 0


def r15(ctx, P, rule='C10.15'):
    n = 0
    for name in sorted(REPO_ALLOCATORS):
        fn = P.functions.get(name)
        if fn is None:
            continue
        ctx.saw(fn, 1)
        size = fn.params[REPO_ALLOCATORS[name][0]]['name']
        # extents: the ring size and (by the ring's own invariant, an assumption listed in the evidence) the read index
        def is_extent(e, b, idx):
            e0 = strip_casts(e)
            e1 = df.resolve_local(fn, e0, b, idx) if e0.get('op') == 'ref' else e0
            for x in (e0, e1):
                p = fn.path(x) if x is not None else None
                if p is not None and p.last_field() in ('buf_size', 'tail'):
                    return p.last_field()
            return None
        good = set()
        described = []
        weak = []
        for b in fn.blocks.values():
            if b.cond is None or len(b.succs) < 2:
                continue
            c = strip_casts(b.cond)
            if c.get('op') != 'bin' or c['o'] not in ('<', '<=', '>', '>='):
                continue
            l, r = c['k']
            for lab in ('T', 'F'):
                o = c['o']
                lo, hi = (l, r) if o in ('<', '<=') else (r, l)
                strict = o in ('<', '>')
                if lab == 'F':
                    lo, hi = hi, lo
                    strict = not strict
                ext = is_extent(hi, b, len(b.events))
                if ext is None:
                    continue
                coefs, k = _lower_form(fn, lo, b, len(b.events))
                # the region is  [o, o + 4 + size)  and the next write index is  o + 4 + size:
                #   extent = ring size: the next index must leave room for a 4-byte wrap marker: size + 8 <= B
                #   extent = read index: the next index must stay strictly below it (head == tail means empty): size + 4 < tail
                need = 8 if ext == 'buf_size' else 5
                if coefs.get(size, 0) >= 1 and (k + (1 if strict else 0)) >= need:
                    good.add((b.id, lab))
                    described.append('%s on %s' % (show(c), lab))
                elif coefs.get(size, 0) >= 1:
                    weak.append('%s bounds %s + %d %s the %s; the prefix%s needs %d' % (
                        show(c), size, k, '<' if strict else '<=', 'ring size' if ext == 'buf_size' else 'read index', ' and a later wrap marker' if ext == 'buf_size' else ' and a strict gap to the read index (head == tail means empty)', need))
        rets = [rv for rv in fn.returns() if rv.e is not None and const_of(rv.e) != 0 and const_of(strip_casts(rv.e)) != 0]
        for rv in rets:
            n += 1
            w = find_path(fn, 'entry', lambda ev, facts: 'target' if ev is rv else None, refine=True,
                          edge_ok=lambda b, s, label: (b.id, label) not in good)
            ctx.ob(rule, w is None, fn.name, 'region returned for %s bytes' % size, rv.where(),
                   'every path passes one of: %s' % '; '.join(sorted(set(described))) if w is None else
                   'a path hands out the region without a sufficient bound on %s (%s): the prefix and message, or the next wrap marker, extend past the ring, or a full ring looks empty' % (size, '; '.join(weak) or 'no compare'),
                   w.render() if w else None)
    ctx.floor('ring hand-out returns', n, 1)


# --------------------------------------------------------------------------- C10.16

ESZ = {'u8': 1, 'i8': 1, 'u16': 2, 'i16': 2, 'u32': 4, 'i32': 4, 'f32': 4, 'u64': 8, 'i64': 8, 'f64': 8}
ALLOCS = {'malloc': 0, 'realloc': 1, 'calloc': None}


def _lin(fn, e, block, idx, depth=0):
    """exact linear form (coefs, const) of e over locals/params, or None; locals with a single plain
    definition are expanded, constants folded, `const * x` and `x * const` scaled"""
    e = strip_casts(e)
    if e is None or depth > 8:
        return None
    c = const_of(e)
    if c is not None:
        return {}, c
    op = e.get('op')
    if op == 'ref' and e.get('rk') in ('local', 'param'):
        if e.get('rk') == 'local':
            defs, entry = df.reaching_defs(fn, e['name'], block, idx)
            if len(defs) == 1 and not entry:
                lhs, rhs, o = defs[0].store_parts()
                if o == '=' and rhs is not None:
                    r = _lin(fn, rhs, defs[0].block, defs[0].idx, depth + 1)
                    if r is not None:
                        return r
        return {e['name']: 1}, 0
    if op == 'member':
        v = var_of(fn, e)
        if v is not None:
            return {v: 1}, 0
        return None
    if op == 'bin' and e['o'] in ('+', '-'):
        a = _lin(fn, e['k'][0], block, idx, depth + 1)
        b = _lin(fn, e['k'][1], block, idx, depth + 1)
        if a is None or b is None:
            return None
        sg = 1 if e['o'] == '+' else -1
        out = dict(a[0])
        for k2, c2 in b[0].items():
            out[k2] = out.get(k2, 0) + sg * c2
        return out, a[1] + sg * b[1]
    if op == 'bin' and e['o'] == '*':
        a = _lin(fn, e['k'][0], block, idx, depth + 1)
        b = _lin(fn, e['k'][1], block, idx, depth + 1)
        if a is None or b is None:
            return None
        if not a[0]:
            return {k2: c2 * a[1] for k2, c2 in b[0].items()}, a[1] * b[1]
        if not b[0]:
            return {k2: c2 * b[1] for k2, c2 in a[0].items()}, a[1] * b[1]
        return None
    return None


def r16(ctx, P):
    """the capacity recorded for a buffer is covered by the bytes that were allocated for it"""
    # capacity fields: fields compared with a requested length in a function that (re)allocates
    n = 0
    cap_fields = set()
    for fn in P.all_functions():
        if not any(c.callee in ALLOCS for c in fn.calls()):
            continue
        for b in fn.blocks.values():
            c = strip_casts(b.cond) if b.cond is not None else None
            if c is None or c.get('op') != 'bin' or c['o'] not in ('<', '<=', '>', '>='):
                continue
            for x in c['k']:
                x0 = strip_casts(x)
                if x0.get('op') == 'member' and x0.get('t') in ('u64', 'u32'):
                    cap_fields.add((x0.get('rec'), x0['field']))
    ctx.note('C10.16: capacity fields derived (compared with a length in an allocating function): %s' % sorted('%s.%s' % k for k in cap_fields))
    for fn in P.all_functions():
        allocs = [c for c in fn.calls() if c.callee in ALLOCS]
        if not allocs:
            continue
        # sibling functions of the same record may only initialise: take every store to a field some function of the program uses as capacity
        for ev in fn.stores():
            lhs, rhs, o = ev.store_parts()
            l0 = strip_casts(lhs)
            if l0.get('op') != 'member' or rhs is None or o != '=' or const_of(rhs) == 0:
                continue
            key = (l0.get('rec'), l0['field'])
            if key not in cap_fields:
                continue
            rec = P.record(l0['rec'])
            vform = _lin(fn, rhs, ev.block, ev.idx)
            # allocations of this object (flexible array) or of its array fields that reach this store
            for al in allocs:
                if not (al.block is ev.block and al.idx < ev.idx) and not _reaches(fn, al, ev):
                    continue
                tgt = _alloc_target(fn, al)
                if tgt is None:
                    continue
                kind, what = tgt
                if kind == 'struct' and what == l0['rec']:
                    flex = [f_ for f_ in rec['fields'] if f_['t'].startswith('a?:')]
                    if not flex:
                        continue
                    elem, base, arr = ESZ.get(flex[0]['t'][3:]), flex[0]['off_bits'] // 8, flex[0]['name']
                elif kind == 'field' and what[0] == l0['rec']:
                    ft = [f_ for f_ in rec['fields'] if f_['name'] == what[1]]
                    if not ft or not ft[0]['t'].startswith('p:'):
                        continue
                    elem, base, arr = ESZ.get(ft[0]['t'][2:]), 0, what[1]
                else:
                    continue
                if elem is None:
                    continue
                si = ALLOCS[al.callee]
                if si is None:
                    continue
                sform = _lin(fn, al.args[si], al.block, al.idx)
                n += 1
                ctx.saw(fn, 1)
                ok, detail = False, 'allocation size or recorded capacity is not a linear expression'
                if sform is not None and vform is not None:
                    bad = []
                    for v_, cv in vform[0].items():
                        if sform[0].get(v_, 0) < cv * elem:
                            bad.append('%s: %d bytes allocated per unit, %d recorded (x %d-byte elements)' % (v_, sform[0].get(v_, 0), cv, elem))
                    if sform[1] - base < vform[1] * elem:
                        bad.append('constant part: %d bytes after the header, %d elements recorded' % (sform[1] - base, vform[1]))
                    ok = not bad
                    detail = ('%s bytes hold %s elements of %d bytes' % (show(al.args[si])[:50], show(rhs)[:30], elem)) if ok else \
                        'recorded capacity exceeds the allocation: ' + '; '.join(bad) + ' - the reuse test then accepts requests larger than the buffer'
                ctx.ob('C10.16', ok, fn.name, '%s.%s for %s' % (l0['rec'], l0['field'], arr), ev.where(), detail)
    ctx.floor('capacity stores checked against their allocation', n, 3)


def _reaches(fn, a, b):
    w = find_path(fn, a, lambda ev, facts: 'target' if ev is b else None, refine=False)
    return w is not None


def _alloc_target(fn, al):
    """('struct', record) when the result becomes a pointer to a record, ('field', (record, field)) when it is stored (possibly via a local) into an array field"""
    # the event right after the call that consumes its value
    cid = al.e.get('id')
    for ev in fn.stores():
        lhs, rhs, o = ev.store_parts()
        if rhs is None or not any(nd.get('id') == cid for nd in walk(rhs)):
            continue
        l0 = strip_casts(lhs)
        if l0.get('op') == 'member' and l0.get('t', '').startswith('p:'):
            return 'field', (l0['rec'], l0['field'])
        if l0.get('op') == 'ref':
            t = l0.get('t', '') or (ev.t or '')
            if t.startswith('p:s:'):
                return 'struct', t[4:]
            # a local pointer later stored into a field
            for ev2 in fn.stores():
                l2, r2, o2 = ev2.store_parts()
                if r2 is not None and strip_casts(r2).get('op') == 'ref' and strip_casts(r2).get('name') == l0['name']:
                    m2 = strip_casts(l2)
                    if m2.get('op') == 'member' and m2.get('t', '').startswith('p:'):
                        return 'field', (m2['rec'], m2['field'])
    return None


# --------------------------------------------------------------------------- C10.17

def r17(ctx, P):
    """pointers into a block that realloc may move are re-based"""
    n = 0
    for fn in P.all_functions():
        for al in fn.calls('realloc'):
            a0 = strip_casts(al.args[0])
            if a0.get('op') != 'member' or not a0.get('t', '').startswith('p:'):
                continue
            rec = P.record(a0['rec'])
            if rec is None:
                continue
            objp = fn.path(a0['k'][0]) if a0.get('k') else None
            sibs = [f_['name'] for f_ in rec['fields'] if f_['t'] == a0['t'] and f_['name'] != a0['field']]
            # only siblings that somewhere are made to point into this block: X->sib = X->field (+ ...)
            into = set()
            for g in P.all_functions():
                for ev in g.stores():
                    lhs, rhs, o = ev.store_parts()
                    l0 = strip_casts(lhs)
                    if l0.get('op') == 'member' and l0.get('rec') == a0['rec'] and l0['field'] in sibs and rhs is not None and o == '=':
                        if any(nd.get('op') == 'member' and nd.get('rec') == a0['rec'] and nd.get('field') == a0['field'] for nd in walk(rhs)):
                            into.add(l0['field'])
            if not into:
                continue
            n += 1
            ctx.saw(fn, 1)
            # the store that installs the new block
            inst = [ev for ev in fn.stores() if strip_casts(ev.store_parts()[0]).get('op') == 'member' and strip_casts(ev.store_parts()[0]).get('field') == a0['field']
                    and strip_casts(ev.store_parts()[0]).get('rec') == a0['rec'] and ev_after(fn, al, ev)]
            missing = []
            for sib in sorted(into):
                def on_event(e2, facts, sib=sib):
                    if e2.k == 'store':
                        l2 = strip_casts(e2.store_parts()[0])
                        if l2.get('op') == 'member' and l2.get('rec') == a0['rec'] and l2.get('field') == sib:
                            return 'stop'
                    if e2.k == 'ret' and (e2.e is None or const_of(e2.e) == 0):
                        return 'target'
                    return None
                for st in inst:
                    w = find_path(fn, st, on_event, refine=False)
                    if w is not None:
                        missing.append((sib, w))
                        break
            ctx.ob('C10.17', bool(inst) and not missing, fn.name, 'realloc(%s) re-bases %s' % (show(a0), ', '.join(sorted(into))), al.where(),
                   'every pointer into the block is stored again after the block may have moved' if (inst and not missing) else
                   ('%s still points into the old block after a successful realloc moved it: the next write through it goes to freed memory' % missing[0][0] if missing else 'the new block is never installed'),
                   missing[0][1].render() if missing else None)
    ctx.floor('reallocated blocks with interior pointers', n, 1)


def ev_after(fn, a, b):
    return (a.block is b.block and a.idx < b.idx) or _reaches(fn, a, b)


# --------------------------------------------------------------------------- C10.18

def r18(ctx, P, rule='C10.18'):
    """what the threaded writer remembers about a definition comes from an accepted definition only"""
    from ..guard import zero_edges_of_call
    n = 0
    for fn in P.fns_in('src/threaded_writer.c'):
        defs = [c for c in fn.calls() if c.callee in ('jls_wr_signal_def', 'jls_wr_source_def')]
        if not defs:
            continue
        for ev in fn.stores():
            lhs, rhs, o = ev.store_parts()
            p = fn.path(strip_casts(lhs))
            if p is None or p.root_kind != 'param' or rhs is None or ev.k != 'store':
                continue
            # a store into the instance whose value derives from the definition argument
            darg = defs[0].args[1]
            dname = strip_casts(darg).get('name')
            # the definition argument and the locals computed from it
            dnames = {dname}
            grew = True
            while grew:
                grew = False
                for d_ in fn.events():
                    if d_.k == 'decl' and d_.e is not None and d_.name not in dnames and any(nd.get('op') == 'ref' and nd.get('name') in dnames for nd in walk(d_.e)):
                        dnames.add(d_.name)
                        grew = True
            if not any(nd.get('op') == 'ref' and nd.get('name') in dnames for nd in walk(rhs)):
                continue
            n += 1
            ctx.saw(fn, 1)
            ok_edges = set()
            for c in defs:
                ok_edges |= zero_edges_of_call(fn, c)
            # every path from the entry to the store passes a zero-result edge of the definition call
            w = find_path(fn, 'entry', lambda e2, facts: 'target' if e2 is ev else None, refine=False,
                          edge_ok=lambda b, s, label: (b.id, label) not in ok_edges)
            ctx.ob(rule, w is None and bool(ok_edges), fn.name, 'store to %s' % str(p), ev.where(),
                   'only after %s() returned 0' % defs[0].callee if (w is None and ok_edges) else
                   'the value taken from the requested definition is remembered even when %s() rejects it (duplicate id, invalid parameters): later calls size their copies from a definition that is not in the file' % defs[0].callee,
                   w.render() if w else None)
    ctx.floor('definition-derived state in the threaded writer', n, 1)


# --------------------------------------------------------------------------- C10.19

def r19(ctx, P):
    """realloc may free the old block: its non-NULL result is installed before the function can leave or allocate again"""
    n = 0
    for fn in P.all_functions():
        for al in fn.calls('realloc'):
            a0 = strip_casts(al.args[0])
            if a0.get('op') != 'member':
                continue
            fld, rec = a0['field'], a0.get('rec')
            # the local that receives the result
            cid = al.e.get('id')
            res = None
            for ev in fn.stores():
                lhs, rhs, o = ev.store_parts()
                if rhs is not None and any(nd.get('id') == cid for nd in walk(rhs)) and strip_casts(lhs).get('op') == 'ref':
                    res = strip_casts(lhs)['name']
                    res_ev = ev
            if res is None:
                continue
            n += 1
            ctx.saw(fn, 1)

            def on_event(e2, facts, res=res, fld=fld, rec=rec):
                if e2.k == 'store':
                    l2 = strip_casts(e2.store_parts()[0])
                    r2 = e2.store_parts()[1]
                    if l2.get('op') == 'member' and l2.get('field') == fld and l2.get('rec') == rec and r2 is not None and \
                            strip_casts(r2).get('op') == 'ref' and strip_casts(r2).get('name') == res:
                        return 'stop'
                if e2.k == 'ret':
                    return 'target'
                if e2.k == 'call' and e2.callee in ('realloc', 'malloc', 'calloc') and e2 is not al:
                    return None
                # a use of the old pointer field while the result is not installed
                if e2.e is not None and e2 is not res_ev:
                    for nd in walk(e2.e):
                        if nd.get('op') in ('sub', 'un') and any(m.get('op') == 'member' and m.get('field') == fld and m.get('rec') == rec for m in walk(nd)) and nd.get('op') == 'sub':
                            return 'target'
                return None
            w = find_path(fn, res_ev, on_event, start_facts=frozenset([(res, 'ne', 0)]))
            ctx.ob('C10.19', w is None, fn.name, 'realloc(%s) result %s is installed' % (show(a0), res), al.where(),
                   'stored back into %s on every path on which it is not NULL' % show(a0) if w is None else
                   'realloc succeeded (the old block may have been freed) but %s keeps the old pointer on a path to a return or to an element access: use after free when a second allocation of the same step fails' % show(a0),
                   w.render() if w else None)
    ctx.floor('realloc results assigned to locals', n, 2)


# --------------------------------------------------------------------------- C10.20

def r20(ctx, P):
    """bisection probes stay inside the valid part of the array"""
    from ..graph import loops
    n = 0
    for fn in P.all_functions():
        lp = loops(fn)
        for h, body in lp.items():
            hb = fn.blocks[h]
            c = strip_casts(hb.cond) if hb.cond is not None else None
            if c is None or c.get('op') != 'bin' or c['o'] not in ('<', '<='):
                continue
            lo, hi = strip_casts(c['k'][0]), strip_casts(c['k'][1])
            if lo.get('op') != 'ref' or hi.get('op') != 'ref' or lo.get('rk') != 'local' or hi.get('rk') != 'local':
                continue
            # mid = (lo + hi [+ 1]) / 2 inside the loop
            mid = None
            for ev in [e_ for bid in body for e_ in fn.blocks[bid].events if e_.k in ('store', 'decl')]:
                lhs, rhs, o = ev.store_parts()
                r0 = strip_casts(rhs) if rhs is not None else None
                if r0 is None or r0.get('op') != 'bin' or r0['o'] not in ('/', '>>') or const_of(r0['k'][1]) not in (2, 1):
                    continue
                names = [x.get('name') for x in walk(r0['k'][0]) if x.get('op') == 'ref']
                if lo['name'] in names and hi['name'] in names:
                    consts = [const_of(x) for x in walk(r0['k'][0]) if x.get('op') == 'lit' or (const_of(x) is not None and x.get('op') not in ('bin',))]
                    up = any(v == 1 for v in consts)
                    mid = (strip_casts(lhs).get('name'), up, ev)
            if mid is None:
                continue
            probes = []
            for bid in body:
                b = fn.blocks[bid]
                for e in [ev.e for ev in b.events if ev.e is not None] + ([b.cond] if b.cond is not None else []):
                    for nd in walk(e):
                        if nd.get('op') == 'sub' and strip_casts(nd['k'][1]).get('op') == 'ref' and strip_casts(nd['k'][1]).get('name') == mid[0]:
                            probes.append(nd)
            if not probes:
                continue
            n += 1
            ctx.saw(fn, 1)
            strict = c['o'] == '<'
            # with lo < hi: rounding up gives lo < mid <= hi, rounding down gives lo <= mid < hi
            reach_hi = mid[1] or not strict
            bad = []
            for ev in fn.stores():
                lhs, rhs, o = ev.store_parts()
                l0 = strip_casts(lhs)
                if l0.get('op') != 'ref' or l0.get('name') != hi['name'] or rhs is None:
                    continue
                if ev.block.id in body:
                    continue          # hi = mid / mid - 1: never grows
                r0 = strip_casts(rhs)
                # initial upper bound: L (a length) or L - c
                if r0.get('op') == 'bin' and r0['o'] == '-' and (const_of(r0['k'][1]) or 0) >= 1:
                    continue
                if const_of(r0) is not None:
                    continue
                if reach_hi:
                    bad.append('%s starts at %s and the probe %s[%s] can reach it: element %s is one past the valid entries' % (hi['name'], show(r0)[:40], show(strip_casts(probes[0]['k'][0]))[:10], mid[0], show(r0)[:40]))
            ctx.ob('C10.20', not bad, fn.name, 'bisection over %s stays below its length' % show(strip_casts(probes[0]['k'][0]))[:20], '%s:%d' % (fn.file, hb.line),
                   'probe index is at most the initial upper bound, which is length - 1 (or the probe never reaches the upper bound)' if not bad else bad[0])
    ctx.floor('bisection loops', n, 1)


# --------------------------------------------------------------------------- C10.21

def r21(ctx, P):
    """appends into the fixed-size index / summary buffers of the time-series writer are bounded"""
    n = 0
    for fn in P.fns_in('src/wr_ts.c'):
        for b in fn.blocks.values():
            for ev in b.events:
                if ev.e is None:
                    continue
                for nd in walk(ev.e):
                    if nd.get('op') != 'sub':
                        continue
                    idx = strip_casts(nd['k'][1])
                    # entries[ X->...entry_count++ ]
                    if not (idx.get('op') == 'un' and idx.get('o') in ('post++', 'pre++') and strip_casts(idx['k'][0]).get('field') == 'entry_count'):
                        continue
                    base = strip_casts(nd['k'][0])
                    if base.get('op') != 'member' or base.get('field') != 'entries':
                        continue
                    cnt_path = fn.path(strip_casts(idx['k'][0]))
                    n += 1
                    ctx.saw(fn, 1)
                    se = fn.sub_event(nd['id']) or ev
                    # compare edges that establish  entry_count < capacity  for this very counter
                    ok_edges = set()
                    for bb in fn.blocks.values():
                        c = strip_casts(bb.cond) if bb.cond is not None else None
                        if c is None or c.get('op') != 'bin' or c['o'] not in ('<', '<=', '>', '>='):
                            continue
                        l, r = c['k']
                        for x, y, flip in ((l, r, False), (r, l, True)):
                            px = fn.path(strip_casts(x))
                            if px is None or cnt_path is None or str(px) != str(cnt_path):
                                continue
                            if not any(m.get('op') == 'member' and m.get('field') in ('decimate_factor',) for m in walk(y)):
                                continue
                            o = c['o']
                            if flip:
                                o = {'<': '>', '>': '<', '<=': '>=', '>=': '<='}[o]
                            if o == '<':
                                ok_edges.add((bb.id, 'T'))
                            if o == '>=':
                                ok_edges.add((bb.id, 'F'))
                    w = find_path(fn, 'entry', lambda e2, facts: 'target' if e2 is se else None, refine=False,
                                  edge_ok=lambda b_, s_, label: (b_.id, label) not in ok_edges)
                    ctx.ob('C10.21', w is None, fn.name, 'append to %s' % show(base)[:40], se.where(),
                           'entry_count compared with the allocated capacity (decimate_factor) first' if w is None else
                           'the entry is stored at entry_count without a bound: after a commit that failed (or with a decimation factor of 1) the count is already at the capacity and the store lands past the allocation',
                           w.render() if w else None)
    ctx.floor('appends to time-series index/summary buffers', n, 4)


def _countdown_loops(fn):
    """(cond block, counter name) of every loop `while (n)`, `while (n > 0)`, `while (n != 0)` whose counter is decremented."""
    out = []
    for b in fn.blocks.values():
        c = strip_casts(b.cond) if b.cond is not None else None
        if c is None:
            continue
        name = None
        if c.get('op') == 'ref':
            name = c.get('name')
        elif c.get('op') == 'bin' and c['o'] in ('>', '!=') and const_of(c['k'][1]) == 0 and strip_casts(c['k'][0]).get('op') == 'ref':
            name = strip_casts(c['k'][0]).get('name')
        if name is None:
            continue
        t = [s for s, l in b.succs if l == 'T']
        if not t:
            continue
        # a loop: the condition block is reachable from its own true edge
        seen, work = set(), [t[0]]
        while work:
            x = work.pop()
            if x.id in seen:
                continue
            seen.add(x.id)
            if x is b:
                continue
            work.extend(s for s, _ in x.succs)
        if b.id in seen:
            body = seen - {b.id}
            out.append((b, name, body))
    return out


def r22(ctx, P):
    """a walking pointer is stored through only while the count that bounds it is still positive"""
    n = 0
    for fn in P.all_functions():
        if not fn.file.startswith('src/'):
            continue
        for head, cnt, body in _countdown_loops(fn):
            # the loop exits (F edge) reach blocks outside: restrict the body to blocks that can reach the head again
            decs, walkers, stores = [], set(), []
            for bid in body:
                for ev in fn.blocks[bid].events:
                    if ev.k != 'store':
                        continue
                    lhs, rhs, o = ev.store_parts()
                    l0 = strip_casts(lhs)
                    if l0.get('op') == 'ref' and l0.get('name') == cnt and o in ('-=', 'pre--', 'post--'):
                        decs.append(ev)
                    if l0.get('op') == 'ref' and l0.get('t', '').startswith('p:') and not l0.get('t', '').startswith('p:c:') and o in ('+=', 'pre++', 'post++'):
                        walkers.add(l0.get('name'))
            if not decs or not walkers:
                continue
            for bid in body:
                for ev in fn.blocks[bid].events:
                    if ev.k != 'store':
                        continue
                    l0 = strip_casts(ev.store_parts()[0])
                    if l0.get('op') in ('un', 'sub') and (l0.get('op') == 'sub' or l0.get('o') == '*'):
                        names = {m.get('name') for m in walk(l0['k'][0]) if m.get('op') == 'ref'}
                        if names & walkers:
                            stores.append((ev, sorted(names & walkers)[0]))
            for ev, wname in stores:
                n += 1
                ctx.saw(fn, 1)
                w = None
                for d in decs:
                    w = find_path(fn, d, lambda e2, facts: 'target' if e2 is ev else None, refine=False,
                                  edge_ok=lambda b_, s_, label: s_ is not head and not (
                                      label in ('T', 'F') and b_.cond is not None and
                                      any(m.get('op') == 'ref' and m.get('name') == cnt for m in walk(b_.cond))))
                    if w is not None:
                        break
                ctx.ob('C10.22', w is None, fn.name, 'store through %s in the `%s` loop' % (wname, cnt), ev.where(),
                       'the loop test of %s lies between every decrement and this store' % cnt if w is None else
                       'the store is reached after %s was decremented without testing it again: when the count reaches 0 one more byte is written, past the extent the caller provided' % cnt,
                       w.render() if w else None)
    ctx.floor('stores through a walking pointer in count-down loops', n, 1)


def r23(ctx, P):
    """scratch buffers of the level-0 statistics are sized by the bound their fill is limited by"""
    n = 0
    for fn in P.all_functions():
        allocs = list(fn.calls('jls_core_f64_buf_alloc'))
        if not allocs:
            continue
        ctx.saw(fn)
        for al in allocs:
            cap = show(strip_casts(al.args[0]))
            tgt = strip_casts(al.args[1])
            field = None
            for m in walk(tgt):
                if m.get('op') == 'member':
                    field = m.get('field')
                    break
            if field is None:
                raise AnalysisBroken('%s: scratch buffer of jls_core_f64_buf_alloc not a field' % fn.name)

            def mentions(e):
                return any(m.get('op') == 'member' and m.get('field') == 'start' and
                           any(q.get('op') == 'member' and q.get('field') == field for q in walk(m['k'][0])) for m in walk(e or {}))
            # 1. handed to a filler with an explicit count
            for c in fn.calls():
                if c is al or c.callee in ('jls_core_f64_buf_alloc', 'jls_core_f64_buf_free'):
                    continue
                if not any(mentions(a) for a in c.args):
                    continue
                n += 1
                counts = [show(strip_casts(a)) for a in c.args if not mentions(a)]
                ok = cap in counts
                # or a local that is clamped to the capacity:  if (n > CAP) n = CAP;
                src_ok = True
                for a in c.args:
                    a0 = strip_casts(a)
                    if mentions(a) or a0.get('op') != 'ref' or a0.get('rk') != 'local':
                        continue
                    clamps = [e_ for e_ in fn.stores() if strip_casts(e_.store_parts()[0]).get('name') == a0['name'] and e_.store_parts()[1] is not None and
                              show(strip_casts(e_.store_parts()[1])) == cap and
                              any(fn.blocks[bid].cond is not None and strip_casts(fn.blocks[bid].cond).get('op') == 'bin' and strip_casts(fn.blocks[bid].cond)['o'] in ('>', '>=') and
                                  show(strip_casts(strip_casts(fn.blocks[bid].cond)['k'][0])) == a0['name'] and show(strip_casts(strip_casts(fn.blocks[bid].cond)['k'][1])) == cap and lab == 'T'
                                  for (bid, lab) in control_deps_transitive(fn, e_.block.id))]
                    if clamps and any(ev_dominates(cl, c) or find_path(fn, cl, lambda e2, facts: 'target' if e2 is c else None, refine=False) is not None for cl in clamps):
                        # every other definition must precede a clamp test: the local is compared with CAP on every path to the call
                        gb = {cl.block.id for cl in clamps}
                        tests = set()
                        for cl in clamps:
                            for (bid, lab) in control_deps_transitive(fn, cl.block.id):
                                tests.add(bid)
                        defs_ = [e_ for e_ in fn.events() if (e_.k == 'decl' and e_.name == a0['name']) or
                                 (e_.k == 'store' and strip_casts(e_.store_parts()[0]).get('name') == a0['name'] and e_ not in clamps)]
                        bypass = any(find_path(fn, d_, lambda e2, facts: 'target' if e2 is c else None, refine=False,
                                               edge_ok=lambda b_, s_, lab: b_.id not in tests) is not None for d_ in defs_)
                        if not bypass:
                            ok = True
                            counts = ['%s clamped to %s' % (a0['name'], cap)]
                ctx.ob('C10.23', ok, fn.name, '%s(%s->start, count)' % (c.callee, field), c.where(),
                       'filled with exactly the count it was allocated for (%s)' % cap if ok else
                       'the buffer was allocated for %s elements but the filler is given %s' % (cap, counts))
            # 2. appended to through a counter
            for ev in fn.stores():
                lhs, rhs, o = ev.store_parts()
                l0 = strip_casts(lhs)
                if l0.get('op') != 'sub' or not mentions(l0['k'][0]):
                    continue
                idx = strip_casts(l0['k'][1])
                if not (idx.get('op') == 'un' and idx.get('o') in ('post++', 'pre++') and strip_casts(idx['k'][0]).get('op') == 'ref'):
                    n += 1
                    ctx.ob('C10.23', False, fn.name, 'store into %s->start' % field, ev.where(), 'indexed store whose bound is not recognised: %s' % show(l0)[:60])
                    continue
                cnt = strip_casts(idx['k'][0]).get('name')
                n += 1
                # every counter X for which `X >= B` / `X == B` resets cnt (and X) to 0, with show(B) == cap
                why = 'no reset of %s under a compare with the allocated length %s' % (cnt, cap)
                ok = False
                for b in fn.blocks.values():
                    c = strip_casts(b.cond) if b.cond is not None else None
                    if c is None or c.get('op') != 'bin' or c['o'] not in ('>=', '=='):
                        continue
                    x = strip_casts(c['k'][0])
                    if x.get('op') != 'ref':
                        continue
                    bound = show(strip_casts(c['k'][1]))
                    resets = set()
                    for e2 in fn.stores():
                        l2, r2, o2 = e2.store_parts()
                        if strip_casts(l2).get('op') == 'ref' and o2 == '=' and const_of(r2 or {}) == 0 and \
                                (b.id, 'T') in control_deps_transitive(fn, e2.block.id):
                            resets.add(strip_casts(l2).get('name'))
                    if not ({cnt, x.get('name')} <= resets):
                        continue
                    # X is advanced at least as often as cnt: an increment of X dominates the append
                    xin = [e2 for e2 in fn.stores() if strip_casts(e2.store_parts()[0]).get('name') == x.get('name') and e2.store_parts()[2] in ('pre++', 'post++')]
                    if x.get('name') != cnt and not any(ev_dominates(e2, ev) for e2 in xin):
                        continue
                    # the test follows the append in the same iteration (so the count never exceeds the bound at the next append)
                    if bound != cap:
                        why = '%s is reset when %s reaches %s, but the buffer holds %s elements' % (cnt, x.get('name'), bound, cap)
                        continue
                    # only ++ and = 0 change the two counters
                    other = [e2 for e2 in fn.stores() if strip_casts(e2.store_parts()[0]).get('op') == 'ref' and strip_casts(e2.store_parts()[0]).get('name') in (cnt, x.get('name'))
                             and not (e2.store_parts()[2] in ('pre++', 'post++') or (e2.store_parts()[2] == '=' and const_of(e2.store_parts()[1] or {}) == 0))]
                    if other:
                        why = '%s / %s are also changed at %s' % (cnt, x.get('name'), other[0].where())
                        continue
                    ok = True
                    why = '%s <= %s < %s = allocated length at every append' % (cnt, x.get('name'), cap)
                    break
                ctx.ob('C10.23', ok, fn.name, 'append to %s->start[%s++]' % (field, cnt), ev.where(), why)
    ctx.floor('uses of the f64 scratch buffers', n, 3)


def r24(ctx, P):
    """the forward header scan of raw.c terminates and examines every aligned candidate"""
    from ..fd import trace_calls, Top
    fn = P.fn('jls_raw_chunk_scan')
    ctx.saw(fn, 1)
    hdr = P.record('jls_chunk_header_s')['size']
    bad = []
    total = 0
    grid = [(s, s + r) for s in (0, 8, 4, 4096) for r in (0, 8, 16, 24, 32, 40, 56, 4096 - 8, 4096, 4096 + 8, 4096 + 24, 4096 + 32, 2 * 4096 + 16, 10000)]
    for start, end in grid:
        seen = []

        def on_event(ev, env, sym, seen=seen):
            if ev.k == 'call' and ev.callee == 'jls_crc32c_hdr' and isinstance(env.get('offset'), int):
                seen.append(env['offset'])
        env = {'self': 1, 'hdr.crc32': 1, 'b.crc32': 1}
        try:
            trace_calls(P, fn, env, assume_calls={None: 0, 'jls_raw_chunk_tell': start, 'jls_bk_ftell': end}, max_steps=60000,
                        on_event=on_event, no_inline=('jls_raw_chunk_tell', 'invalidate_current_chunk'))
        except Top:
            bad.append('position %d, file size %d: the scan does not come to an end (or its skeleton is not decidable)' % (start, end))
            continue
        first = (start + 7) & ~7
        want = list(range(first, end - hdr + 1, 8))
        total += len(seen)
        if seen != want:
            missing = sorted(set(want) - set(seen))
            bad.append('position %d, file size %d: %s' % (start, end, ('offsets %s%s are never examined' % (missing[:4], ' ...' if len(missing) > 4 else ''))
                                                         if missing else 'candidates examined out of order or twice'))
    ctx.ob('C10.24', not bad, fn.name, 'forward scan ends and covers every aligned offset', fn.where(),
           '%d candidate offsets traced over %d (position, size) pairs; every trace ends' % (total, len(grid)) if not bad else
           '; '.join(bad[:2]) + ' (%d of %d pairs)' % (len(bad), len(grid)))
    ctx.floor('candidate offsets traced in the forward scan', total, 1000)


def r25(ctx, P):
    """a floating quotient that is converted to an integer has a divisor that was compared with zero"""
    ROUNDERS = ('round', 'floor', 'ceil', 'trunc', 'lround', 'llround', 'rint', 'nearbyint', '__builtin_round', '__builtin_floor', '__builtin_ceil')
    n = 0
    for fn in P.all_functions():
        if not fn.file.startswith('src/'):
            continue
        divs = []          # (event, division node)
        for ev in fn.events():
            for nd in walk(ev.e or {}):
                if nd.get('op') == 'bin' and nd['o'] in ('/', '/=') and nd.get('t', '').startswith('f'):
                    divs.append((ev, nd))
        if not divs:
            continue
        for dev, dnd in divs:
            # locals that carry the quotient
            carriers = set()
            if dev.k == 'decl':
                carriers.add(dev.name)
            elif dev.k == 'store':
                l0 = strip_casts(dev.store_parts()[0])
                if l0.get('op') == 'ref':
                    carriers.add(l0['name'])
            changed = True
            while changed:
                changed = False
                for ev in fn.events():
                    if ev.k not in ('decl', 'store') or ev.e is None:
                        continue
                    rhs = ev.e if ev.k == 'decl' else ev.store_parts()[1]
                    tgt = ev.name if ev.k == 'decl' else strip_casts(ev.store_parts()[0]).get('name')
                    if rhs is None or tgt is None or tgt in carriers:
                        continue
                    if any(m.get('op') == 'ref' and m.get('name') in carriers for m in walk(rhs)):
                        carriers.add(tgt)
                        changed = True
            # is the quotient (or a carrier) converted to an integer anywhere?
            conv = None
            for ev in fn.events():
                for nd in walk(ev.e or {}):
                    if nd.get('op') == 'cast' and nd.get('t', '')[:1] in ('i', 'u') and nd.get('t', '') not in ('',):
                        inner = nd['k'][0]
                        it = strip_casts(inner).get('t', '')
                        if not (it.startswith('f') or (strip_casts(inner).get('op') == 'call' and strip_casts(inner).get('callee') in ROUNDERS)):
                            continue
                        if any(m is dnd for m in walk(inner)) or any(m.get('op') == 'ref' and m.get('name') in carriers for m in walk(inner)):
                            conv = ev
            if conv is None:
                continue
            n += 1
            ctx.saw(fn, 1)
            divisor = strip_casts(dnd['k'][1])
            c = const_of(divisor)
            key = 'quotient %s converted to an integer' % show(dnd)[:40]
            if c is not None:
                ctx.ob('C10.25', c != 0, fn.name, key, dev.where(), 'constant divisor %s' % c)
                continue
            dtxt = show(divisor)
            # edges on which the divisor is known to differ from zero
            nz = set()
            for b in fn.blocks.values():
                cc = strip_casts(b.cond) if b.cond is not None else None
                if cc is None or len(b.succs) < 2:
                    continue
                neg = False
                while cc.get('op') == 'un' and cc.get('o') == '!':
                    neg = not neg
                    cc = strip_casts(cc['k'][0])
                if show(cc) == dtxt:
                    nz.add((b.id, 'F' if neg else 'T'))
                elif cc.get('op') == 'bin' and cc['o'] in ('<=', '<', '>', '>=', '==', '!='):
                    l, r = strip_casts(cc['k'][0]), strip_casts(cc['k'][1])
                    o = cc['o']
                    def num(e_):
                        if e_.get('op') == 'flit':
                            return e_.get('f')
                        return const_of(e_)
                    if show(r) == dtxt and num(l) is not None:
                        l, r = r, l
                        o = {'<': '>', '>': '<', '<=': '>=', '>=': '<=', '==': '==', '!=': '!='}[o]
                    if show(l) != dtxt or num(r) is None:
                        continue
                    k = num(r)
                    t_nonzero = (o == '>' and k >= 0) or (o == '>=' and k > 0) or (o == '<' and k <= 0) or (o == '<=' and k < 0) or (o == '!=' and k == 0)
                    f_nonzero = (o == '<=' and k >= 0) or (o == '<' and k > 0) or (o == '>=' and k <= 0) or (o == '>' and k < 0) or (o == '==' and k == 0)
                    if t_nonzero:
                        nz.add((b.id, 'F' if neg else 'T'))
                    if f_nonzero:
                        nz.add((b.id, 'T' if neg else 'F'))
            # from the definition of the divisor (a local) or the entry to the division
            start = 'entry'
            d0 = divisor
            if d0.get('op') == 'ref' and d0.get('rk') == 'local':
                defs = [e_ for e_ in fn.events() if (e_.k == 'decl' and e_.name == d0['name']) or
                        (e_.k == 'store' and strip_casts(e_.store_parts()[0]).get('name') == d0['name'])]
                if len(defs) == 1:
                    start = defs[0]
            w = find_path(fn, start, lambda e2, facts: 'target' if e2 is dev else None, refine=False,
                          edge_ok=lambda b_, s_, lab: (b_.id, lab) not in nz)
            if w is None and start != 'entry' and start is dev:
                w = None
            ctx.ob('C10.25', w is None, fn.name, key, dev.where(),
                   'the divisor %s is compared with zero on every path to the division' % dtxt if w is None else
                   'the divisor %s can be 0 (e.g. two neighbouring entries with the same value): the quotient is inf or NaN and its conversion to an integer is undefined behaviour - on x86 the caller receives INT64_MIN as a valid result' % dtxt,
                   w.render() if w else None)
    ctx.floor('floating quotients converted to integers', n, 1)


def r27(ctx, P):
    """allocation sizes keep their 64 bits: no product of run-time quantities is cut to 32 bits on its way to an allocator"""
    ALLOC = {'malloc': 0, 'calloc': None, 'realloc': 1, 'jls_buf_realloc': 1}
    n = 0
    for fn in P.all_functions():
        if not fn.file.startswith('src/'):
            continue
        for c in fn.calls(tuple(ALLOC)):
            idxs = [ALLOC[c.callee]] if ALLOC[c.callee] is not None else [0, 1]
            for i in idxs:
                if i >= len(c.args):
                    continue
                n += 1
                ctx.saw(fn, 1)
                bad = _narrowed_product(P, fn, c.args[i], c.block, c.idx, 0, set())
                ctx.ob('C10.27', bad is None, fn.name, 'size handed to %s()' % c.callee, c.where(),
                       'computed without a narrowed product' if bad is None else
                       'the size comes from %s: a count x element-size product that is cut to 32 bits wraps for large counts (a definition parameter near 2^28 and above), the block is far smaller than what is then stored into it' % bad)
    ctx.floor('allocation size arguments', n, 15)


def _narrowed_product(P, fn, e, block, idx, depth, seen):
    """text of a narrowing cast (to 32 bits) over a product of two non-constant operands that feeds e, else None"""
    if e is None or depth > 4:
        return None
    def is_product(x):
        for m in walk(x):
            if m.get('op') == 'bin' and m['o'] == '*' and const_of(m['k'][0]) is None and const_of(m['k'][1]) is None:
                return True
            if m.get('op') == 'bin' and m['o'] == '*' and (const_of(m['k'][0]) is None or const_of(m['k'][1]) is None):
                # count x sizeof: one side constant, the other a run-time count of at least 32 bits
                other = m['k'][0] if const_of(m['k'][0]) is None else m['k'][1]
                if strip_casts(other).get('t') in ('u32', 'i32', 'u64', 'i64'):
                    return True
        return False
    for m in walk(e):
        if m.get('op') == 'cast' and m.get('t') in ('u32', 'i32') and strip_casts(m['k'][0]).get('t') in ('u64', 'i64') and is_product(m['k'][0]):
            return '`%s`' % show(m)[:70]
    for m in walk(e):
        if m.get('op') == 'ref' and m.get('rk') == 'local' and (fn.name, m['name']) not in seen:
            seen.add((fn.name, m['name']))
            defs, _ = df.reaching_defs(fn, m['name'], block, idx)
            for d in defs:
                rhs = d.e if d.k == 'decl' else d.store_parts()[1]
                r = _narrowed_product(P, fn, rhs, d.block, d.idx, depth + 1, seen)
                if r:
                    return r
        if m.get('op') == 'call':
            g = P.functions.get(m.get('callee'))
            if g is not None and g.file == fn.file and g.static and g.name not in seen:
                seen.add(g.name)
                for rt in g.returns():
                    r = _narrowed_product(P, g, rt.e, rt.block, rt.idx, depth + 1, seen)
                    if r:
                        return r + ' in %s()' % g.name
    return None


def r28(ctx, P):
    """a local pointer into the core read buffer is not used across a call that can move the buffer"""
    # functions that can reallocate <core>.buf: reach jls_buf_realloc through the chunk read
    movers = set()
    for g in P.all_functions():
        if g.name in ('jls_core_rd_chunk',) or (g.file in ('src/core.c', 'src/reader.c', 'src/track.c') and
                                                'jls_core_rd_chunk' in P.reachable_from([g.name]) and g.name != 'jls_core_rd_chunk'):
            movers.add(g.name)
    movers.add('jls_core_rd_chunk')
    movers.add('reconstruct_omitted_chunk')
    movers.add('jls_buf_realloc')
    n = 0
    for fn in P.all_functions():
        if fn.file not in ('src/core.c', 'src/reader.c', 'src/track.c', 'src/copy.c'):
            continue
        # pointer locals taken from <x>.buf->start
        ptrs = {}
        for ev in fn.events():
            if ev.k not in ('decl', 'store') or ev.e is None:
                continue
            rhs = ev.e if ev.k == 'decl' else ev.store_parts()[1]
            name = ev.name if ev.k == 'decl' else (strip_casts(ev.store_parts()[0]).get('name') if strip_casts(ev.store_parts()[0]).get('op') == 'ref' else None)
            if rhs is None or name is None:
                continue
            if ev.k == 'store' and ev.store_parts()[2] != '=':
                continue
            src = [m for m in walk(rhs) if m.get('op') == 'member' and m.get('field') == 'start' and m.get('rec') == 'jls_buf_s']
            if not src:
                continue
            p = fn.path(src[0])
            if p is None or '.buf' not in tuple(p):
                continue          # rd_index / rd_summary have their own buffers, filled by copies
            ptrs.setdefault(name, []).append(ev)
        for name, defs in sorted(ptrs.items()):
            uses = []
            for ev in fn.events():
                if ev.e is None or ev in defs:
                    continue
                if ev.k == 'call' and ev.callee not in ('jls_buf_realloc',) and any(strip_casts(a).get('op') == 'ref' and strip_casts(a).get('name') == name for a in ev.args):
                    uses.append(ev)          # handed to a callee that reads or fills through it
                    continue
                for m in walk(ev.e):
                    if m.get('op') in ('member', 'sub', 'un') and m.get('op') != 'un' or (m.get('op') == 'un' and m.get('o') == '*'):
                        base = m['k'][0] if m.get('k') else None
                        b0 = strip_casts(base) if base is not None else None
                        if b0 is not None and b0.get('op') == 'ref' and b0.get('name') == name:
                            uses.append(ev)
                            break
            for b in fn.blocks.values():
                if b.cond is not None and any(m.get('op') in ('member', 'sub') and m.get('k') and strip_casts(m['k'][0]).get('op') == 'ref' and strip_casts(m['k'][0]).get('name') == name for m in walk(b.cond)):
                    pass          # conditions are checked through the events of their block's predecessors
            if not uses:
                continue
            n += 1
            ctx.saw(fn, 1)
            bad = None
            mv = [c for c in fn.calls() if c.callee in movers]
            for d in defs:
                for c in mv:
                    w1 = find_path(fn, d, lambda e2, facts: 'stop' if (e2 in defs and e2 is not d) else ('target' if e2 is c else None), refine=False)
                    if w1 is None:
                        continue
                    w2 = find_path(fn, c, lambda e2, facts: 'stop' if e2 in defs else ('target' if e2 in uses else None), refine=False)
                    if w2 is not None:
                        bad = (c, w2)
                        break
                if bad:
                    break
            ctx.ob('C10.28', bad is None, fn.name, 'pointer %s into the read buffer' % name, defs[0].where(),
                   'taken again after every call that can move the buffer' if bad is None else
                   '%s is taken from the read buffer, %s() can then reallocate that buffer (a chunk larger than the buffer), and %s is used afterwards without being taken again: a read through freed memory' % (name, bad[0].callee, name),
                   bad[1].render() if bad else None)
    ctx.floor('pointer locals into the core read buffer', n, 8)



def r29(ctx, P):
    """sample conversion reads no more samples from a chunk than the chunk holds"""
    n = 0
    for fn in P.all_functions():
        if fn.file not in ('src/reader.c', 'src/core.c'):
            continue
        for c in fn.calls('jls_dt_buffer_to_f64'):
            if len(c.args) < 4:
                continue
            # the source is the payload of the chunk in the read buffer:  &s->data[0]  with s a pointer local into buf->start
            srcs = [m for m in walk(c.args[0]) if m.get('op') == 'member' and m.get('field') == 'data']
            if not srcs:
                continue
            n += 1
            ctx.saw(fn, 1)
            cnt = strip_casts(c.args[3])
            texts = [show(cnt)]
            if cnt.get('op') == 'ref' and cnt.get('rk') == 'local':
                for e_ in fn.events():
                    if (e_.k == 'decl' and e_.name == cnt['name'] and e_.e is not None):
                        texts.append(show(e_.e))
                    elif e_.k == 'store' and strip_casts(e_.store_parts()[0]).get('name') == cnt['name'] and e_.store_parts()[1] is not None:
                        texts.append(show(e_.store_parts()[1]))
            ok = any('entry_count' in t_ for t_ in texts)
            ctx.ob('C10.29', ok, fn.name, 'samples converted from the chunk in the read buffer', c.where(),
                   'the count comes from the entry count of the chunk (%s)' % texts[-1][:40] if ok else
                   'the converter is told to read %s samples whatever the chunk holds: for a short chunk (the last block, or a block size above what the 1 MiB read buffer holds) it reads past the payload and past the buffer' % texts[0])
    ctx.floor('conversions of chunk payloads', n, 2)


def r17b(ctx, P):
    """realloc of an object whose own pointer fields point into its trailing array: they are set again from the new block"""
    n = 0
    for fn in P.all_functions():
        if not fn.file.startswith('src/'):
            continue
        for al in fn.calls('realloc'):
            a0 = strip_casts(al.args[0])
            t = a0.get('t', '')
            if a0.get('op') != 'ref' or not t.startswith('p:s:'):
                continue
            recname = t[4:]
            rec = P.record(recname) if recname in getattr(P, 'records', {recname: 1}) else None
            try:
                rec = P.record(recname)
            except Exception:
                continue
            # fields of this record that somewhere are pointed at the record's own array:  X->f = X->buffer (+ ...)
            selfp = set()
            for g in P.all_functions():
                for ev in g.stores():
                    lhs, rhs, o = ev.store_parts()
                    l0 = strip_casts(lhs)
                    if l0.get('op') == 'member' and l0.get('rec') == recname and rhs is not None and o == '=' and (l0.get('t') or '').startswith('p:'):
                        if any(m.get('op') == 'member' and m.get('rec') == recname and (m.get('t') or '').startswith('a') for m in walk(rhs)) or \
                                any(m.get('op') == 'member' and m.get('rec') == recname and m.get('field') in selfp for m in walk(rhs)):
                            selfp.add(l0['field'])
            if not selfp:
                continue
            n += 1
            ctx.saw(fn, 1)
            # the local that receives the result
            res = None
            for ev in al.block.events[al.idx + 1:]:
                if ev.k in ('decl', 'store') and ev.e is not None:
                    rhs = ev.e if ev.k == 'decl' else ev.store_parts()[1]
                    if rhs is not None and strip_casts(rhs).get('id') == al.e.get('id'):
                        res = ev.name if ev.k == 'decl' else strip_casts(ev.store_parts()[0]).get('name')
            missing = []
            for f_ in sorted(selfp):
                def on_event(e2, facts, f_=f_):
                    if e2.k == 'store':
                        l2 = strip_casts(e2.store_parts()[0])
                        r2 = e2.store_parts()[1]
                        if l2.get('op') == 'member' and l2.get('rec') == recname and l2.get('field') == f_ and r2 is not None:
                            # set from the new block: mentions the array of the result, not another self-pointer that may be stale
                            stale = [m for m in walk(r2) if m.get('op') == 'member' and m.get('rec') == recname and m.get('field') in selfp and m.get('field') in stale_fields]
                            if not stale:
                                stale_fields.discard(f_)
                                return 'stop'
                    if e2.k == 'ret' and (e2.e is None or const_of(e2.e) == 0):
                        return 'target'
                    return None
                stale_fields = set(selfp)
                w = find_path(fn, al, on_event, refine=False)
                if w is not None:
                    missing.append((f_, w))
            ctx.ob('C10.17', not missing, fn.name, 'realloc(%s) re-bases %s' % (show(a0), ', '.join(sorted(selfp))), al.where(),
                   'every pointer into the object is set from the new block on every success path' if not missing else
                   '%s still points into the old block on a success path (it is set only for a fresh object, or from another pointer that is itself stale): a use after free once realloc moves the block' % missing[0][0],
                   missing[0][1].render() if missing else None)
    ctx.note('C10.17: %d reallocations of objects with pointers into themselves' % n)


# --------------------------------------------------------------------------- C10.30

def r30(ctx, P, sess):
    """32-bit products over definition parameters stay below 2^32 for every accepted definition"""
    import re
    from ..export import macros
    mac = macros(sess.repo, 'core.c')
    v = mac.get('SIGNAL_DEF_PARAM_MAX')
    lim = None
    if v is not None:
        m = re.fullmatch(r'\(?\s*1U?\s*<<\s*(\d+)\s*\)?', v.strip())
        if m:
            lim = 1 << int(m.group(1))
        elif re.fullmatch(r'\(?\d+U?\)?', v.strip()):
            lim = int(v.strip('()U '))
    if lim is None:
        raise AnalysisBroken('SIGNAL_DEF_PARAM_MAX not a plain constant: %r' % v)
    # the validator compares the four parameters with it
    val = P.fn('jls_core_signal_def_validate')
    FIELDS = ('samples_per_data', 'sample_decimate_factor', 'entries_per_summary', 'summary_decimate_factor')
    cmp_fields = set()
    for b in val.blocks.values():
        c = strip_casts(b.cond) if b.cond is not None else None
        if c is not None and c.get('op') == 'bin' and c['o'] in ('>', '>=') and (strip_casts(c['k'][1]).get('m') == 'SIGNAL_DEF_PARAM_MAX' or c['k'][1].get('m') == 'SIGNAL_DEF_PARAM_MAX' or const_of(c['k'][1]) == lim):
            for nd in walk(c['k'][0]):
                if nd.get('op') == 'member' and nd.get('field') in FIELDS:
                    cmp_fields.add(nd['field'])
    M = 2 * lim
    if set(FIELDS) - cmp_fields:
        # another rule (C10.11 / C16) reports the missing bound; here the parameters are simply unbounded 32-bit values
        ctx.note('C10.30: the validator does not bound %s by SIGNAL_DEF_PARAM_MAX: evaluated with 2^32 - 1' % sorted(set(FIELDS) - cmp_fields))
        M = (1 << 32) - 1
    n = 0
    for fn in P.all_functions():
        if fn.file not in ('src/wr_fsr.c', 'src/core.c', 'src/writer.c', 'src/reader.c'):
            continue

        def ub(e, depth=0):
            """(upper bound, involves a definition parameter) or None"""
            if e is None or depth > 12:
                return None
            e0 = e
            while e0.get('op') == 'paren':
                e0 = e0['k'][0]
            c = const_of(e0)
            if c is not None and e0.get('op') in ('lit', 'sizeof', 'ref', 'un', 'bin', 'cast'):
                if isinstance(c, int) and c >= 0:
                    return (c, False)
            op = e0.get('op')
            if op == 'cast':
                r = ub(e0['k'][0], depth + 1)
                if r is None:
                    return None
                t = e0.get('t') or ''
                bits = int(t[1:]) if t[:1] in 'ui' and t[1:].isdigit() else None
                return (min(r[0], (1 << bits) - 1) if bits and not e0.get('impl') else r[0], r[1])
            if op == 'member':
                if e0.get('field') in FIELDS:
                    return (M, True)
                if e0.get('field') in ('entry_size_bits',):
                    return (256, False)
                return None
            if op == 'call':
                if e0.get('callee') in ('jls_datatype_parse_size', 'sample_size_bits'):
                    return (64, False)
                return None
            if op == 'ref' and e0.get('rk') == 'local':
                ds = [ev for ev in fn.events() if ev.k == 'decl' and ev.name == e0['name'] and ev.e is not None]
                st = [ev for ev in fn.stores() if ev.k == 'store' and strip_casts(ev.store_parts()[0]).get('name') == e0['name']]
                if len(ds) == 1 and not st:
                    return ub(ds[0].e, depth + 1)
                return None
            if op == 'bin':
                a, b = ub(e0['k'][0], depth + 1), ub(e0['k'][1], depth + 1)
                o = e0['o']
                if o == '/' and a is not None:
                    return a
                if o == '%' and b is not None:
                    return (max(b[0] - 1, 0), b[1])
                if a is None or b is None:
                    return None
                if o == '+':
                    return (a[0] + b[0], a[1] or b[1])
                if o == '*':
                    return (a[0] * b[0], a[1] or b[1])
                if o == '-':
                    return a
                if o == '>>':
                    return a
            return None
        for b in fn.blocks.values():
            for ev in b.events:
                e = getattr(ev, 'e', None)
                if e is None:
                    continue
                for nd in walk(e):
                    if nd.get('op') == 'bin' and nd['o'] == '*' and (nd.get('t') or '') in ('u32', 'i32'):
                        r = ub(nd)
                        if r is None or not r[1]:
                            continue
                        n += 1
                        ctx.saw(fn, 1)
                        ctx.ob('C10.30', r[0] < (1 << 32), fn.name, '32-bit product %s' % show(nd)[:50], ev.where(),
                               'at most %d (parameters up to %d, 64-bit samples)' % (r[0], M) if r[0] < (1 << 32) else
                               'the product can reach %d >= 2^32 for a definition the validator accepts (parameters up to %d after alignment): the size wraps, the buffer is far smaller than the block, and the first samples written overflow it' % (r[0], M))
    ctx.floor('32-bit products over definition parameters', n, 2)


# --------------------------------------------------------------------------- C10.32

def r32(ctx, P):
    """bits_copy stays inside the destination bytes that hold requested bits"""
    from ..fd import trace_calls, FD, Top
    fn = P.functions.get('bits_copy')
    if fn is None:
        raise AnalysisBroken('bits_copy not found')
    ctx.saw(fn, 1)
    fd = FD(P)
    dst, dbit, src, sbit, nb = [p_['name'] for p_ in fn.params[:5]]
    DST, SRC = 0x100000, 0x200000
    bad = []
    n = 0
    for db in range(0, 16):
        for sb in range(0, 16):
            for bits in (1, 2, 3, 4, 7, 8, 9, 12, 15, 16, 17, 31, 32, 33, 40):
                writes = []

                def on_store(ev, env, sym, writes=writes):
                    lhs, rhs, o = ev.store_parts()
                    l0 = strip_casts(lhs)
                    try:
                        if l0.get('op') == 'un' and l0.get('o') == '*':
                            a = fd.ev(fn, l0['k'][0], env)
                            writes.append((a, a + 1))
                        elif l0.get('op') == 'sub':
                            a = fd.ev(fn, l0['k'][0], env) + fd.ev(fn, l0['k'][1], env)
                            writes.append((a, a + 1))
                    except (Top, ZeroDivisionError, KeyError):
                        writes.append((None, None))
                try:
                    calls = trace_calls(P, fn, {dst: DST, dbit: db, src: SRC, sbit: sb, nb: bits}, on_store=on_store, max_steps=5000)
                except Top:
                    raise AnalysisBroken('bits_copy not decidable for dst_bit %d src_bit %d nbits %d' % (db, sb, bits))
                for cal, a, ev in calls:
                    if cal in ('memcpy', '__builtin_memcpy', '__builtin___memcpy_chk') and len(a) >= 3:
                        if isinstance(a[0], int) and isinstance(a[2], int):
                            writes.append((a[0], a[0] + a[2]))
                        else:
                            writes.append((None, None))
                n += 1
                lo, hi = DST + db // 8, DST + (db + bits + 7) // 8
                for a, b in writes:
                    if a is None:
                        bad.append('dst_bit %d, src_bit %d, %d bits: a store at an address that is not decidable' % (db, sb, bits))
                        break
                    if DST <= a < DST + 0x10000 and (a < lo or b > hi):
                        bad.append('dst_bit %d, src_bit %d, %d bits: bytes [%d, %d) of the destination are written, the request covers [%d, %d)' % (db, sb, bits, a - DST, b - DST, lo - DST, hi - DST))
                        break
    ctx.ob('C10.32', not bad, fn.name, 'destination bytes written by the bit copy', fn.where(),
           '%d (dst_bit, src_bit, nbits) combinations traced: every write lies inside the requested bytes' % n if not bad else
           '; '.join(bad[:2]) + ' (%d of %d combinations): jls_rd_fsr writes past a caller buffer that is sized exactly as documented' % (len(bad), n))
    ctx.floor('bit copy traces', n, 1000)
