"""C19 — repair converges and a good file is never modified by reading (structural clauses)."""
from ..export import AnalysisBroken
from ..ir import strip_casts, const_of, walk, show, kids
from ..graph import find_path, ret_class, ev_dominates, control_deps_transitive, block_dominates
from .common import compare_info, exceptions
from .. import df

EXPL = ('Read-only by construction: mode "r" maps to O_RDONLY, every reader/copy open passes the literal "r" except the one on the '
        'not-closed branch, the "r" arm never enables writing; guarded reachability of the write primitive from reader roots (only '
        'through jls_rd_open\'s repair branch or through close paths whose buffers only writer/repair code allocates); a repair ends '
        'with END + close + read-only reopen so that a second open takes the closed-file branch.')
NOT_DECIDED = 'Equality of results between the repairing open and later opens.'


def run(ctx, sess):
    ctx.explanation = EXPL
    ctx.not_decided = NOT_DECIDED
    ctx.rule('C19.6', 'what a later open derives from the file is not pre-computed differently by the repairing open: the cached signal length is stored only by the length walk (and reset by the track constructor), and the writer-side sample id offset of a track is read only by the FSR writer module (readers and repair use the offset of the signal definition)')
    ctx.rule('C19.5', 'a repaired file is a well-formed closed file: END is appended at the end of the file (shared with C03.j)')
    from .common import relay
    from . import c03 as _src_c03
    relay(ctx, sess, _src_c03.run, {'C03.j': 'C19.5'})
    ctx.rule('C19.7', 'one open repairs the file completely: the repair sequence of jls_rd_open - truncate, rewrite the last chunk, pointer repair, rebuild, END, close, reopen - runs unconditionally and in order on the not-closed branch (shared with C03.b), so the second open finds a closed file and changes nothing')
    relay(ctx, sess, _src_c03.run, {'C03.b': 'C19.7'}, minimum=10)
    ctx.rule('C19.9', 'a closed file is recognised as closed: the backward scan for the last chunk examines every 8-byte aligned offset (shared with C03.k), so the END chunk is found wherever it lies and the repair branch - which writes - is not taken for a good file')
    relay(ctx, sess, _src_c03.run, {'C03.k': 'C19.9'}, minimum=1)
    ctx.rule('C19.8', 'what repair rewrites in place is what both opens read: a chunk header that repair rewrites (jls_core_update_chunk_header) is a copy of the chunk just read from the file; a copy of state the reader cached before the repair (a list head, a definition) is rewritten only if that cached state is updated as well')
    rewrite_source_rule(ctx, sess.prog('default'))
    ownership_rule(ctx, sess.prog('default'))
    P = sess.prog('default')
    ctx.rule('C19.1', 'read-only by construction: "r" -> O_RDONLY; reader and copy open with "r" except on the not-closed branch; the "r" arm of jls_raw_open does not enable writing')
    ctx.rule('C19.2', 'guarded reachability: from reader API roots the write primitive is reachable only through jls_rd_open or through close paths guarded by buffers that only writer/repair code allocates')
    ctx.rule('C19.4', 'what pointer repair changes in memory is persisted: from every store to a track head offset in jls_track_repair_pointers every success path passes jls_track_wr_head')
    ctx.rule('C19.3', 'repair ends closed: END, close and read-only reopen lie on every path from the not-closed branch to the published instance; that branch tests the tag found by the backward scan')
    fo = P.fn('jls_bk_fopen')
    ctx.saw(fo)
    # ---- C19.1 oflag per mode
    sw = [b for b in fo.blocks.values() if b.term and b.term.get('kind') == 'SwitchStmt']
    if not sw:
        raise AnalysisBroken('jls_bk_fopen: mode switch not found')
    flags = {}
    for s, label in sw[0].succs:
        if isinstance(label, tuple) and label[0] == 'case':
            for ev in s.events:
                if ev.k == 'store' and strip_casts(ev.store_parts()[0]).get('name') == 'oflag':
                    for ch in label[1]:
                        flags[chr(ch)] = (const_of(ev.store_parts()[1]), ev)
    O_RDONLY, O_ACC = 0, 3
    r = flags.get('r')
    ctx.ob('C19.1', r is not None and (r[0] & O_ACC) == O_RDONLY and (r[0] & (0o100 | 0o1000)) == 0, fo.name, 'mode r opens O_RDONLY without O_CREAT/O_TRUNC',
           r[1].where() if r else fo.where(), 'oflag = %s' % (oct(r[0]) if r and r[0] is not None else None))
    # the flag passed to open() is that variable
    for c in fo.calls('open'):
        a = strip_casts(c.args[1])
        ctx.ob('C19.1', a.get('op') == 'ref' and a.get('name') == 'oflag', fo.name, 'open() receives the per-mode flag', c.where(), show(a))
    # raw open: 'r' arm does not set write_en
    ro = P.fn('jls_raw_open')
    ctx.saw(ro)
    sw2 = [b for b in ro.blocks.values() if b.term and b.term.get('kind') == 'SwitchStmt']
    if not sw2:
        raise AnalysisBroken('jls_raw_open: mode switch not found')
    for s, label in sw2[0].succs:
        if isinstance(label, tuple) and label[0] == 'case' and ord('r') in label[1]:
            w = find_path(ro, (sw2[0], [i for i, (s2, l2) in enumerate(sw2[0].succs) if l2 == label][0]),
                          lambda e2, facts: 'target' if (e2.k == 'store' and strip_casts(e2.store_parts()[0]).get('field') == 'write_en' and const_of(e2.store_parts()[1]) != 0) else None)
            ctx.ob('C19.1', w is None, ro.name, 'mode r never sets write_en', '%s:%d' % (ro.file, s.line), 'read-only instance' if w is None else 'write enabled on a read-only open', w.render() if w else None)
    # close writes the file header only when write_en
    rc = P.fn('jls_raw_close')
    for c in rc.calls('wr_file_header'):
        guarded = any(any(nd.get('op') == 'member' and nd.get('field') == 'write_en' for nd in walk(rc.blocks[bid].cond or {})) and label == 'T'
                      for (bid, label) in control_deps_transitive(rc, c.block.id))
        ctx.ob('C19.1', guarded, rc.name, 'close rewrites the file header only when write_en', c.where(), '')
    # the literal modes used by reader.c and copy.c
    rd_open = P.fn('jls_rd_open')
    END = P.enum_consts['JLS_TAG_END']
    n = 0
    for fn in P.fns_in('src/reader.c') + P.fns_in('src/copy.c'):
        for c in fn.calls('jls_raw_open'):
            n += 1
            ctx.saw(fn, 1)
            m = strip_casts(c.args[2]).get('s')
            if m == 'r':
                ctx.ob('C19.1', True, fn.name, 'jls_raw_open(.., "r")', c.where(), 'read-only')
                continue
            # allowed only on the not-closed branch
            on_branch = False
            for (bid, label) in control_deps_transitive(fn, c.block.id):
                ci = compare_info(fn.blocks[bid].cond)
                if ci is not None:
                    l, r_, eq_label = ci
                    for x, y in ((l, r_), (r_, l)):
                        px = fn.path(strip_casts(x))
                        if px is not None and px.last_field() == 'tag' and const_of(y) == END and label != eq_label:
                            on_branch = True
            # ... or where the file header was found incomplete: a flag that holds `jls_raw_open(...) == JLS_ERROR_TRUNCATED`
            TRUNC = P.enum_consts.get('JLS_ERROR_TRUNCATED')
            on_trunc = False
            for (bid, label) in control_deps_transitive(fn, c.block.id):
                cc = strip_casts(fn.blocks[bid].cond) if fn.blocks[bid].cond is not None else None
                if cc is not None and cc.get('op') == 'ref' and cc.get('rk') == 'local' and label == 'T':
                    defs_ = [e_ for e_ in fn.events() if (e_.k == 'decl' and e_.name == cc['name'] and e_.e is not None) or
                             (e_.k == 'store' and strip_casts(e_.store_parts()[0]).get('name') == cc['name'])]
                    if defs_ and all(any(m_.get('op') == 'bin' and m_['o'] == '==' and TRUNC in (const_of(m_['k'][0]), const_of(m_['k'][1]))
                                         for m_ in walk((e_.e if e_.k == 'decl' else e_.store_parts()[1]) or {})) for e_ in defs_):
                        on_trunc = True
            ok_ = on_branch or on_trunc
            ctx.ob('C19.1', ok_, fn.name, 'jls_raw_open(.., "%s")' % m, c.where(),
                   ('only on the `tag != END` (not properly closed) branch' if on_branch else 'only where the file header was found without its length (the open returned TRUNCATED)') if ok_ else
                   'a reader opens the file writable although it may be properly closed')
    ctx.floor('raw opens in reader.c / copy.c', n, 4)
    # ---- C19.2
    roots = sorted(f.name for f in P.all_functions() if f.api and f.name.startswith('jls_rd_'))
    ctx.floor('reader API roots', len(roots), 12)
    allocators = ('jls_core_fsr_sample_buffer_alloc', 'jls_core_fsr_summary_level_alloc')
    for a in allocators:
        P.fn(a)
    bad = []
    for r0 in roots:
        if r0 == 'jls_rd_open':
            continue
        reach = P.reachable_from([r0])
        if 'jls_bk_fwrite' not in reach:
            continue
        # reachable: only acceptable through jls_fsr_close (guarded flush of buffers)
        reach2 = P.reachable_from([r0], stop=('jls_fsr_close', 'wr_file_header'))   # both guarded, see the obligations below / C19.1
        if 'jls_bk_fwrite' in reach2:
            ps = P.call_paths(r0, 'jls_bk_fwrite', 1)
            bad.append('%s: %s' % (r0, ' -> '.join(ps[0]) if ps else '?'))
    ctx.ob('C19.2', not bad, 'reader roots', 'write primitive unreachable except through jls_rd_open / guarded close', 'src/reader.c',
           '%d roots checked' % len(roots) if not bad else '; '.join(bad[:2]))
    # the guard: in jls_fsr_close, calls that can write are control dependent on the buffers being allocated
    fc = P.fn('jls_fsr_close')
    ctx.saw(fc)
    for c in fc.calls():
        if c.callee and 'jls_bk_fwrite' in P.reachable_from([c.callee]):
            guarded = False
            for (bid, label) in control_deps_transitive(fc, c.block.id):
                e = fc.blocks[bid].cond
                if e is not None and any(nd.get('op') == 'member' and nd.get('field') in ('data', 'level') for nd in walk(e)) and label == 'T':
                    guarded = True
            # or, inside the callee, every writing call is control dependent on a NULL test of a level buffer
            if not guarded:
                g = P.functions.get(c.callee)
                if g is not None:
                    wcalls = [e2 for e2 in g.calls() if e2.callee and 'jls_bk_fwrite' in P.reachable_from([e2.callee])]
                    lvl_locals = set(ev.name for ev in g.events('decl') if ev.e is not None and any(nd.get('op') == 'member' and nd.get('field') == 'level' for nd in walk(ev.e)))
                    ok_all = bool(wcalls)
                    for e2 in wcalls:
                        okc = False
                        for (bid, label) in control_deps_transitive(g, e2.block.id):
                            from ..graph import cond_facts
                            for (var, kind, cv) in cond_facts(g, g.blocks[bid].cond, label):
                                if var in lvl_locals and kind == 'ne' and cv == 0:
                                    okc = True
                        ok_all = ok_all and okc
                    guarded = ok_all
            ctx.ob('C19.2', guarded, fc.name, '%s() runs only when its buffer exists' % c.callee, c.where(),
                   'guarded by the data/level buffer' if guarded else 'a writing call in the close path is not guarded by a writer-only buffer')
    # allocators reachable from reader roots only via repair
    for a in allocators:
        offenders = []
        for r0 in roots:
            if r0 == 'jls_rd_open':
                continue
            if a in P.reachable_from([r0], stop=('jls_fsr_close',)):
                offenders.append(r0)
        ctx.ob('C19.2', not offenders, a, 'writer buffers are allocated only by writer / repair code', P.fn(a).where(),
               'not reachable from reader roots other than jls_rd_open' if not offenders else 'reachable from %s' % offenders[:3])
    via_open = [a for a in allocators if a in P.reachable_from(['jls_rd_open'], stop=('jls_core_repair_fsr', 'jls_fsr_close'))]
    ctx.ob('C19.2', not via_open, 'jls_rd_open', 'jls_rd_open allocates writer buffers only inside jls_core_repair_fsr', rd_open.where(), 'others: %s' % via_open)
    # repair releases them again
    rf = P.fn('jls_core_repair_fsr')
    closes = list(rf.calls('jls_fsr_close'))
    w = find_path(rf, 'entry', lambda e2, facts: 'stop' if (e2.k == 'call' and e2.callee == 'jls_fsr_close') else
                  ('target' if e2.k == 'ret' and ret_class(rf, e2, facts) in ('zero',) else None)) if closes else 'no close'
    ctx.ob('C19.2', w is None, rf.name, 'repair closes the temporary writer track before returning success', rf.where(),
           'closed on every success path' if w is None else 'a repaired track stays open for writing in the reader', w.render() if (w and not isinstance(w, str)) else None)
    # ---- C19.4
    rp = P.fn('jls_track_repair_pointers')
    ctx.saw(rp)
    n4 = 0
    for ev in rp.stores():
        l0 = strip_casts(ev.store_parts()[0])
        p_ = rp.path(l0)
        if p_ is None or '.head_offsets' not in tuple(p_):
            continue
        n4 += 1
        w = find_path(rp, ev, lambda e2, facts: 'stop' if (e2.k == 'call' and e2.callee == 'jls_track_wr_head') else
                      ('target' if e2.k == 'ret' and ret_class(rp, e2, facts) in ('zero', 'unknown') else None))
        ctx.ob('C19.4', w is None, rp.name, 'head table change `%s` is written back' % show(ev.e)[:50], ev.where(),
               'jls_track_wr_head on every success path' if w is None else
               'the repaired head table can stay in memory only: the repairing open uses it, later opens read the stale table from disk and return different results',
               w.render() if w else None)
    ctx.floor('head table stores in pointer repair', n4, 2)
    # ---- C19.3 (shares the sequence with C03.b)
    from .c03 import rb
    class Sub:
        def __init__(self, ctx):
            self.ctx = ctx
        def __getattr__(self, k):
            return getattr(self.ctx, k)
        def ob(self, rid, ok, fn, construct, where='', detail='', witness=None):
            keep = ('write END', 'close the repaired file', 'reopen read-only', 'not-closed test', 'precedes close', 'precedes reopen', 'write END precedes')
            if any(k in construct for k in keep):
                return self.ctx.ob('C19.3', ok, fn, construct, where, detail, witness)
            return ok
    rb(Sub(ctx), P)


def ownership_rule(ctx, P):
    n = 0
    for fn in P.all_functions():
        for ev in fn.stores():
            lhs, rhs, o = ev.store_parts()
            l0 = strip_casts(lhs)
            tgt = None
            if l0.get('op') == 'member' and l0.get('field') == 'signal_length' and l0.get('rec') == 'jls_core_fsr_s':
                tgt = l0
            elif l0.get('op') == 'un' and l0.get('o') == '*':
                r_ = df.resolve_local(fn, l0['k'][0], ev.block, ev.idx)
                if r_ is not None and any(nd.get('op') == 'member' and nd.get('field') == 'signal_length' and nd.get('rec') == 'jls_core_fsr_s' for nd in walk(r_)):
                    tgt = r_
            if tgt is None:
                continue
            n += 1
            ctx.saw(fn, 1)
            ok = fn.name in ('jls_fsr_open', 'jls_core_fsr_length')
            ctx.ob('C19.6', ok, fn.name, 'store to the cached signal length', ev.where(),
                   'the length walk / the constructor' if ok else
                   'the signal length cache is filled outside jls_core_fsr_length: the open that stores it and a later open that walks the file can disagree')
        for b in fn.blocks.values():
            for e in [ev.e for ev in b.events if ev.e is not None] + ([b.cond] if b.cond is not None else []):
                for nd in walk(e):
                    if nd.get('op') == 'member' and nd.get('field') == 'sample_id_offset' and nd.get('rec') == 'jls_core_fsr_s':
                        n += 1
                        ok = fn.file == 'src/wr_fsr.c'
                        ctx.ob('C19.6', ok, fn.name, 'use of the writer-side sample_id_offset', '%s:%d' % (fn.file, nd.get('ln', b.line)),
                               'FSR writer module' if ok else
                               'jls_core_fsr_s.sample_id_offset is only set by the FSR writer on its first sample; in a reader or in repair it is 0, the offset of the signal is signal_def.sample_id_offset')
    ctx.floor('uses of the length cache and the writer-side offset', n, 4)



def rewrite_source_rule(ctx, P):
    from ..ir import strip_casts, walk, show
    from ..graph import find_path
    reach = P.reachable_from(['jls_rd_open'])
    n = 0
    for fn in P.all_functions():
        if fn.name not in reach and fn.name != 'jls_rd_open':
            continue
        for c in fn.calls('jls_core_update_chunk_header'):
            a = strip_casts(c.args[1]) if len(c.args) > 1 else None
            if a is None or a.get('op') != 'un' or a.get('o') != '&' or strip_casts(a['k'][0]).get('op') != 'ref':
                continue
            X = strip_casts(a['k'][0])['name']
            n += 1
            ctx.saw(fn, 1)
            # where the struct comes from (whole-object copies, followed through local copies)
            def sources(name, seen):
                out = set()
                if name in seen:
                    return out
                seen.add(name)
                for ev in fn.events():
                    if ev.k == 'decl' and ev.name == name and ev.e is not None:
                        rhs = ev.e
                    elif ev.k == 'store' and strip_casts(ev.store_parts()[0]).get('op') == 'ref' and strip_casts(ev.store_parts()[0]).get('name') == name and ev.store_parts()[2] == '=':
                        rhs = ev.store_parts()[1]
                    else:
                        continue
                    r0 = strip_casts(rhs) if rhs is not None else None
                    if r0 is None:
                        continue
                    if r0.get('op') == 'ref' and r0.get('rk') == 'local':
                        out |= sources(r0['name'], seen)
                    elif r0.get('op') == 'member':
                        out.add((r0.get('field'), show(r0)))
                    elif r0.get('op') == 'un' and r0.get('o') == '*':
                        out.add(('param object', show(r0)))
                    else:
                        out.add(('fresh', ''))
                return out
            src = sources(X, set())
            cached = sorted(s_ for s_ in src if s_[0] not in ('chunk_cur', 'fresh'))
            bad = None
            for field, text in cached:
                # the cached object must be stored again after the rewrite on every path to the exit
                def on_ev(e2, facts, text=text):
                    if e2.k == 'store':
                        l0 = show(strip_casts(e2.store_parts()[0]))
                        alt = text[1:] if text.startswith('*') else None      # *p  is also reached as  p->field
                        if l0 == text or l0.startswith(text + '.') or l0.startswith(text + '->') or (alt and l0.startswith(alt + '->')):
                            return 'stop'
                    if e2.k == 'ret':
                        # an error return: the open fails, there is no second view of the file to compare with
                        return 'target' if ret_class(fn, e2, facts) in ('zero', 'unknown') else 'stop'
                    return None
                # `if (X.offset == p->offset)`: on the other edge X is not the cached object, nothing has to be refreshed
                def same_object_edge(b_, s_, lab, text=text):
                    c_ = strip_casts(b_.cond) if b_.cond is not None else None
                    if c_ is None or c_.get('op') != 'bin' or c_['o'] not in ('==', '!='):
                        return True
                    sides = [show(strip_casts(k_)) for k_ in c_['k']]
                    alt = text[1:] if text.startswith('*') else text
                    if ('%s.offset' % X) in sides and any(x_ in (alt + '->offset', text + '.offset', '(' + text + ').offset') for x_ in sides):
                        return lab == ('T' if c_['o'] == '==' else 'F')
                    return True
                w = find_path(fn, c, on_ev, edge_ok=same_object_edge)
                if w is not None:
                    bad = (text, w)
                    break
            ctx.ob('C19.8', bad is None, fn.name, 'in-place rewrite of the header copy %s' % X, c.where(),
                   'copy of the chunk just read%s' % ('' if not cached else ' (cached state updated as well)') if bad is None else
                   '%s can be a copy of %s, which the reader cached before the repair: the file is changed but the cached copy is not, so the repairing open and the next open see different chains' % (X, bad[0]),
                   bad[1].render() if bad else None)
    ctx.floor('in-place header rewrites reachable from jls_rd_open', n, 2)
