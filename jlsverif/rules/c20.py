"""C20 — statistics accumulators (narrow): aliasing, empty-operand identity, no division by zero."""
from ..export import AnalysisBroken
from ..ir import strip_casts, const_of, walk, show, kids
from ..graph import find_path, ret_class, ev_dominates, control_deps_transitive, cond_facts
from ..guard import var_of

EXPL = ('Three shape clauses of C20: "the result may overwrite either operand" -> in jls_statistics_combine no operand field is read after the '
        'same field of the target was stored; "combining with an empty accumulator is the identity" -> the empty arms do nothing but '
        'copy the other operand / reset, and copy transfers every field; no division whose divisor can be zero in the accumulator code.')
NOT_DECIDED = 'Every numerical identity (count/min/max exactness, mean/variance agreement up to rounding, non-negative variance).'
REC = 'jls_statistics_s'


def loads_of(fn, e, var, field):
    for nd in walk(e):
        if nd.get('op') == 'member' and nd.get('rec') == REC and nd.get('field') == field and var_of(fn, nd['k'][0]) == var:
            yield nd


def run(ctx, sess):
    ctx.explanation = EXPL
    ctx.not_decided = NOT_DECIDED
    P = sess.prog('default')
    ctx.rule('C20.1', 'alias safety: after tgt->F is stored, a->F and b->F are not read again on any path (tgt may be a or b)')
    ctx.rule('C20.2', 'empty operands: the arms for k == 0 only copy the other operand or reset the target; copy transfers every field; reset yields the empty accumulator')
    ctx.rule('C20.4', 'min <= mean <= max needs both extremes set by the first sample: where minimum and maximum start at +/-MAX sentinels, the update of one is not control dependent on the compare with the other (no else-if chain)')
    ctx.rule('C20.5', 'variance is never negative: every value stored as the sum of squared deviations is, by sign analysis of its expression, a sum of squares, counts and non-negative terms (the Welford increment is accepted by a named lemma); no subtraction that could cancel below zero')
    ctx.rule('C20.6', 'whole-array results agree with incremental ones beyond single precision: the accumulating arithmetic of statistics.c (sums, residuals, squares) is carried out in double - no +, - or * of type float feeds an accumulator')
    ctx.rule('C20.7', 'min <= mean <= max survives rounding: a mean that is computed as sum / count or as a weighted sum of two means (the rounded result can leave the interval by an ulp, e.g. seven samples of 0.1) is compared with the minimum and the maximum and pulled back before it is stored; the incremental form mean + (x - mean) / k needs no clamp (for k = 1 it is exact from the reset state, for k >= 2 the step is at most half the distance)')
    ctx.rule('C20.3', 'no division by a count that can be zero')
    f = P.fn('jls_statistics_combine')
    ctx.saw(f)
    tgt, a, b = [p['name'] for p in f.params]
    fields = [fl['name'] for fl in P.record(REC)['fields']]
    n = 0
    for ev in f.stores():
        lhs, rhs, o = ev.store_parts()
        l0 = strip_casts(lhs)
        if l0.get('op') != 'member' or l0.get('rec') != REC or var_of(f, l0['k'][0]) != tgt:
            continue
        n += 1
        F = l0['field']

        def on_event(e2, facts, F=F, ev=ev):
            if e2 is ev or e2.e is None:
                return None
            for v in (a, b):
                if any(True for _ in loads_of(f, e2.e, v, F)):
                    return 'target'
            return None
        w = find_path(f, ev, on_event, on_block_end=lambda bl, facts, F=F: 'target' if (bl.cond is not None and any(any(True for _ in loads_of(f, bl.cond, v, F)) for v in (a, b))) else None)
        ctx.ob('C20.1', w is None, f.name, 'no read of a->%s / b->%s after tgt->%s is stored' % (F, F, F), ev.where(),
               'operand field never read after the target field was written' if w is None else
               'when the target aliases an operand, %s is read after it was overwritten' % F, w.render() if w else None)
    ctx.floor('stores to the target in jls_statistics_combine', n, 5)
    # a call that writes the target (copy/reset) must not be followed by operand reads either
    for c in f.calls(('jls_statistics_copy', 'jls_statistics_reset')):
        w = find_path(f, c, lambda e2, facts: 'target' if (e2.e is not None and e2 is not c and any(nd.get('op') == 'member' and nd.get('rec') == REC and var_of(f, nd['k'][0]) in (a, b) for nd in walk(e2.e))) else None)
        ctx.ob('C20.1', w is None, f.name, 'no operand read after %s(tgt, ..)' % c.callee, c.where(), 'ok' if w is None else 'operand read after the target was overwritten by %s' % c.callee)
    # ---- C20.2
    arms = {}
    for bl in f.blocks.values():
        for label in ('T', 'F'):
            for (var, kind, cv) in cond_facts(f, bl.cond, label):
                if kind == 'eq' and cv == 0 and (var in ('%s.k' % a, '%s.k' % b, 'kt')):
                    arms[var] = (bl, label)
    want = {'kt': ('jls_statistics_reset', None), '%s.k' % a: ('jls_statistics_copy', b), '%s.k' % b: ('jls_statistics_copy', a)}
    for var, (callee, src) in want.items():
        if var not in arms:
            ctx.ob('C20.2', False, f.name, 'arm for %s == 0' % var, f.where(), 'arm not found')
            continue
        bl, label = arms[var]
        si = [i for i, (s, l2) in enumerate(bl.succs) if l2 == label][0]
        seen = []

        def on_event(e2, facts):
            if e2.k in ('call', 'store'):
                seen.append(e2)
            return None
        # walk the arm until the join: events on the arm edge until exit
        find_path(f, (bl, si), on_event, refine=True)
        arm_events = [e2 for e2 in seen if e2.k in ('call', 'store')]
        ok = len(arm_events) == 1 and arm_events[0].k == 'call' and arm_events[0].callee == callee and \
            var_of(f, arm_events[0].args[0]) == tgt and (src is None or var_of(f, arm_events[0].args[1]) == src)
        ctx.ob('C20.2', ok, f.name, 'arm %s == 0 is %s(tgt%s)' % (var, callee, ', ' + src if src else ''), '%s:%d' % (f.file, bl.line),
               'identity arm' if ok else 'the empty-operand arm does %s' % [show(e2.e)[:40] for e2 in arm_events])
    cp = P.fn('jls_statistics_copy')
    ctx.saw(cp)
    copied = set()
    for ev in cp.stores():
        lhs, rhs, o = ev.store_parts()
        l0, r0 = strip_casts(lhs), strip_casts(rhs) if rhs is not None else None
        if l0.get('op') == 'member' and r0 is not None and r0.get('op') == 'member' and l0['field'] == r0['field'] and \
                var_of(cp, l0['k'][0]) == cp.params[0]['name'] and var_of(cp, r0['k'][0]) == cp.params[1]['name']:
            copied.add(l0['field'])
    ctx.ob('C20.2', copied == set(fields), cp.name, 'copy transfers every field', cp.where(), 'copied %s of %s' % (sorted(copied), sorted(fields)))
    rs = P.fn('jls_statistics_reset')
    vals = {}
    for ev in rs.stores():
        lhs, rhs, o = ev.store_parts()
        l0 = strip_casts(lhs)
        if l0.get('op') == 'member':
            r0 = strip_casts(rhs)
            vals[l0['field']] = const_of(r0) if const_of(r0) is not None else (r0.get('fc') if 'fc' in r0 else (r0.get('f') if r0.get('op') == 'flit' else show(r0)))
    ok = vals.get('k') == 0 and vals.get('mean') in (0, 0.0) and vals.get('s') in (0, 0.0) and isinstance(vals.get('min'), float) and vals['min'] > 1e300 \
        and isinstance(vals.get('max'), float) and vals['max'] < -1e300
    ctx.ob('C20.2', ok, rs.name, 'reset yields k=0, mean=0, s=0, min=+DBL_MAX, max=-DBL_MAX', rs.where(), str(vals))
    # ---- C20.3
    nd_ = 0
    for g in P.fns_in('src/statistics.c'):
        ctx.saw(g)
        for bl in g.blocks.values():
            items = [(ev.e, ev) for ev in bl.events if ev.e is not None]
            for e, ev in items:
                for nd in walk(e):
                    if nd.get('op') == 'bin' and nd['o'] in ('/', '/='):
                        d = strip_casts(nd['k'][1])
                        while d.get('op') == 'cast':
                            d = strip_casts(d['k'][0])
                        if d.get('op') == 'bin' and d['o'] == '-' and const_of(d['k'][1]) == 1:
                            base, need = strip_casts(d['k'][0]), 2       # k - 1 : needs k >= 2
                        else:
                            base, need = d, 1
                        v = var_of(g, base)
                        if const_of(d) is not None:
                            continue
                        nd_ += 1
                        # guards: control dependent on the F edge of (v <= need-1) / (v == 0), or dominated by ++v, or v = a->k + b->k with kt != 0 arm
                        ok = False
                        how = ''
                        for (bid, label) in control_deps_transitive(g, ev.block.id):
                            c = strip_casts(g.blocks[bid].cond) if g.blocks[bid].cond else None
                            if c is None:
                                continue
                            if c.get('op') == 'bin' and c['o'] in ('<=', '<', '==') and var_of(g, c['k'][0]) == v and const_of(c['k'][1]) is not None and label == 'F':
                                cv = const_of(c['k'][1])
                                lim = cv if c['o'] == '<=' else (cv - 1 if c['o'] == '<' else (0 if cv == 0 else None))
                                if lim is not None and lim >= need - 1:
                                    ok, how = True, 'under !(%s)' % show(c)
                        if not ok:
                            incs = [s for s in g.stores() if s.store_parts()[1] is None and '++' in s.store_parts()[2] and var_of(g, s.store_parts()[0]) == v and ev_dominates(s, ev)]
                            if incs and need == 1:
                                ok, how = True, 'after ++%s' % v
                        ctx.ob('C20.3', ok, g.name, 'divisor %s' % show(d), ev.where(), how if ok else 'the divisor can be zero (empty accumulator / zero length)')
    ctx.floor('divisions by a count in statistics.c', nd_, 4)
    extremes_rule(ctx, P, 'C20.4', ('src/statistics.c', 'src/reader.c', 'src/wr_fsr.c'))
    variance_sign_rule(ctx, P, 'C20.5')
    double_arithmetic_rule(ctx, P, 'C20.6')
    mean_bounds_rule(ctx, P, 'C20.7')


def _fconst(e):
    e = strip_casts(e)
    if e is None:
        return None
    if 'f' in e and e.get('op') == 'flit':
        return e['f']
    if 'fc' in e:
        return e['fc']
    return None


def extremes_rule(ctx, P, rule, files=('src/statistics.c',)):
    """minimum and maximum start at sentinels, so the first sample has to set both: the update of one extreme
    must not depend on the outcome of the compare with the other one (no `else if` chain), and every loop path
    that takes a sample compares it with both"""
    n = 0
    for fn in P.all_functions():
        if fn.file not in files:
            continue
        mins, maxs = set(), set()
        for d in fn.events('decl'):
            v = _fconst(d.e) if d.e is not None else None
            if isinstance(v, (int, float)) and v >= 1e30:
                mins.add(d.name)
            if isinstance(v, (int, float)) and v <= -1e30:
                maxs.add(d.name)
        if not mins or not maxs:
            continue
        n += 1
        ctx.saw(fn, 1)
        # the sentinel is the identity for the type the accumulator has: a double accumulator that starts at +/-FLT_MAX
        # keeps the start value for data beyond the float range
        small = [d for d in fn.events('decl') if d.name in (mins | maxs) and (d.t or '') == 'f64' and d.e is not None and
                 isinstance(_fconst(d.e), (int, float)) and abs(_fconst(d.e)) < 1e308]
        ctx.ob(rule, not small, fn.name, 'start values cover the accumulator type', (small[0] if small else fn).where(),
               'every sentinel is the largest value of its type' if not small else
               'the double accumulator %s starts at %s: double data that lies entirely beyond the float range leaves it there, and the reported extreme is not a sample' % (small[0].name, _fconst(small[0].e)))
        bad = []
        for ev in fn.stores():
            if ev.k != 'store':
                continue
            lhs, rhs, o = ev.store_parts()
            l0 = strip_casts(lhs)
            if l0.get('op') != 'ref' or l0.get('name') not in (mins | maxs):
                continue
            other = maxs if l0['name'] in mins else mins
            for (bid, label) in control_deps_transitive(fn, ev.block.id):
                c = fn.blocks[bid].cond
                if c is not None and any(x.get('op') == 'ref' and x.get('name') in other for x in walk(c)):
                    bad.append('%s is updated only when the compare %s went %s' % (l0['name'], show(c)[:40], 'true' if label == 'T' else 'false'))
        ctx.ob(rule, not bad, fn.name, 'min/max updates are independent (sentinels %s / %s)' % (sorted(mins), sorted(maxs)), fn.where(),
               'each extreme is compared on its own' if not bad else bad[0] + ': with sentinel start values a single sample (or a monotone run) leaves the other extreme at its sentinel')
    ctx.floor('functions tracking min/max from sentinels', n, 2)


def _flatten(e, op):
    e = strip_casts(e)
    if e.get('op') == 'bin' and e['o'] == op:
        return _flatten(e['k'][0], op) + _flatten(e['k'][1], op)
    return [e]

def nonneg(fn, e, block, idx, depth=0, why=None):
    from .. import df
    e = strip_casts(e)
    if e is None or depth > 8:
        return False
    c = const_of(e)
    if c is not None:
        return c >= 0
    if 'f' in e and e.get('op') == 'flit':
        return e['f'] >= 0
    op = e.get('op')
    if op == 'member':
        return e.get('field') in ('s', 'k') and e.get('rec') == 'jls_statistics_s' or (e.get('t') or '').startswith('u')
    if op == 'call':
        return (e.get('callee') or '') in ('fabs', 'sqrt', '__builtin_fabs', '__builtin_sqrt')
    if op == 'ref':
        if (e.get('t') or '').startswith('u'):
            return True
        if e.get('rk') != 'local':
            return False
        defs, entry = df.reaching_defs(fn, e['name'], block, idx)
        if not defs or entry:
            return False
        for d in defs:
            lhs, rhs, o = d.store_parts()
            if rhs is None or o not in ('=', '+=', '*=', '/='):
                return False
            if not nonneg(fn, rhs, d.block, d.idx, depth + 1, why):
                return False
        return True
    if op == 'bin' and e['o'] == '+':
        return all(nonneg(fn, k, block, idx, depth + 1, why) for k in _flatten(e, '+'))
    if op == 'bin' and e['o'] == '/':
        return nonneg(fn, e['k'][0], block, idx, depth + 1, why) and nonneg(fn, e['k'][1], block, idx, depth + 1, why)
    if op == 'bin' and e['o'] == '*':
        fs = _flatten(e, '*')
        texts = [show(f_) for f_ in fs]
        rest = []
        used = [False] * len(fs)
        for i in range(len(fs)):
            if used[i]:
                continue
            for j in range(i + 1, len(fs)):
                if not used[j] and texts[i] == texts[j]:
                    used[i] = used[j] = True
                    break
            if not used[i]:
                rest.append(fs[i])
        if all(nonneg(fn, f_, block, idx, depth + 1, why) for f_ in rest):
            return True
        # lemma W (Welford): (x - m_old) * (x - m_new) with m_new = m_old + (x - m_old) / k, k >= 1: both factors have the same sign
        if len(fs) == 2 and all(f_.get('op') == 'bin' and f_['o'] == '-' for f_ in fs):
            x1, a1 = show(strip_casts(fs[0]['k'][0])), strip_casts(fs[0]['k'][1])
            x2, a2 = show(strip_casts(fs[1]['k'][0])), strip_casts(fs[1]['k'][1])
            if x1 == x2 and a1.get('op') == 'ref' and a2.get('op') == 'ref':
                d2 = df.resolve_local(fn, a2, block, idx)
                d1 = df.resolve_local(fn, a1, block, idx)
                t2 = show(d2) if d2 is not None else ''
                t1 = show(d1) if d1 is not None else ''
                if t1 and t1 in t2 and '/' in t2 and x1 in t2:
                    if why is not None:
                        why.add('W')
                    return True
        return False
    if op == 'cond':
        ks = kids(e)
        return len(ks) == 3 and nonneg(fn, ks[1], block, idx, depth + 1, why) and nonneg(fn, ks[2], block, idx, depth + 1, why)
    return False



def variance_sign_rule(ctx, P, rule):
    """sign analysis: the value stored as the sum of squared deviations is a sum / product of squares and non-negative
    quantities - never the result of a subtraction (which can cancel below zero)"""
    n = 0
    lemmas = set()
    for fn in P.fns_in('src/statistics.c'):
        for ev in fn.stores():
            lhs, rhs, o = ev.store_parts()
            l0 = strip_casts(lhs)
            if l0.get('op') != 'member' or l0.get('field') != 's' or l0.get('rec') != 'jls_statistics_s' or rhs is None:
                continue
            r0 = strip_casts(rhs)
            if r0.get('fc') == 'nan' or r0.get('m') == 'NAN' or (r0.get('op') == 'member' and r0.get('field') == 's'):
                continue          # reset to NaN / plain copy of another accumulator's value
            n += 1
            ctx.saw(fn, 1)
            ok = o in ('=', '+=') and nonneg(fn, rhs, ev.block, ev.idx, 0, lemmas)
            ctx.ob(rule, ok, fn.name, 'sum of squared deviations %s %s' % (o, show(rhs)[:40]), ev.where(),
                   'built from squares, counts and non-negative terms only' if ok else
                   'the stored value is not a sum of squares and non-negative terms (a difference of large terms can cancel below zero: negative variance)')
    if lemmas:
        ctx.note('%s lemma used: W (Welford increment (x - m_old) * (x - m_new) >= 0)' % rule)
    ctx.floor('stores to the sum of squared deviations', n, 3)



def variance_locals_rule(ctx, P, rule, files=('src/wr_fsr.c',)):
    """the writer's reductions build their variances from squared deviations as well"""
    n = 0
    for fn in P.all_functions():
        if fn.file not in files:
            continue
        for ev in fn.stores():
            lhs, rhs, o = ev.store_parts()
            l0 = strip_casts(lhs)
            if l0.get('op') != 'ref' or 'var' not in (l0.get('name') or '').lower() or not (l0.get('t') or '').startswith('f') or rhs is None:
                continue
            r0 = strip_casts(rhs)
            if r0.get('fc') == 'nan' or r0.get('m') == 'NAN' or 'nan' in show(r0).lower():
                continue
            n += 1
            ctx.saw(fn, 1)
            ok = o in ('=', '+=', '/=', '*=') and nonneg(fn, rhs, ev.block, ev.idx, 0, None)
            ctx.ob(rule, ok, fn.name, 'variance %s %s %s' % (l0['name'], o, show(rhs)[:40]), ev.where(),
                   'built from squares, counts and non-negative terms only' if ok else
                   'the variance is formed as a difference (mean of squares minus square of the mean): for data whose mean is large against its spread the two terms cancel and the stored std is noise (or 0 after clamping)')
    ctx.floor('variance accumulations in the writer', n, 4)



def double_arithmetic_rule(ctx, P, rule):
    n = 0
    for fn in P.fns_in('src/statistics.c'):
        acc = 0
        bad = []
        for ev in fn.events():
            if ev.k not in ('store', 'decl') or ev.e is None:
                continue
            for m in walk(ev.e):
                if m.get('op') == 'bin' and m['o'] in ('+', '-', '*', '+=', '-=', '*=') and (m.get('t') or '').startswith('f'):
                    acc += 1
                    if m.get('t') == 'f32' or m.get('ct') == 'f32':
                        bad.append((ev, show(m)[:50]))
        if not acc:
            continue
        n += 1
        ctx.saw(fn, 1)
        ctx.ob(rule, not bad, fn.name, 'floating arithmetic is double', bad[0][0].where() if bad else fn.where(),
               '%d operations, all of type double' % acc if not bad else
               '`%s` is evaluated in single precision: the rounding error of the float operand enters every term of the sum (n x e^2 in the sum of squares), so the result for the whole array differs from adding the samples one at a time by far more than rounding' % bad[0][1])
    ctx.floor('functions of statistics.c with floating arithmetic', n, 3)


def mean_bounds_rule(ctx, P, rule):
    from ..graph import control_deps_transitive
    n = 0
    for fn in P.fns_in('src/statistics.c'):
        for ev in fn.stores():
            lhs, rhs, o = ev.store_parts()
            l0 = strip_casts(lhs)
            if ev.k != 'store' or l0.get('op') != 'member' or l0.get('field') != 'mean' or rhs is None:
                continue
            r0 = strip_casts(rhs)
            if r0.get('op') in ('member', 'lit', 'flit') or const_of(r0) is not None or (r0.get('fc') == 'nan' or r0.get('m') == 'NAN'):
                continue            # a copy, a constant, the invalid marker
            if r0.get('op') != 'ref' or r0.get('rk') != 'local':
                ctx.ob(rule, False, fn.name, 'mean stored from %s' % show(r0)[:40], ev.where(), 'the stored mean is not a local that could have been clamped')
                n += 1
                continue
            V = r0['name']
            defs = [d for d in fn.events() if (d.k == 'decl' and d.name == V and d.e is not None) or (d.k == 'store' and strip_casts(d.store_parts()[0]).get('name') == V)]
            # incremental form: old mean + (x - old mean) / k
            def incremental(e):
                e = strip_casts(e)
                if e.get('op') != 'bin' or e['o'] != '+':
                    return False
                a, b = strip_casts(e['k'][0]), strip_casts(e['k'][1])
                for m_, q_ in ((a, b), (b, a)):
                    if m_.get('op') == 'member' and m_.get('field') == 'mean' and q_.get('op') == 'bin' and q_['o'] == '/':
                        num = strip_casts(q_['k'][0])
                        if num.get('op') == 'bin' and num['o'] == '-' and show(strip_casts(num['k'][1])) == show(m_):
                            return True
                return False
            if defs and all(incremental(d.e if d.k == 'decl' else d.store_parts()[1]) for d in defs if (d.e if d.k == 'decl' else d.store_parts()[1]) is not None and d.store_parts()[2] == '='):
                if all(d.store_parts()[2] == '=' for d in defs):
                    n += 1
                    ctx.ob(rule, True, fn.name, 'mean stored from %s' % V, ev.where(), 'incremental update mean + (x - mean) / k')
                    continue
            # what is stored as the extremes in this function
            ext = {}
            for s2 in fn.stores():
                l2 = strip_casts(s2.store_parts()[0])
                if s2.k == 'store' and l2.get('op') == 'member' and l2.get('field') in ('min', 'max') and s2.store_parts()[1] is not None:
                    ext.setdefault(l2['field'], set()).add(show(strip_casts(s2.store_parts()[1])))
            clamps = {'min': False, 'max': False}
            for s2 in fn.stores():
                l2 = strip_casts(s2.store_parts()[0])
                if s2.k != 'store' or l2.get('op') != 'ref' or l2.get('name') != V or s2.store_parts()[2] != '=' or s2.store_parts()[1] is None:
                    continue
                val = show(strip_casts(s2.store_parts()[1]))
                for (bid, label) in control_deps_transitive(fn, s2.block.id):
                    c = strip_casts(fn.blocks[bid].cond) if fn.blocks[bid].cond is not None else None
                    if c is None or c.get('op') != 'bin' or c['o'] not in ('<', '>', '<=', '>=') or label != 'T':
                        continue
                    a, b = show(strip_casts(c['k'][0])), show(strip_casts(c['k'][1]))
                    for which, lo in (('min', True), ('max', False)):
                        below = (a == V and b == val and c['o'] in ('<', '<=')) or (b == V and a == val and c['o'] in ('>', '>='))
                        above = (a == V and b == val and c['o'] in ('>', '>=')) or (b == V and a == val and c['o'] in ('<', '<='))
                        if (lo and below or (not lo) and above) and (val in ext.get(which, ()) or True):
                            # the bound is what the function stores as that extreme (or the expression it stores)
                            if val in ext.get(which, set()) or any(val == x for x in ext.get(which, set())):
                                clamps[which] = True
            n += 1
            ok = clamps['min'] and clamps['max']
            ctx.ob(rule, ok, fn.name, 'mean stored from %s' % V, ev.where(),
                   'compared with the minimum and the maximum and pulled back before it is stored' if ok else
                   'the mean is %s and stored as computed: rounding can leave it an ulp outside [min, max] (seven samples of 0.1 give 0.099999999999999992 from the whole-array function and 0.10000000000000002 from a combine), so min <= mean <= max does not hold%s' % (
                       'a quotient or weighted sum', '' if not (clamps['min'] or clamps['max']) else ' on the %s side' % ('max' if clamps['min'] else 'min')))
    ctx.floor('computed means', n, 3)
