"""C04 — corrupted bytes are detected.

Decides (DESIGN §4 C04): every byte the reader accepts from disk passed a CRC
compare over the extent the writer signed, and a failed compare reaches the
caller as an error.  Does NOT decide the detection strength of the polynomial.
"""
from ..export import AnalysisBroken
from ..ir import strip_casts, const_of, walk, show, is_call, kids, path_of
from ..graph import find_path, ret_class, cond_facts, ev_dominates
from .. import df
from .common import (failed_output_use, READ_OUTPUTS, propagation, nonzero_starts, compare_info, gate_obligations, call_arg_path, consumed, exceptions, READ_CHAIN)

EXPL = ('Rule instances over the read path of raw.c/core.c and the CRC units: header/payload/file-header CRC gates '
        '(must-pass-through on the event CFG with same-variable branch refinement), who-may-call jls_bk_fread with a '
        'per-caller obligation, writer/reader extent agreement for every CRC call, error consumption on the read chain.')
NOT_DECIDED = 'CRC detection strength (3 bits / 32-bit burst) is a property of the polynomial (see C18); value equality of returned data.'


def _is_hdr_ptr(e, rec):
    e = strip_casts(e)
    t = e.get('t', '')
    return t == 'p:s:' + rec or (e.get('op') == 'un' and e['o'] == '&' and strip_casts(e['k'][0]).get('t') == 's:' + rec)


def _crc_compare_blocks(fn, crc_callee, obj_path, other_pred):
    """Blocks whose condition compares (value derived from crc_callee(obj...))
    with (value satisfying other_pred).  Yields (block, eq_label)."""
    out = []
    for b in fn.blocks.values():
        ci = compare_info(b.cond)
        if ci is None:
            continue
        l, r, eq_label = ci

        def from_crc(n):
            if n.get('op') == 'call' and n.get('callee') == crc_callee:
                a = kids(n)
                if a:
                    p = fn.path(a[0])
                    return p is not None and obj_path is not None and (tuple(p) == tuple(obj_path))
            return False
        pos = df.cond_pos(b)
        for x, y in ((l, r), (r, l)):
            if df.derives(fn, x, from_crc, *pos) and other_pred(fn, y, b):
                out.append((b, eq_label))
                break
    return out


def run(ctx, sess):
    ctx.explanation = EXPL
    ctx.not_decided = NOT_DECIDED
    P = sess.prog('default')
    exc = exceptions('C04')

    ctx.rule('C04.1', 'chunk-header gate: fread into a chunk header reaches a zero return only through the equal edge of '
                      'crc32c_hdr(header) == header.crc32; the unequal edge reaches only non-zero returns')
    ctx.rule('C04.2', 'payload gate: fread of a payload reaches a zero return only through the equal edge of '
                      'crc32c(payload, L) == the last four bytes read (little-endian); unequal edge -> non-zero returns')
    ctx.rule('C04.3', 'file-header gate: CRC, identification and version checks all lie on every path to a zero return')
    ctx.rule('C04.4', 'who-may-call jls_bk_fread: every caller is a gated reader (C04.1-3) or a scanner whose bytes flow only '
                      'into the header-CRC compare and whose success re-reads through the gated path; libc read only in jls_bk_fread')
    ctx.rule('C04.5', 'extent agreement: writer and reader pass the same extent to the CRC (file header: offsetof(crc32); '
                      'payload: the header\'s payload_length for the same buffer that is written/read; header variant: 28 bytes)')
    ctx.rule('C04.7', 'failed read is not consumed: with the result of a read-chain call non-zero, no load of the call\'s output objects (header, payload buffer, core chunk state) is reachable before another read refills them')
    ctx.rule('C04.8', 'buffer freshness: payload bytes in the core read buffer are consumed only after a checked chunk read (or reconstruction) succeeded on that very path; no reader reuses the buffer across calls')
    ctx.rule('C04.9', 'cache validity: when a read goes straight into state that outlives the call (the cached chunk header of the raw reader), every failing exit after that read marks the state invalid (tag = INVALID); and a field that short-cuts a reader when it is >= 0 (the cached signal length) is never left set by a call that goes on to fail')
    ctx.rule('C04.10', 'opening does not swallow a failed read: in jls_rd_open and the scan functions it calls, with the result of a read-chain call non-zero (other than a listed benign code: TRUNCATED from jls_raw_open, EMPTY while looking for the heads) no path reaches another read-chain call or a zero return')
    ctx.rule('C04.6', 'error consumption on the read chain: no result of a read-chain function is discarded')

    fread_sites = P.callers().get('jls_bk_fread', [])
    ctx.saw(call_sites=len(fread_sites))
    if not fread_sites:
        raise AnalysisBroken('no call of jls_bk_fread found')
    classified = {}

    hdr_off_crc = P.field_offset('jls_chunk_header_s', 'crc32')
    fh_off_crc = P.field_offset('jls_file_header_s', 'crc32')

    for fn, ev in fread_sites:
        ctx.saw(fn)
        args = ev.args
        if len(args) < 3:
            raise AnalysisBroken('jls_bk_fread call with %d args' % len(args))
        dst = args[1]
        dpath = fn.path(dst)
        key = 'jls_bk_fread(%s)' % show(strip_casts(dst))
        # ---- C04.1: destination is a chunk header object
        if _is_hdr_ptr(dst, 'jls_chunk_header_s'):
            classified[(fn.name, ev.ln)] = 'C04.1'
            def is_crc_field(fn_, y, b, dpath=dpath):
                y = strip_casts(y)
                p = fn_.path(y)
                return p is not None and p.last_field() == 'crc32' and tuple(p[:-1]) == tuple(dpath)
            cmps = _crc_compare_blocks(fn, 'jls_crc32c_hdr', dpath, is_crc_field)
            if not cmps:
                ctx.ob('C04.1', False, fn.name, key, ev.where(),
                       'no compare of jls_crc32c_hdr(%s) with %s.crc32 found after the read' % (str(dpath), str(dpath)))
                continue
            ok, detail, wit = gate_obligations(fn, ev, cmps)
            ctx.ob('C04.1', ok, fn.name, key, ev.where(), detail, wit)
            continue
        # ---- C04.3: destination is the file header
        if _is_hdr_ptr(dst, 'jls_file_header_s'):
            classified[(fn.name, ev.ln)] = 'C04.3'
            def is_crc_field(fn_, y, b, dpath=dpath):
                p = fn_.path(strip_casts(y))
                return p is not None and p.last_field() == 'crc32' and tuple(p[:-1]) == tuple(dpath)
            cmps = _crc_compare_blocks(fn, 'jls_crc32c', dpath, is_crc_field)
            if not cmps:
                ctx.ob('C04.3', False, fn.name, 'crc gate', ev.where(), 'no jls_crc32c(file header) vs crc32 compare')
            else:
                ok, detail, wit = gate_obligations(fn, ev, cmps)
                ctx.ob('C04.3', ok, fn.name, 'crc gate', ev.where(), detail, wit)
            # identification: memcmp(.., hdr->identification, ..) tested; non-zero edge -> error
            idg = []
            verg = []
            for b in fn.blocks.values():
                if b.cond is None:
                    continue
                c = b.cond
                has_memcmp = [n for n in walk(c) if n.get('op') == 'call' and n.get('callee') in ('memcmp', '__builtin_memcmp')
                              and any((fn.path(a) or ('', ''))[-1:] == ('.identification',) for a in kids(n))]
                if has_memcmp:
                    facts = cond_facts(fn, c, 'T')
                    ci = compare_info(c)
                    if ci is not None:
                        l, r, eq_label = ci
                        other = r if strip_casts(l).get('op') == 'call' else l
                        if const_of(other) == 0:
                            idg.append((b, eq_label))
                    else:
                        # if (memcmp(...)) -> pass edge is F
                        e = strip_casts(c)
                        neg = False
                        while e.get('op') == 'un' and e['o'] == '!':
                            neg = not neg
                            e = strip_casts(e['k'][0])
                        idg.append((b, 'T' if neg else 'F'))
                # version: compare of hdr->version...major with a constant using >
                e = strip_casts(c)
                if e.get('op') == 'bin' and e['o'] in ('>', '>=', '<', '<='):
                    l, r = e['k']
                    for x, y, flip in ((l, r, False), (r, l, True)):
                        p = fn.path(strip_casts(x))
                        if p is not None and '.version' in p and p.last_field() == 'major' and const_of(y) is not None \
                                and tuple(p[:2 + len(dpath) - 2]) == tuple(dpath):
                            o = e['o']
                            if flip:
                                o = {'>': '<', '<': '>', '>=': '<=', '<=': '>='}[o]
                            if o in ('>', '>='):
                                verg.append((b, 'F'))   # pass edge: not greater
            for name, gs in (('identification gate', idg), ('version gate', verg)):
                if not gs:
                    ctx.ob('C04.3', False, fn.name, name, ev.where(), 'gate not found on the path after reading the file header')
                else:
                    ok, detail, wit = gate_obligations(fn, ev, gs[:1])
                    ctx.ob('C04.3', ok, fn.name, name, ev.where(), detail, wit)
            continue
        # ---- payload or scanner: destination is a byte buffer
        # payload gate: a compare with jls_crc32c(<same buffer>, L)
        def is_footer(fn_, y, b, dpath=dpath, szarg=args[2]):
            # value derived from subscripts of the same buffer
            def pred(n):
                if n.get('op') == 'sub':
                    p = fn_.path(n)
                    return p is not None and dpath is not None and p.root == dpath.root
                return False
            return df.derives(fn_, y, pred, *df.cond_pos(b))
        cmps = _crc_compare_blocks(fn, 'jls_crc32c', dpath, is_footer)
        if cmps:
            classified[(fn.name, ev.ln)] = 'C04.2'
            ok, detail, wit = gate_obligations(fn, ev, cmps)
            ctx.ob('C04.2', ok, fn.name, key, ev.where(), detail, wit)
            # footer bytes: indices size-4..size-1 with shifts 0,8,16,24
            ok2, detail2 = _footer_le(fn, cmps[0][0], dpath, args[2])
            ctx.ob('C04.2', ok2, fn.name, 'footer = last 4 bytes of the extent read, little-endian', ev.where(), detail2)
            continue
        # scanner obligation
        ok, detail = _scanner(P, fn, ev, dpath)
        classified[(fn.name, ev.ln)] = 'scanner' if ok else 'unclassified'
        ctx.ob('C04.4', ok, fn.name, key, ev.where(), detail)

    # libc read only in jls_bk_fread
    for name in ('read', 'pread', 'fread', 'readv', 'mmap'):
        for fn, ev in P.callers().get(name, []):
            ctx.ob('C04.4', fn.name == 'jls_bk_fread', fn.name, 'libc %s()' % name, ev.where(),
                   'libc input call outside jls_bk_fread bypasses the gated readers')
    nread = len(list(P.fn('jls_bk_fread').calls('read')))
    if nread == 0:
        raise AnalysisBroken('jls_bk_fread no longer calls read(): anchor for C04.4 moved')

    _extent_agreement(ctx, sess, P, hdr_off_crc, fh_off_crc)
    _consumption(ctx, P, exc)
    _freshness(ctx, P, exc)
    _cache_validity(ctx, P)
    _guarded_caches(ctx, P)
    _open_strict(ctx, P)
    ctx.rule('C04.13', 'a chunk read reads: every successful return of jls_core_rd_chunk follows a jls_raw_rd of that call that returned 0 - the read buffer then holds what the file holds (consumers such as the UTC iteration convert entries in place, so a payload that is "still there" from an earlier call is not the payload of the file)')
    ctx.rule('C04.12', 'a failed read is not reported as `nothing there`: where a caller answers a result code of a callee (NOT_FOUND, EMPTY) with success, the callee does not return that code on a path on which one of its read-chain calls failed')
    _not_found_rule(ctx, P)
    rd_chunk_reads_rule(ctx, P, 'C04.13')
    # the value the gates compare with is the CRC-32C in every implementation (C04's three-bit clause rests on it)
    ctx.rule('C04.11', '"at most three flipped bits": the function the gates compare with is the plain CRC-32C register update in every implementation the build can select: kernels, framing and - for the intrinsic implementations - a single ordered chain of steps that tiles the input (shared with C18.2-C18.5); the minimum distance itself is the polynomial\'s')
    from .common import relay
    from . import c18 as _src_c18
    relay(ctx, sess, _src_c18.run, {'C18.2': 'C04.11', 'C18.3': 'C04.11', 'C18.4': 'C04.11', 'C18.5': 'C04.11'})


def _footer_le(fn, cmp_block, dpath, size_arg):
    """The compared file CRC is assembled from buf[size-4..size-1], shifts 0..24."""
    size_p = fn.path(strip_casts(size_arg))
    found = set()
    # collect subscripts of the buffer in the defs of the variables of the compare
    ci = compare_info(cmp_block.cond)
    exprs = []
    for side in ci[:2]:
        for n in walk(side):
            if n.get('op') == 'ref' and n.get('rk') == 'local':
                defs, _ = df.reaching_defs(fn, n['name'], *df.cond_pos(cmp_block))
                for d in defs:
                    exprs.append(d.store_parts()[1])
        exprs.append(side)

    def scan(e, shift):
        e = strip_casts(e)
        if e is None:
            return
        if e.get('op') == 'bin' and e['o'] in ('|', '+', '^'):
            scan(e['k'][0], shift)
            scan(e['k'][1], shift)
        elif e.get('op') == 'bin' and e['o'] == '<<' and const_of(e['k'][1]) is not None:
            scan(e['k'][0], shift + const_of(e['k'][1]))
        elif e.get('op') == 'sub':
            p = fn.path(e)
            if p is not None and p.root == dpath.root:
                idx = strip_casts(e['k'][1])
                if idx.get('op') == 'bin' and idx['o'] == '-' and const_of(idx['k'][1]) is not None:
                    bp = fn.path(strip_casts(idx['k'][0]))
                    if bp is not None and size_p is not None and tuple(bp) == tuple(size_p):
                        found.add((-const_of(idx['k'][1]), shift))
                        return
                found.add(('?', show(idx)))
    for e in exprs:
        scan(e, 0)
    want = {(-4, 0), (-3, 8), (-2, 16), (-1, 24)}
    if found == want:
        return True, 'bytes (size-4..size-1) with shifts 0,8,16,24'
    return False, 'file CRC assembled from %s, expected %s relative to the read size' % (sorted(map(str, found)), sorted(want))


def _scanner(P, fn, ev, dpath):
    """Scanner obligation: the bytes read into a local buffer are used only as
    jls_crc32c_hdr(...) operands and `->crc32` loads; on an equal compare the
    function re-positions with jls_raw_chunk_seek (the caller then reads through
    the gated path); the buffer does not escape."""
    if dpath is None or dpath.root_kind != 'local':
        return False, 'destination %s is not a local scratch buffer and no CRC gate follows the read' % (str(dpath),)
    buf = dpath.root
    # pointer locals derived from the buffer
    derived = {buf}
    changed = True
    while changed:
        changed = False
        for s in fn.stores():
            lhs, rhs, o = s.store_parts()
            lhs = strip_casts(lhs)
            if rhs is None or lhs.get('op') != 'ref':
                continue
            if lhs['name'] in derived:
                continue
            if not lhs.get('t', s.t or '').startswith('p') and not (s.t or '').startswith('p'):
                continue
            names = set(n['name'] for n in walk(rhs) if n.get('op') == 'ref')
            if names & derived:
                derived.add(lhs['name'])
                changed = True
    bad = []
    for e2 in fn.events():
        if e2.k == 'call':
            for i, a in enumerate(e2.args):
                names = set(n['name'] for n in walk(a) if n.get('op') == 'ref')
                if names & derived:
                    if e2.callee == 'jls_bk_fread' and i == 1:
                        continue
                    if e2.callee == 'jls_crc32c_hdr':
                        continue
                    if a.get('op') == 'sizeof' or strip_casts(a).get('op') == 'sizeof':
                        continue
                    # sizeof(buffer) folded to a constant
                    if const_of(a) is not None:
                        continue
                    bad.append('%s passes the scanned bytes to %s' % (e2.where(), e2.callee))
        elif e2.k in ('store', 'decl'):
            lhs, rhs, o = e2.store_parts()
            l0 = strip_casts(lhs)
            if l0.get('op') == 'ref' and l0['name'] in derived:
                continue
            # loads of scanned bytes stored elsewhere
            if rhs is not None:
                for n in walk(rhs):
                    if n.get('op') in ('member', 'sub', 'un'):
                        p = fn.path(n) if n.get('op') != 'un' or n['o'] == '*' else None
                        if p is not None and p.root in derived and len(p) > 2:
                            if p.last_field() == 'crc32':
                                continue
                            bad.append('%s copies scanned bytes (%s) into %s' % (e2.where(), str(p), show(lhs)))
        elif e2.k == 'ret' and e2.e is not None:
            names = set(n['name'] for n in walk(e2.e) if n.get('op') == 'ref')
            if names & derived:
                bad.append('%s returns scanned bytes' % e2.where())
    # success requires the equal edge of the crc compare and a seek + (for the caller) gated re-read
    def is_crc_field(fn_, y, b):
        p = fn_.path(strip_casts(y))
        return p is not None and p.last_field() == 'crc32' and p.root in derived
    cmps = []
    for b in fn.blocks.values():
        ci = compare_info(b.cond)
        if ci is None:
            continue
        l, r, eq_label = ci

        def from_crc(n):
            return n.get('op') == 'call' and n.get('callee') == 'jls_crc32c_hdr'
        for x, y in ((l, r), (r, l)):
            if df.derives(fn, x, from_crc, *df.cond_pos(b)) and is_crc_field(fn, y, b):
                cmps.append((b, eq_label))
                break
    if not cmps:
        bad.append('no header-CRC compare guards the scanned candidate')
    else:
        # every zero return after the read passes the equal edge and a jls_raw_chunk_seek
        forb = set((b.id, lab) for b, lab in cmps)

        def edge_ok(b, s, label):
            return (b.id, label) not in forb
        def on_event(e3, facts):
            if e3.k == 'ret' and ret_class(fn, e3, facts) in ('zero',):
                return 'target'
            if e3.k == 'ret' and e3.e is not None and is_call(e3.e, 'jls_raw_chunk_seek'):
                return 'target'
            return None
        w = find_path(fn, ev, on_event, edge_ok=edge_ok)
        if w is not None:
            bad.append('a success return is reachable without the header-CRC compare: %s' % w.render())
        # on the equal edge: a seek must precede a zero return
        for b, lab in cmps:
            si = [i for i, (s, l2) in enumerate(b.succs) if l2 == lab]
            if not si:
                continue
            def on_event2(e3, facts):
                if e3.k == 'call' and e3.callee == 'jls_raw_chunk_seek':
                    return 'stop'
                if e3.k == 'ret' and ret_class(fn, e3, facts) == 'zero':
                    return 'target'
                return None
            w2 = find_path(fn, (b, si[0]), on_event2)
            if w2 is not None:
                bad.append('candidate accepted without jls_raw_chunk_seek: %s' % w2.render())
    if bad:
        return False, '; '.join(bad[:4])
    return True, 'scanned bytes flow only into jls_crc32c_hdr/->crc32; success re-seeks'


def _extent_agreement(ctx, sess, P, hdr_off_crc, fh_off_crc):
    # file header: every jls_crc32c whose first argument is a jls_file_header_s object
    sites = []
    for fn, ev in P.callers().get('jls_crc32c', []):
        ctx.saw(fn, 1)
        a = ev.args
        a0 = strip_casts(a[0])
        if _is_hdr_ptr(a0, 'jls_file_header_s'):
            c = const_of(a[1])
            ctx.ob('C04.5', c == fh_off_crc, fn.name, 'jls_crc32c(file header) extent', ev.where(),
                   'extent %s, offsetof(jls_file_header_s, crc32) = %d' % (c, fh_off_crc))
            sites.append(fn.name)
        else:
            # payload: the extent is the current header's payload_length, and the buffer is the one read/written
            lp = fn.path(df.resolve_local(fn, a[1], ev.block, ev.idx))
            bp = fn.path(a0)
            io = [e2 for e2 in fn.calls(('jls_bk_fread', 'jls_bk_fwrite')) if fn.path(e2.args[1]) is not None and bp is not None
                  and tuple(fn.path(e2.args[1])) == tuple(bp)]
            ok = lp is not None and lp.last_field() == 'payload_length' and '.hdr' in lp
            detail = 'extent %s' % (str(lp) if lp is not None else show(a[1]))
            if not io:
                ok = False
                detail += '; the buffer %s is not the one passed to jls_bk_fread/jls_bk_fwrite in this function' % (str(bp),)
            for e2 in io:
                if e2.callee == 'jls_bk_fwrite':
                    wp = fn.path(df.resolve_local(fn, e2.args[2], e2.block, e2.idx))
                    if wp is None or lp is None or tuple(wp) != tuple(lp):
                        ok = False
                        detail += '; bytes written (%s) differ from bytes signed' % (str(wp) if wp is not None else show(e2.args[2]))
            ctx.ob('C04.5', ok, fn.name, 'jls_crc32c(payload) extent', ev.where(), detail)
            sites.append(fn.name)
    wr = [s for s in sites if s.startswith('wr_') or '_wr_' in s]
    rd = [s for s in sites if s.startswith('rd_') or '_rd_' in s]
    if not wr or not rd:
        raise AnalysisBroken('C04.5: writer/reader CRC call pairs not found (%s)' % sites)
    # header variant: bytes covered by each implementation of jls_crc32c_hdr
    for cfg in ('default', 'crc_sw'):
        Pc = sess.prog(cfg) if cfg != 'default' else P
        f = Pc.fn('jls_crc32c_hdr')
        ctx.saw(f)
        n, how = hdr_extent(f)
        ctx.ob('C04.5', n == hdr_off_crc, 'jls_crc32c_hdr[%s]' % f.file, 'header CRC extent', f.where(),
               '%s bytes (%s), offsetof(jls_chunk_header_s, crc32) = %d' % (n, how, hdr_off_crc))


INTRINSIC_WIDTH = {'_mm_crc32_u64': 8, '_mm_crc32_u32': 4, '_mm_crc32_u16': 2, '_mm_crc32_u8': 1,
                   '__builtin_ia32_crc32di': 8, '__builtin_ia32_crc32si': 4, '__builtin_ia32_crc32hi': 2, '__builtin_ia32_crc32qi': 1,
                   '__crc32cd': 8, '__crc32cw': 4, '__crc32ch': 2, '__crc32cb': 1,
                   '__builtin_arm_crc32cd': 8, '__builtin_arm_crc32cw': 4, '__builtin_arm_crc32ch': 2, '__builtin_arm_crc32cb': 1}


def hdr_extent(f):
    """Bytes of the header covered by jls_crc32c_hdr: either the literal length
    passed to the generic kernel, or the union of [index*width, +width) over the
    intrinsic calls (must be contiguous from 0)."""
    for ev in f.calls():
        if ev.callee not in INTRINSIC_WIDTH and len(ev.args) >= 3:
            c = const_of(ev.args[2])
            p = f.path(ev.args[1])
            if c is not None and p is not None and p.root == f.params[0]['name']:
                return c, 'length literal passed to %s' % ev.callee
    covered = []
    for ev in f.calls():
        w = INTRINSIC_WIDTH.get(ev.callee)
        if w is None:
            continue
        d = strip_casts(ev.args[1])
        # data[i] or *(data + i)
        idx = None
        if d.get('op') == 'sub':
            idx = const_of(d['k'][1])
            base = d['k'][0]
        elif d.get('op') == 'un' and d['o'] == '*':
            inner = strip_casts(d['k'][0])
            if inner.get('op') == 'bin' and inner['o'] == '+':
                idx = const_of(inner['k'][1])
                base = inner['k'][0]
            else:
                idx, base = 0, inner
        if idx is None:
            return None, 'operand %s not of the form data[k]' % show(d)
        bt = strip_casts(base).get('t', '')
        # element width of the pointer
        ew = {'p:u64': 8, 'p:u32': 4, 'p:u16': 2, 'p:u8': 1, 'p:i8': 1}.get(bt)
        if ew is None:
            return None, 'unknown element type %s' % bt
        # the loaded element may be wider than the intrinsic operand (explicit narrowing keeps the low bytes)
        covered.append((idx * ew, w))
    covered.sort()
    pos = 0
    for off, w in covered:
        if off != pos:
            return None, 'non-contiguous coverage at byte %d (next operand starts at %d)' % (pos, off)
        pos += w
    return pos, 'sum of %d intrinsic operand widths' % len(covered)


def _consumption(ctx, P, exc):
    n = 0
    for name in READ_CHAIN:
        if not P.has_fn(name) and name not in ('rd_stats_chunk',):
            raise AnalysisBroken('read-chain anchor %s missing' % name)
        for fn, ev in P.callers().get(name, []):
            n += 1
            ctx.saw(fn, 1)
            ok, how = consumed(fn, ev)
            if not ok:
                k = '%s:%s' % (fn.name, name)
                if k in exc:
                    ctx.note('exception %s: %s' % (k, exc[k]))
                    continue
            ctx.ob('C04.6', ok, fn.name, 'result of %s()' % name, ev.where(), how)
            if ok and name in READ_OUTPUTS:
                r = failed_output_use(P, fn, ev)
                k = '%s:%s:failed-use' % (fn.name, name)
                if r is None:
                    ctx.note('C04.7: use of %s() result in %s not of a known form (%s)' % (name, fn.name, ev.where()))
                elif not r[0] and k in exc:
                    ctx.note('exception %s: %s' % (k, exc[k]))
                else:
                    ctx.ob('C04.7', r[0], fn.name, 'failure of %s()' % name, ev.where(), r[1], r[2])


def _freshness(ctx, P, exc, rule='C04.8', only=None, minimum=8):
    from ..guard import zero_edges_of_call
    from ..graph import ret_class
    BASE = {'jls_core_rd_chunk', 'reconstruct_omitted_chunk'}
    for b in BASE:
        P.fn(b)

    def is_buf_path(fn, nd):
        p = fn.path(nd)
        return p is not None and len(p) >= 3 and p[-1] == '.buf' and p.root_kind in ('param', 'local')

    def uses(fn):
        """events that consume the payload bytes of <core>.buf"""
        out = []
        for ev in fn.events():
            if ev.e is None:
                continue
            hit = False
            if ev.k == 'call' and ev.callee and ev.callee.startswith('jls_buf_rd_') and ev.args and is_buf_path(fn, strip_casts(ev.args[0])):
                hit = True
            if ev.k == 'call' and ev.callee == 'jls_buf_copy' and len(ev.args) > 1 and is_buf_path(fn, strip_casts(ev.args[1])):
                hit = True
            if not hit and ev.k in ('call', 'store', 'decl', 'ret'):
                for nd in walk(ev.e):
                    if nd.get('op') == 'member' and nd.get('field') in ('start', 'cur') and nd.get('rec') == 'jls_buf_s' and is_buf_path(fn, nd['k'][0]):
                        # destination of a raw read / own pointer bookkeeping is not a use
                        if ev.k == 'call' and ev.callee in ('jls_raw_rd', 'jls_raw_rd_payload', 'jls_bk_fread', 'jls_raw_wr', 'jls_buf_realloc'):
                            continue
                        if ev.k == 'store' and strip_casts(ev.store_parts()[0]).get('op') == 'member' and strip_casts(ev.store_parts()[0]).get('rec') == 'jls_buf_s':
                            continue
                        hit = True
            if hit:
                out.append(ev)
        return out

    # refreshers: every zero return passes the zero edge of a refresher call
    refreshers = set(BASE)
    changed = True
    while changed:
        changed = False
        for g in P.all_functions():
            if g.name in refreshers or g.ret != 'i32':
                continue
            calls = [c for c in g.calls() if c.callee in refreshers]
            if not calls:
                continue
            edges = set()
            for c in calls:
                edges |= zero_edges_of_call(g, c)
            retd = [c for c in calls if any(r.e is not None and strip_casts(r.e).get('id') == c.e.get('id') for r in g.returns())]
            w = find_path(g, 'entry', lambda ev, facts: ('stop' if any(ev.e is not None and ev.k == 'ret' and strip_casts(ev.e).get('id') == c.e.get('id') for c in retd) else
                                                       ('target' if ev.k == 'ret' and ret_class(g, ev, facts) in ('zero', 'unknown') else None)),
                          edge_ok=lambda b, s_, label: (b.id, label) not in edges)
            if w is None:
                refreshers.add(g.name)
                changed = True
    ctx.note(rule + ': buffer refreshers derived: %s' % sorted(refreshers))
    reader_side = [f for f in P.all_functions() if f.file in ('src/core.c', 'src/reader.c', 'src/track.c') and
                   not f.name.startswith(('jls_core_wr_', 'jls_track_wr_', 'jls_wr_'))]
    memo = {}

    def unfresh(fn):
        """witness of a use of the buffer reachable from fn's entry with no refresher success before it"""
        if fn.name in memo:
            return memo[fn.name]
        memo[fn.name] = None
        us = uses(fn)
        edges = set()
        for c in fn.calls():
            if c.callee in refreshers:
                edges |= zero_edges_of_call(fn, c)
        res = None
        for u in us:
            w = find_path(fn, 'entry', lambda ev, facts: 'target' if ev is u else None, edge_ok=lambda b, s_, label: (b.id, label) not in edges)
            if w is not None:
                res = (u, w)
                break
        if res is None:
            # calls to functions that need a fresh buffer at entry
            for c in fn.calls():
                g = P.functions.get(c.callee)
                if g is None or g is fn or g.name in refreshers or g not in reader_side:
                    continue
                ug = unfresh(g)
                if ug is None:
                    continue
                w = find_path(fn, 'entry', lambda ev, facts: 'target' if ev is c else None, edge_ok=lambda b, s_, label: (b.id, label) not in edges, refine=False)
                if w is not None:
                    res = (c, w)
                    break
        memo[fn.name] = res
        return res

    n = 0
    for fn in reader_side:
        if not uses(fn) and not any(c.callee in [g.name for g in reader_side] for c in fn.calls()):
            continue
        callers = [cf for cf, cev in P.callers().get(fn.name, []) if cf is not fn]
        r = unfresh(fn)
        # a function that needs a fresh buffer at entry is fine when it is internal and every caller provides one
        if r is not None and callers and not fn.api:
            continue
        if not uses(fn) and r is None:
            continue
        if only is not None and not only(fn.name):
            continue
        n += 1
        k = '%s:buffer-freshness' % fn.name
        if r is not None and k in exc:
            ctx.note('exception %s: %s' % (k, exc[k]))
            continue
        ctx.ob(rule, r is None, fn.name, 'read buffer is fresh where its bytes are used', fn.where(),
               'every use follows a successful checked read / reconstruction on the same path' if r is None else
               'bytes of the read buffer are used at %s without a successful checked read before it on that path (a cached or failed read would be returned as valid)' % r[0].where(),
               r[1].render() if r else None)
    ctx.floor('reader functions using the read buffer', n, minimum)


def _cache_validity(ctx, P):
    """reads into instance state: failing exits invalidate"""
    n = 0
    # invalidators: functions whose stores are only <param>->hdr.tag = JLS_TAG_INVALID
    def is_invalidate_store(fn, ev, dpath):
        if ev.k != 'store':
            return False
        lhs, rhs, o = ev.store_parts()
        p = fn.path(strip_casts(lhs))
        if p is None or p.last_field() != 'tag' or rhs is None:
            return False
        r0 = strip_casts(rhs)
        return (r0.get('m') == 'JLS_TAG_INVALID' or rhs.get('m') == 'JLS_TAG_INVALID' or const_of(rhs) == 0) and (dpath is None or tuple(p[:-1]) == tuple(dpath))
    invalidators = set()
    for g in P.fns_in('src/raw.c'):
        st = [ev for ev in g.stores() if ev.k == 'store']
        if st and all(is_invalidate_store(g, ev, None) for ev in st) and not list(g.calls()):
            invalidators.add(g.name)
    ctx.note('C04.9: invalidators derived: %s' % sorted(invalidators))
    for fn, ev in P.callers().get('jls_bk_fread', []):
        dst = ev.args[1]
        dpath = fn.path(dst)
        if dpath is None or dpath.root_kind != 'param' or len(dpath) < 3:
            continue            # a caller-provided or local buffer: C04.7 / C04.8
        n += 1
        ctx.saw(fn, 1)

        def on_event(e2, facts, fn=fn, dpath=dpath):
            if is_invalidate_store(fn, e2, dpath):
                return 'stop'
            if e2.k == 'call' and e2.callee in invalidators:
                return 'stop'
            if e2.k == 'ret' and ret_class(fn, e2, facts) == 'nonzero':
                return 'target'
            return None
        # the failing read itself, and every later failure
        w = None
        for start_facts in (frozenset(),):
            w = find_path(fn, ev, on_event, start_facts=start_facts)
        ctx.ob('C04.9', w is None, fn.name, 'read into %s' % str(dpath), ev.where(),
               'every failing exit after the read invalidates %s' % str(dpath) if w is None else
               'a failing exit leaves the bytes just read in %s with a valid-looking tag: the next call that finds the header "loaded" uses a header whose CRC did not match' % str(dpath),
               w.render() if w else None)
    ctx.floor('reads into instance state', n, 1)


def _guarded_caches(ctx, P):
    """a field that short-cuts a reader when it looks valid (early `return 0` under  F >= 0) is stored only by calls that succeed:
    from every store of a value into F, every path to a failing return resets F to its sentinel"""
    n = 0
    for fn in P.all_functions():
        if fn.file not in ('src/core.c', 'src/reader.c', 'src/track.c'):
            continue
        # validity guards:  if (*F >= 0) { ...; return 0; }
        guards = []
        for b in fn.blocks.values():
            c = strip_casts(b.cond) if b.cond is not None else None
            if c is None or c.get('op') != 'bin' or c['o'] not in ('>=', '>') or const_of(c['k'][1]) not in (0, -1):
                continue
            x = strip_casts(c['k'][0])
            xr = df.resolve_local(fn, x['k'][0], b, len(b.events)) if (x.get('op') == 'un' and x.get('o') == '*') else None
            fld = None
            for nd in walk(xr if xr is not None else x):
                if nd.get('op') == 'member' and nd.get('t') in ('i64', 'i32'):
                    fld = nd.get('field')
            if fld is None:
                continue
            # the T edge reaches a zero return without reading the file
            w = find_path(fn, (b, 0), lambda ev, facts: 'stop' if (ev.k == 'call' and ev.callee in ('jls_core_rd_chunk', 'jls_raw_rd', 'jls_raw_chunk_seek')) else
                          ('target' if (ev.k == 'ret' and ret_class(fn, ev, facts) in ('zero',)) else None))
            if w is not None:
                guards.append((b, fld, x))
        for gb, fld, gx in guards:
            def is_store(ev, fld=fld, gx=gx):
                if ev.k != 'store':
                    return None
                lhs, rhs, o = ev.store_parts()
                l0 = strip_casts(lhs)
                same = show(l0) == show(gx)
                if not same and not (l0.get('op') == 'member' and l0.get('field') == fld):
                    return None
                c_ = const_of(rhs) if rhs is not None else None
                return 'reset' if (c_ is not None and c_ < 0) else 'set'
            for ev in [e_ for e_ in fn.stores() if is_store(e_) == 'set']:
                n += 1
                ctx.saw(fn, 1)

                def on_event(e2, facts):
                    if is_store(e2) == 'reset':
                        return 'stop'
                    if e2.k == 'ret' and ret_class(fn, e2, facts) == 'nonzero':
                        return 'target'
                    return None
                w = find_path(fn, ev, on_event)
                ctx.ob('C04.9', w is None, fn.name, 'store to the cached %s' % fld, ev.where(),
                       'no failing exit after the store (or the cache is reset first)' if w is None else
                       'the cache is filled before a read that can fail: after the error the next call finds %s >= 0 and returns it with result 0' % fld,
                       w.render() if w else None)
    # pointer-valid guards:  if (NULL != X->cache) return 0;  ... X->cache = alloc(); fill(X->cache) ...
    n2 = 0
    for fn in P.all_functions():
        if fn.file not in ('src/core.c', 'src/reader.c', 'src/track.c'):
            continue
        guards = []
        for b in fn.blocks.values():
            c = strip_casts(b.cond) if b.cond is not None else None
            if c is None or len(b.succs) < 2:
                continue
            x, lab = None, 'T'
            if c.get('op') == 'bin' and c['o'] in ('!=', '=='):
                for u, v in ((c['k'][0], c['k'][1]), (c['k'][1], c['k'][0])):
                    if const_of(strip_casts(u)) == 0 and strip_casts(v).get('op') == 'member':
                        x, lab = strip_casts(v), ('T' if c['o'] == '!=' else 'F')
            elif c.get('op') == 'member':
                x = c
            if x is None or not x.get('t', '').startswith('p:'):
                continue
            i = [k for k, (s_, l_) in enumerate(b.succs) if l_ == lab]
            if not i:
                continue
            w = find_path(fn, (b, i[0]), lambda ev, facts: 'stop' if ev.k == 'call' else
                          ('target' if (ev.k == 'ret' and ret_class(fn, ev, facts) == 'zero') else None))
            if w is not None:
                guards.append((b, x))
        for gb, gx in guards:
            def kind(ev, gx=gx):
                if ev.k != 'store':
                    return None
                lhs, rhs, o = ev.store_parts()
                if show(strip_casts(lhs)) != show(gx) or o != '=' or rhs is None:
                    return None
                return 'reset' if const_of(strip_casts(rhs)) == 0 else 'set'
            for ev in [e_ for e_ in fn.stores() if kind(e_) == 'set']:
                n2 += 1
                ctx.saw(fn, 1)

                def on_event(e2, facts):
                    if kind(e2) == 'reset':
                        return 'stop'
                    if e2.k == 'ret' and e2.e is not None:
                        rc_ = ret_class(fn, e2, facts)
                        if rc_ == 'nonzero' or (rc_ == 'unknown' and strip_casts(e2.e).get('op') == 'call'):
                            return 'target'
                    return None
                # the NULL edge of the allocation test right after the store is not a failing exit with the cache attached
                null_edges = set()
                for bb in fn.blocks.values():
                    cc = strip_casts(bb.cond) if bb.cond is not None else None
                    if cc is not None and cc.get('op') == 'bin' and cc['o'] in ('==', '!=') and \
                            any(const_of(strip_casts(k_)) == 0 for k_ in cc['k']) and any(show(strip_casts(k_)) == show(gx) for k_ in cc['k']):
                        null_edges.add((bb.id, 'T' if cc['o'] == '==' else 'F'))
                    elif cc is not None and cc.get('op') == 'un' and cc.get('o') == '!' and show(strip_casts(cc['k'][0])) == show(gx):
                        null_edges.add((bb.id, 'T'))
                w = find_path(fn, ev, on_event, edge_ok=lambda b_, s_, lab_: (b_.id, lab_) not in null_edges)
                ctx.ob('C04.9', w is None, fn.name, 'store to the cached %s' % show(gx)[-40:], ev.where(),
                       'the object is attached only where no failing exit follows (or it is detached first)' if w is None else
                       'the object is attached before it is filled by reads that can fail: after the error the next call finds %s != NULL, skips the load and answers from the partial content with result 0' % show(gx)[-30:],
                       w.render() if w else None)
    # marker guards:  if (X.offset) { ... in range ... return 0; }   with   X = <chunk just read>   as the fill
    n3 = 0
    for fn in P.all_functions():
        if fn.file not in ('src/core.c', 'src/reader.c', 'src/track.c'):
            continue
        guards = []
        for b in fn.blocks.values():
            c = strip_casts(b.cond) if b.cond is not None else None
            if c is None or len(b.succs) < 2 or c.get('op') != 'member' or not c.get('t', '').startswith(('i', 'u')):
                continue
            pth_ = fn.path(c)
            if pth_ is not None and pth_.root_kind == 'local':
                continue          # a local copy does not outlive the call: it cannot short-cut the next one
            i = [k for k, (s_, l_) in enumerate(b.succs) if l_ == 'T']
            w = find_path(fn, (b, i[0]), lambda ev, facts: 'stop' if ev.k == 'call' else
                          ('target' if (ev.k == 'ret' and ret_class(fn, ev, facts) == 'zero') else None)) if i else None
            if w is not None:
                guards.append((b, c))
        for gb, gx in guards:
            gtxt = show(gx)

            def kind(ev, gtxt=gtxt):
                if ev.k != 'store':
                    return None
                lhs, rhs, o = ev.store_parts()
                ltxt = show(strip_casts(lhs))
                if o != '=' or rhs is None:
                    return None
                if ltxt == gtxt:
                    return 'reset' if const_of(strip_casts(rhs)) == 0 else 'set'
                if gtxt.startswith(ltxt + '.') or gtxt.startswith(ltxt + '->'):
                    return 'set'          # the whole object that holds the marker is assigned
                return None
            for ev in [e_ for e_ in fn.stores() if kind(e_) == 'set']:
                n3 += 1
                ctx.saw(fn, 1)

                def on_event(e2, facts):
                    if kind(e2) == 'reset':
                        return 'stop'
                    if e2.k == 'ret' and e2.e is not None:
                        rc_ = ret_class(fn, e2, facts)
                        if rc_ == 'nonzero' or (rc_ == 'unknown' and strip_casts(e2.e).get('op') == 'call'):
                            return 'target'
                    return None
                w = find_path(fn, ev, on_event)
                ctx.ob('C04.9', w is None, fn.name, 'store to the validity marker %s' % gtxt[-40:], ev.where(),
                       'marked valid only where no failing exit follows (or the marker is cleared first)' if w is None else
                       'the cache is marked valid before everything it stands for was read: after the error the next call finds %s set, skips the reads and uses what an earlier call left in the companion buffers' % gtxt[-30:],
                       w.render() if w else None)
    ctx.floor('stores to guarded caches', n, 1)
    ctx.floor('stores to pointer-guarded caches', n2, 1)
    ctx.floor('stores to marker-guarded caches', n3, 1)


# ---- C04.10: opening a file does not swallow a failed chunk read
OPEN_SCOPE = ('jls_rd_open', 'jls_core_scan_initial', 'jls_core_scan_sources', 'jls_core_scan_signals', 'jls_core_scan_fsr_sample_id')
# result codes that are not a failed check, by contract of the callee (one line of reason each)
OPEN_BENIGN = {
    'jls_raw_open': {'JLS_ERROR_TRUNCATED': 'the file header is intact but the file was not closed: the caller repairs it'},
    'jls_core_rd_chunk': {'JLS_ERROR_EMPTY': 'no more bytes: the end of the file was reached while looking for the heads'},
}


def _open_chain(name):
    return name.startswith(('jls_raw_', 'jls_core_rd_chunk', 'jls_core_scan_', 'jls_core_repair_', 'jls_bk_', 'jls_core_wr_end')) and \
        name not in ('jls_raw_chunk_tell', 'jls_raw_backend', 'jls_raw_version')


def _open_strict(ctx, P):
    codes = {it['name']: it['v'] for it in P.enum('jls_error_code_e')['items']}
    n = 0
    for name in OPEN_SCOPE:
        fn = P.fn(name)
        ctx.saw(fn)
        for ev in fn.calls():
            if not _open_chain(ev.callee):
                continue
            callee = P.functions.get(ev.callee)
            if callee is not None and not callee.ret.startswith(('i32', 'i')):
                continue
            st = nonzero_starts(fn, ev)
            key = '%s()' % ev.callee
            if st == 'returned':
                n += 1
                ctx.ob('C04.10', True, fn.name, key, ev.where(), 'returned to the caller')
                continue
            if st is None:
                if consumed(fn, ev)[0]:
                    n += 1
                    ctx.ob('C04.10', False, fn.name, key, ev.where(), 'the use of the result is not of a form this rule understands')
                continue          # discarded results are C04.6's business
            benign = {codes[c] for c in OPEN_BENIGN.get(ev.callee, {})}
            rvars = {f[0] for _, facts in st for f in facts}

            def edge_ok(b, s, label, benign=benign, rvars=rvars):
                # the edge on which the result equals a benign code is not a failure
                if not benign or b.cond is None or label not in ('T', 'F'):
                    return True
                ci = compare_info(b.cond)
                if ci is None:
                    return True
                l, r, eq_label = ci
                for x, y in ((l, r), (r, l)):
                    if const_of(y) in benign and strip_casts(x).get('op') == 'ref' and (not rvars or strip_casts(x).get('name') in rvars):
                        return label != eq_label
                return True

            def on_event(e2, facts):
                if e2.k == 'call' and _open_chain(e2.callee) and e2.callee not in ('jls_raw_close',):
                    return 'target'
                if e2.k == 'ret' and ret_class(fn, e2, facts) == 'zero':
                    return 'target'
                return None
            w = None
            for start, facts in st:
                w = find_path(fn, start, on_event, start_facts=facts, edge_ok=edge_ok)
                if w is not None:
                    break
            n += 1
            ctx.ob('C04.10', w is None, fn.name, key, ev.where(),
                   'a failed %s ends the open with an error' % ev.callee if w is None else
                   'with %s() failed (not one of %s) the open carries on: it reads further chunks or reports success, and the caller gets a file whose content silently lacks what the damaged chunk described'
                   % (ev.callee, sorted(OPEN_BENIGN.get(ev.callee, {})) or 'the benign codes: none'), w.render() if w else None)
    ctx.floor('read-chain calls of the open path', n, 15)


def _not_found_rule(ctx, P):
    """a failed read is not turned into 'there is nothing': where a caller maps a result code of G to success,
    G does not return that code on a path on which a read-chain call failed"""
    codes = {it['name']: it['v'] for it in P.enum('jls_error_code_e')['items']}
    benign = {codes['JLS_ERROR_NOT_FOUND']: 'JLS_ERROR_NOT_FOUND', codes['JLS_ERROR_EMPTY']: 'JLS_ERROR_EMPTY'}
    # (callee, code) pairs that some caller answers with success
    mapped = {}
    for fn in P.all_functions():
        if fn.file not in ('src/core.c', 'src/reader.c', 'src/track.c', 'src/copy.c'):
            continue
        for c in fn.calls():
            g = P.functions.get(c.callee)
            if g is None or g.ret != 'i32':
                continue
            # rv = g(...); if (rv == CODE) return 0;
            var = None
            for ev in c.block.events[c.idx + 1:]:
                if ev.k in ('store', 'decl') and ev.e is not None:
                    rhs = ev.e if ev.k == 'decl' else ev.store_parts()[1]
                    if rhs is not None and strip_casts(rhs).get('id') == c.e.get('id'):
                        var = ev.name if ev.k == 'decl' else strip_casts(ev.store_parts()[0]).get('name')
            if var is None:
                continue
            for b in fn.blocks.values():
                ci = compare_info(b.cond) if b.cond is not None else None
                if ci is None:
                    continue
                l, r, eq_label = ci
                for x, y in ((l, r), (r, l)):
                    if strip_casts(x).get('name') == var and const_of(y) in benign:
                        i_ = [k for k, (s_, l_) in enumerate(b.succs) if l_ == eq_label]
                        if i_ and find_path(fn, (b, i_[0]), lambda e2, facts: 'stop' if e2.k == 'call' else
                                            ('target' if (e2.k == 'ret' and ret_class(fn, e2, facts) == 'zero') else None)) is not None:
                            mapped.setdefault(g.name, {})[const_of(y)] = fn.name
    n = 0
    for gname, cmap in sorted(mapped.items()):
        g = P.functions[gname]
        ctx.saw(g, 1)
        for c in g.calls():
            if c.callee not in READ_CHAIN and not c.callee.startswith(('jls_raw_chunk_seek', 'jls_core_rd_chunk')):
                continue
            st = nonzero_starts(g, c)
            if not st or st == 'returned':
                continue
            n += 1
            bad = None
            for start, facts in st:
                w = find_path(g, start, lambda e2, facts_: 'target' if (e2.k == 'ret' and e2.e is not None and const_of(strip_casts(e2.e)) in cmap) else
                              ('stop' if (e2.k == 'call' and e2.callee in READ_CHAIN) else None), start_facts=facts)
                if w is not None:
                    bad = w
                    break
            ctx.ob('C04.12', bad is None, gname, 'failure of %s()' % c.callee, c.where(),
                   'never answered with a code that %s takes for `no entries`' % sorted(set(cmap.values()))[0] if bad is None else
                   'when %s() fails (a damaged chunk), %s returns %s, which %s answers with success and nothing delivered: entries that were written are reported as absent' %
                   (c.callee, gname, '/'.join(benign[v] for v in cmap), sorted(set(cmap.values()))[0]),
                   bad.render() if bad else None)
    ctx.floor('read-chain calls in functions whose `not found` is mapped to success', n, 3)


def rd_chunk_reads_rule(ctx, P, rule):
    from ..guard import zero_edges_of_call
    fn = P.fn('jls_core_rd_chunk')
    ctx.saw(fn, 1)
    reads = list(fn.calls('jls_raw_rd'))
    if not reads:
        raise AnalysisBroken('jls_core_rd_chunk does not call jls_raw_rd')
    ok_edges = set()
    for c in reads:
        ok_edges |= zero_edges_of_call(fn, c)
    w = find_path(fn, 'entry', lambda e2, facts: 'target' if (e2.k == 'ret' and ret_class(fn, e2, facts) in ('zero', 'unknown')) else None,
                  edge_ok=lambda b, s_, label: (b.id, label) not in ok_edges)
    ctx.ob(rule, w is None and bool(ok_edges), fn.name, 'success only behind a successful raw read', fn.where(),
           'every zero return passes the zero-result edge of jls_raw_rd' if (w is None and ok_edges) else
           'the function can report success without having read the chunk: the caller then works on whatever an earlier call left in the buffer - entries another reader converted in place (UTC sample ids shifted by the offset are shifted again and filtered against the wrong ids), or a payload whose check failed',
           w.render() if w else None)
