"""C17 — copy preserves everything the reader can see (structural clauses)."""
from ..export import AnalysisBroken
from ..ir import strip_casts, const_of, walk, show, kids
from ..graph import find_path, ret_class, ev_dominates, dominators
from .. import ser, df
from .common import exceptions

EXPL = ('Dispatch coverage of jls_copy over every chunk tag; every content tag re-issued through the matching writer call with the '
        'fields parsed from the payload (argument-to-parameter name agreement); parser agreement with the writer (shared with C13.1); '
        'both files closed on every path; tolerance of unclosed originals; and the relation "the writer can omit level-0 blocks => the '
        'copy must consume the level-1 INDEX/SUMMARY chunks".')
NOT_DECIDED = 'Equality of reader dumps of original and copy (values).'


def run(ctx, sess):
    ctx.explanation = EXPL
    ctx.not_decided = NOT_DECIDED
    ctx.rule('C17.8', 'a definition read from the original is accepted unchanged by the copy: the alignment keeps the divisibility it established (shared with C16.7), so aligning an aligned definition again changes nothing')
    from .common import relay
    from . import c16 as _src_c16
    relay(ctx, sess, _src_c16.run, {'C16.7': 'C17.8'})
    ctx.rule('C17.12', 'an unclosed original shows what its copy shows: the rebuild on open accepts every SUMMARY the writer produces, also the 4 x f64 entries of 32- and 64-bit types (shared with C03.v) - the copy re-issues every DATA chunk whatever the rebuild made of the index')
    from . import c03 as _src_c03
    relay(ctx, sess, _src_c03.run, {'C03.v': 'C17.12'}, minimum=1)
    P = sess.prog('default')
    f = P.fn('jls_copy')
    ctx.saw(f)
    def _late():
        unclosed_listing_rule(ctx, P, 'C17.9')
        copy_loop_rule(ctx, P, 'C17.10')
        from .frames import frames_rule
        frames_rule(ctx, P, 'C17.11', kinds=('utc',), minimum=1)
    ctx.rule('C17.1', 'the dispatch switch of jls_copy has a case for every chunk tag of the format')
    ctx.rule('C17.2', 'every content tag is re-issued through the matching writer call; payload fields are passed to the parameter of the same name; ids and positions come from the chunk that was read')
    ctx.rule('C17.3', 'the copy-side parsers of SOURCE_DEF and SIGNAL_DEF use the writer\'s field sequence')
    ctx.rule('C17.4', 'closed result: every return after the files were opened passes jls_wr_close and jls_raw_close; unclosed originals are accepted')
    ctx.rule('C17.6', 'no chunk is skipped for lack of buffer: the copy buffer covers the on-disk payload on every path to the payload read')
    ctx.rule('C17.9', 'an unclosed original and its copy list the same time-series entries: for every track kind whose DATA chunks jls_copy re-issues by walking the file, the reader of that kind either starts at level 0 and follows the DATA chunk chain (every chunk on disk is reached), or the repair in jls_rd_open rebuilds the index of that kind')
    ctx.rule('C17.10', 'the copy visits every chunk of the original: the loop of jls_copy goes on while a chunk starts before the end of the file - evaluated with exactly one header (32 bytes, a chunk without payload) left, the loop condition holds')
    ctx.rule('C17.11', 'UTC entries of an original are listed in one frame: the UTC reader applies the sample_id_offset exactly once and no compare mixes api-relative and file ids (shared with C12.2) - the path through unindexed UTC DATA chunks, which only unclosed originals take, included')
    ctx.rule('C17.7', 'a content chunk is left out of the copy only when it is one the writer creates by itself: source/signal id 0, user data with storage type INVALID')
    ctx.rule('C17.5', 'omitted blocks: since the writer can record a level-0 block as omitted (index entry 0), the copy must consume the level-1 INDEX/SUMMARY chunks to reproduce it')
    sw = None
    for b in f.blocks.values():
        if b.term and b.term.get('kind') == 'SwitchStmt' and b.cond is not None:
            p = f.path(strip_casts(b.cond))
            if p is not None and p.last_field() == 'tag':
                sw = b
    if sw is None:
        raise AnalysisBroken('dispatch switch of jls_copy not found')
    cases = {}
    for s, label in sw.succs:
        if isinstance(label, tuple) and label[0] == 'case':
            for v in label[1]:
                cases[v] = s
    tags = {it['name']: it['v'] for it in P.enum('jls_tag_e')['items']}
    ctx.floor('chunk tags', len(tags), 25)
    for name, v in sorted(tags.items(), key=lambda x: x[1]):
        ctx.ob('C17.1', v in cases, f.name, 'case %s' % name, '%s:%d' % (f.file, sw.line), 'present' if v in cases else 'tag falls into `default` and is silently dropped')
    # ---- C17.2
    want = {
        'JLS_TAG_SOURCE_DEF': ('jls_wr_source_def', None),
        'JLS_TAG_SIGNAL_DEF': ('jls_wr_signal_def', None),
        'JLS_TAG_TRACK_FSR_DATA': ('jls_wr_fsr', 'jls_fsr_data_s'),
        'JLS_TAG_TRACK_ANNOTATION_DATA': ('jls_wr_annotation', 'jls_annotation_s'),
        'JLS_TAG_TRACK_UTC_DATA': ('jls_wr_utc', 'jls_utc_data_s'),
        'JLS_TAG_USER_DATA': ('jls_wr_user_data', None),
    }
    for tag, (callee, rec) in want.items():
        region = ser.case_region(f, 'tag', tags[tag])
        calls = [ev for ev in region if ev.k == 'call' and ev.callee == callee]
        ctx.ob('C17.2', bool(calls), f.name, '%s is re-issued through %s()' % (tag, callee), '%s:%d' % (f.file, cases[tags[tag]].line) if tags[tag] in cases else f.where(),
               'present' if calls else 'the chunk content is read but never written to the copy')
        if not calls:
            continue
        c = calls[0]
        g = P.fn(callee)
        # parameter-name agreement for payload fields
        bad = []
        for i, a in enumerate(c.args):
            a0 = strip_casts(a)
            if a0.get('op') == 'member' and i < len(g.params):
                fld = a0['field']
                pname = g.params[i]['name']
                recf = [fl['name'] for fl in P.records.get(a0.get('rec') or '', {}).get('fields', [])]
                if pname in recf and fld != pname:
                    bad.append('argument %d passes .%s to parameter `%s`' % (i, fld, pname))
        ctx.ob('C17.2', not bad, f.name, '%s arguments match %s() parameters by name' % (tag, callee), c.where(), 'ok' if not bad else '; '.join(bad))
        # the signal id comes from this chunk's chunk_meta
        for i, p in enumerate(g.params):
            if p['name'] == 'signal_id' and i < len(c.args):
                ok = df.derives(f, c.args[i], lambda nd: nd.get('op') == 'member' and nd.get('field') == 'chunk_meta', c.block, c.idx)
                ctx.ob('C17.2', ok, f.name, '%s: signal id from the chunk header' % tag, c.where(), show(c.args[i]))
        # positions: FSR sample id / UTC sample id from the payload header timestamp; counts from entry_count
        if callee == 'jls_wr_fsr':
            a = [strip_casts(x) for x in c.args]
            ok = a[2].get('op') == 'member' and a[2].get('field') == 'timestamp' and a[4].get('op') == 'member' and a[4].get('field') == 'entry_count' and \
                a[3].get('op') == 'member' and a[3].get('field') == 'data'
            ctx.ob('C17.2', ok, f.name, 'FSR data re-issued at its own sample id with its own count', c.where(), '%s, %s, %s' % (show(a[2]), show(a[3]), show(a[4])))
        if callee == 'jls_wr_utc':
            a = [strip_casts(x) for x in c.args]
            p2, p3 = f.path(a[2]), f.path(a[3])
            ok = p2 is not None and tuple(p2[-2:]) == ('.header', '.timestamp') and p3 is not None and p3.last_field() == 'timestamp' and '.header' not in tuple(p3)
            ctx.ob('C17.2', ok, f.name, 'UTC entry: sample id from header.timestamp, time from timestamp', c.where(), '%s, %s' % (show(a[2]), show(a[3])))
        if callee == 'jls_wr_user_data':
            a = [strip_casts(x) for x in c.args]
            ok = df.derives(f, a[3], lambda nd: nd.get('op') == 'member' and nd.get('field') == 'start', c.block, c.idx) and \
                f.path(a[4]) is not None and f.path(a[4]).last_field() == 'payload_length'
            ctx.ob('C17.2', ok, f.name, 'user data: payload bytes and length of the chunk', c.where(), '%s, %s' % (show(a[3]), show(a[4])))
        if rec:
            casts = [ev for ev in region if ev.k == 'decl' and ev.t == 'p:s:' + rec and ev.e is not None and any(nd.get('op') == 'member' and nd.get('field') == 'start' for nd in walk(ev.e))]
            ctx.ob('C17.2', bool(casts), f.name, '%s payload read through struct %s' % (tag, rec), c.where(), '')
    # ids 0 (reserved source/signal created by the writer itself) are not re-issued
    for tag, callee, fld in (('JLS_TAG_SOURCE_DEF', 'jls_wr_source_def', 'source_id'), ('JLS_TAG_SIGNAL_DEF', 'jls_wr_signal_def', 'signal_id')):
        region = ser.case_region(f, 'tag', tags[tag])
        for c in [ev for ev in region if ev.k == 'call' and ev.callee == callee]:
            from ..graph import control_deps_transitive, cond_facts
            guarded = False
            for (bid, label) in control_deps_transitive(f, c.block.id):
                for (var, kind, cv) in cond_facts(f, f.blocks[bid].cond, label):
                    if var.endswith('.' + fld) and kind == 'ne' and cv == 0:
                        guarded = True
            ctx.ob('C17.2', guarded, f.name, 'reserved %s 0 is not defined twice' % fld, c.where(), '')
    # ---- C17.3
    from .c13 import _calls
    wsig = P.fn('jls_wr_signal_def')
    wsrc = P.fn('jls_wr_source_def')
    for name, wfn, tag in (('SIGNAL_DEF', wsig, 'JLS_TAG_SIGNAL_DEF'), ('SOURCE_DEF', wsrc, 'JLS_TAG_SOURCE_DEF')):
        wseq = ser.sequence(wfn, _calls(wfn, ser.WR))
        rseq = ser.sequence(f, _calls(f, ser.RD, ser.case_region(f, 'tag', tags[tag])))
        ok = len(wseq) == len(rseq) and all(a[0] == b[0] and a[1] == b[1] and (a[0] == 'pad' or a[2] == b[2]) for a, b in zip(wseq, rseq))
        ctx.ob('C17.3', ok, f.name, '%s parser agrees with the writer' % name, f.where(),
               '%d operations' % len(wseq) if ok else 'writer %s vs copy %s' % ([t[2] or t[0] for t in wseq], [t[2] or t[0] for t in rseq]))
    # ---- C17.4
    opens = list(f.calls('jls_wr_open'))
    if not opens:
        raise AnalysisBroken('jls_copy: jls_wr_open not found')
    from ..guard import zero_edges_of_call
    for closer in ('jls_wr_close', 'jls_raw_close'):
        bad = None
        for (bid, lab) in zero_edges_of_call(f, opens[0]):
            b2 = f.blocks[bid]
            for i, (s, l2) in enumerate(b2.succs):
                if l2 == lab:
                    bad = bad or find_path(f, (b2, i), lambda e2, facts: 'stop' if (e2.k == 'call' and e2.callee == closer) else ('target' if e2.k == 'ret' else None))
        ctx.ob('C17.4', bad is None, f.name, 'every return after the opens passes %s' % closer, opens[0].where(),
               'closed on every path' if bad is None else 'a return leaves the %s unclosed' % ('copy' if closer == 'jls_wr_close' else 'source'), bad.render() if bad else None)
    # unclosed originals accepted
    ro = list(f.calls('jls_raw_open'))
    TR = P.enum_consts['JLS_ERROR_TRUNCATED']
    tol = False
    for b in f.blocks.values():
        e = strip_casts(b.cond) if b.cond else None
        if e is not None and e.get('op') == 'bin' and e['o'] == '!=' and const_of(e['k'][1]) == TR:
            tol = True
    ctx.ob('C17.4', bool(ro) and tol, f.name, 'an original without END / with length 0 (JLS_ERROR_TRUNCATED) is still copied', ro[0].where() if ro else f.where(), '')
    mode = strip_casts(ro[0].args[2]).get('s') if ro else None
    ctx.ob('C17.4', mode == 'r', f.name, 'the original is opened read-only', ro[0].where() if ro else f.where(), 'mode %r' % mode)
    # ---- C17.5
    wr = P.fn('wr_data', 'src/wr_fsr.c')
    can_omit = any(ev.k == 'store' and strip_casts(ev.store_parts()[0]).get('name') == 'pos' and const_of(ev.store_parts()[1]) == 0 for ev in wr.events())
    for tag in ('JLS_TAG_TRACK_FSR_INDEX', 'JLS_TAG_TRACK_FSR_SUMMARY'):
        region = [ev for ev in ser.case_region(f, 'tag', tags[tag]) if ev.k in ('call', 'store', 'decl')]
        # the case block may be shared with following code after `break`: count only events dominated by the case block and before the break
        blk = cases.get(tags[tag])
        own = [ev for ev in (blk.events if blk is not None else []) if ev.k in ('call', 'store', 'decl')]
        ok = (not can_omit) or bool(own)
        ctx.ob('C17.5', ok, f.name, 'case %s consumes the chunk' % tag, '%s:%d' % (f.file, blk.line if blk else 0),
               'handled' if ok else 'the case is empty: level-0 blocks the writer omitted (constant <= 8-bit blocks, jls_wr_fsr_omit_data) exist only as level-1 summaries, so the copy has a gap (fill values) where the original reads back data')

    # ---- C17.6 (grow-to-fit at the copy's read site, shared engine with C10.8)
    from .c10b import r8

    class Sub:
        def __init__(self, ctx):
            self.ctx = ctx

        def __getattr__(self, k):
            return getattr(self.ctx, k)

        def ob(self, rid, ok, fn, construct, where='', detail='', witness=None):
            if fn == 'jls_copy':
                return self.ctx.ob('C17.6', ok, fn, construct, where, detail, witness)
            return ok

        def floor(self, *a):
            pass

        def note(self, *a):
            pass
    r8(Sub(ctx), P, rule='C17.6')
    # ---- C17.7 guards of the re-issue calls
    from ..graph import control_deps_transitive, cond_facts, dominators
    INV = P.enum_consts['JLS_STORAGE_TYPE_INVALID']
    dom = dominators(f)
    for tag, (callee, rec) in want.items():
        blk = cases.get(tags[tag])
        if blk is None:
            continue
        for c in [ev for ev in ser.case_region(f, 'tag', tags[tag]) if ev.k == 'call' and ev.callee == callee]:
            bad = []
            for (bid, label) in control_deps_transitive(f, c.block.id):
                if bid not in dom or blk.id not in dom[bid]:
                    continue          # condition outside this case
                cnd = f.blocks[bid].cond
                e = strip_casts(cnd) if cnd else None
                if e is None:
                    continue
                if e.get('op') == 'ref' and e.get('name') in ('rc', 'rc__'):
                    continue
                ok = False
                if e.get('op') == 'bin' and e['o'] in ('!=', '=='):
                    l, r_ = strip_casts(e['k'][0]), strip_casts(e['k'][1])
                    cv = const_of(r_) if const_of(r_) is not None else const_of(l)
                    other = l if const_of(r_) is not None else r_
                    if tag == 'JLS_TAG_USER_DATA':
                        # the tested value is the storage type: derived from chunk_meta >> 12
                        is_st = df.derives(f, other, lambda nd: nd.get('op') == 'bin' and nd['o'] == '>>' and const_of(nd['k'][1]) == 12, f.blocks[bid], len(f.blocks[bid].events))
                        ok = is_st and cv == INV
                    else:
                        fld = 'source_id' if 'SOURCE' in tag else 'signal_id'
                        ok = any(nd.get('op') == 'member' and nd.get('field') == fld for nd in walk(other)) and cv == 0
                if not ok:
                    bad.append(show(e)[:60])
            ctx.ob('C17.7', not bad, f.name, '%s is skipped only for the writer\'s own reserved item' % tag, c.where(),
                   'guards: reserved item only' if not bad else 'the re-issue is also skipped under %s: such items silently disappear from the copy' % bad)
    # ... and every chunk that was read reaches the dispatch: nothing about the chunk itself decides that
    hdr_tests = []
    rdh = list(f.calls('jls_raw_rd_header'))
    if not rdh:
        raise AnalysisBroken('jls_copy: header read not found')
    between = set()
    work = [c_.block for c_ in rdh]
    while work:
        b_ = work.pop()
        if b_.id in between or b_.id == sw.id:
            continue
        between.add(b_.id)
        work.extend(s_ for s_, _ in b_.succs)
    for (bid, label) in control_deps_transitive(f, sw.id):
        cnd = f.blocks[bid].cond
        if cnd is None or bid not in between:
            continue
        for nd in walk(cnd):
            if nd.get('op') == 'member' and nd.get('rec') == 'jls_chunk_header_s':
                hdr_tests.append((f.blocks[bid], show(strip_casts(cnd))[:60]))
                break
    ctx.ob('C17.7', not hdr_tests, f.name, 'every chunk read reaches the dispatch', '%s:%d' % (f.file, (hdr_tests[0][0] if hdr_tests else sw).line),
           'the dispatch depends on read results only' if not hdr_tests else
           'whether a chunk reaches the dispatch depends on %s: content chunks for which it decides otherwise (a user-data item with an empty payload) silently disappear from the copy' % ', '.join(x[1] for x in hdr_tests))
    _late()


def unclosed_listing_rule(ctx, P, rule):
    from ..ir import strip_casts, const_of
    kinds = (('ANNOTATION', 'jls_core_annotations'), ('UTC', 'jls_core_utc'))
    op = P.fn('jls_rd_open')
    reach = P.reachable_from(['jls_rd_open'])
    for kind, reader in kinds:
        r = P.fn(reader)
        ctx.saw(r)
        seeks = list(r.calls('jls_core_ts_seek'))
        if not seeks:
            raise AnalysisBroken('%s: no jls_core_ts_seek' % reader)
        levels = {const_of(strip_casts(c.args[2])) for c in seeks}
        rebuilt = any(('repair' in name and kind.lower() in name.lower()) for name in reach)
        ok = levels == {0} or rebuilt
        ctx.ob(rule, ok, reader, '%s entries written after the last committed index' % kind, seeks[0].where(),
               'the reader starts at level 0 and follows the DATA chunk chain' if levels == {0} else
               ('repair rebuilds the %s index' % kind if rebuilt else
                'the reader starts at index level %s and follows the chain of committed INDEX/SUMMARY chunks; repair does not rebuild the %s index, so entries written after the last committed index of an unclosed file are not listed by its reader, while jls_copy - which walks the DATA chunks - re-issues them: original and copy differ' % (sorted(levels), kind)))



def copy_loop_rule(ctx, P, rule):
    from ..fd import FD, Top
    from ..graph import loops
    fn = P.fn('jls_copy')
    fd = FD(P)
    hdr = P.record('jls_chunk_header_s')['size']
    # the loop that reads chunk headers
    heads = [b for b in fn.blocks.values() if b.cond is not None and any(m.get('op') == 'ref' and m.get('name') == 'offset_end' for m in walk(b.cond))]
    if not heads:
        raise AnalysisBroken('jls_copy: loop over the chunks (offset < offset_end) not found')
    n = 0
    for b in heads:
        n += 1
        bad = []
        for left in (hdr, hdr + 8, 4096):
            try:
                v = fd.ev(fn, b.cond, {'offset': 1000, 'offset_end': 1000 + left})
            except (Top, ZeroDivisionError):
                raise AnalysisBroken('jls_copy: loop condition %s not evaluable' % show(b.cond))
            if not v:
                bad.append(left)
        ctx.ob(rule, not bad, fn.name, 'loop condition %s' % show(b.cond)[:50], b.events[-1].where() if b.events else fn.where(),
               'holds with 32, 40 and 4096 bytes left' if not bad else
               'false with %s bytes left: the last chunk of an unclosed original, when it has no payload (an empty user-data item), is not copied' % bad)
    ctx.floor('chunk loops of jls_copy', n, 1)
