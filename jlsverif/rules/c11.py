"""C11 — annotations round-trip in order and seeking omits nothing (narrow: shape clauses only)."""
from ..export import AnalysisBroken
from ..ir import strip_casts, const_of, walk, show, kids
from ..graph import find_path, ret_class, ev_dominates, control_deps_transitive, cond_facts
from .. import ser, df
from .c05 import r6 as adjacency_rule

EXPL = ('Shape clauses of C11 only: the annotation payload serializer matches the struct the reader casts to (every field "exactly as '
        'written"); the iteration stops when the callback asks to; the sample-id offset added before the seek is the one subtracted '
        'before delivery; the iteration follows item_next from the seek point, checks the tag of every delivered chunk and hands the '
        'callback the chunk just read; the index entry recorded for an annotation carries its timestamp and its chunk offset; INDEX is '
        'followed by SUMMARY in the time-series writer.')
NOT_DECIDED = ('Which index entry the seek chooses for equal timestamps and ordering are value semantics of a search over runtime data: not decided by a rule (the defect found there was repaired after a replay sweep).')


def run(ctx, sess):
    ctx.explanation = EXPL
    ctx.not_decided = NOT_DECIDED
    P = sess.prog('default')
    ctx.rule('C11.1', 'the serialized annotation payload has each field at the offset of the like-named field of struct jls_annotation_s')
    ctx.rule('C11.2', 'a callback that asks to stop ends the iteration: its non-zero edge reaches a return without another callback invocation')
    ctx.rule('C11.3', 'offset symmetry: the value added to the requested timestamp before the seek is the value subtracted from each delivered timestamp')
    ctx.rule('C11.4', 'iteration: from the seek point follow item_next until 0, verify the tag of every chunk, deliver the chunk just read')
    ctx.rule('C11.5', 'the index entry recorded for an annotation carries its timestamp and the offset of its chunk')
    ctx.rule('C11.7', 'sample-id frames: the signal\'s sample_id_offset is applied exactly once to each value (added to an api id, subtracted from a file id) and no compare mixes an api-relative id with a file id (forward dataflow over every reader function that mentions the offset)')
    ctx.rule('C11.8', 'nothing indexed is dropped: the time-series commit returns without writing its INDEX only when the index holds no entry (or its buffers do not exist)')
    ctx.rule('C11.6', 'INDEX is immediately followed by its SUMMARY in the time-series writer')
    w = P.fn('jls_wr_annotation')
    r = P.fn('jls_core_annotations')
    ctx.saw(w)
    ctx.saw(r)
    # ---- C11.1
    seq = ser.sequence(w, [ev for ev in w.calls() if ev.callee in ser.WR])
    lay = ser.layout_of(seq)
    offs = {f['name']: (f['off_bits'] // 8, f['size_bits'] // 8 if 'size_bits' in f else None) for f in P.record('jls_annotation_s')['fields']}
    n = 0
    for off, kind, width, name in lay:
        if name in offs and kind != 'pad':
            n += 1
            ctx.ob('C11.1', offs[name][0] == off and (offs[name][1] in (None, width)), w.name, 'field %s' % name, w.where(),
                   'serializer offset %d width %d, struct offset %d width %s' % (off, width, offs[name][0], offs[name][1]))
    ctx.floor('annotation fields matched by name', n, 5)
    named = set(name for _, kind, _, name in lay if kind != 'pad')
    for need in ('timestamp', 'annotation_type', 'storage_type', 'group_id', 'y'):
        ctx.ob('C11.1', need in named, w.name, '%s is serialized' % need, w.where(), '')
    # ---- C11.2 / C11.4
    cbs = [ev for ev in r.events('call') if ev.callee is None]
    if not cbs:
        raise AnalysisBroken('callback invocation not found in jls_core_annotations')
    for cb in cbs:
        from ..guard import zero_edges_of_call
        from .common import nonzero_starts
        st = nonzero_starts(r, cb)
        if not st or st == 'returned':
            ctx.ob('C11.2', False, r.name, 'callback result is tested', cb.where(), 'result not tested')
            continue
        bad = None
        for start, facts in st:
            bad = bad or find_path(r, start, lambda e2, facts_: 'target' if (e2.k == 'call' and e2.callee is None) else None, start_facts=facts)
        ctx.ob('C11.2', bad is None, r.name, 'stop request ends the iteration', cb.where(),
               'no further callback after a non-zero result' if bad is None else 'the callback is invoked again after it asked to stop', bad.render() if bad else None)
        # delivered object: the chunk just read
        a = strip_casts(cb.args[1]) if len(cb.args) > 1 else None
        ok = a is not None and a.get('op') == 'ref'
        if ok:
            defs, _ = df.reaching_defs(r, a['name'], cb.block, cb.idx)
            ok = bool(defs) and all(any(nd.get('op') == 'member' and nd.get('field') == 'start' for nd in walk(d.store_parts()[1] or {})) for d in defs)
            rd = [c for c in r.calls('jls_core_rd_chunk') if ev_dominates(c, cb)]
            ok = ok and bool(rd)
        ctx.ob('C11.4', ok, r.name, 'the callback receives the chunk just read', cb.where(), '')
        # tag check between read and delivery
        tag_edges = set()
        TAG = P.enum_consts['JLS_TAG_TRACK_ANNOTATION_DATA']
        for b in r.blocks.values():
            from .common import compare_info
            ci = compare_info(b.cond)
            if ci is not None:
                l, rr, eq = ci
                for x, y in ((l, rr), (rr, l)):
                    p = r.path(strip_casts(x))
                    if p is not None and p.last_field() == 'tag' and const_of(y) == TAG:
                        tag_edges.add((b.id, eq))
        wt = find_path(r, 'entry', lambda e2, facts: 'target' if e2 is cb else None, edge_ok=lambda b, s, label: (b.id, label) not in tag_edges, refine=False)
        ctx.ob('C11.4', wt is None and bool(tag_edges), r.name, 'only ANNOTATION_DATA chunks are delivered', cb.where(),
               'tag compared on every path to the callback' if (wt is None and tag_edges) else 'a chunk of another kind can be delivered as an annotation')
    # loop follows item_next
    posdefs = [ev for ev in r.stores() if strip_casts(ev.store_parts()[0]).get('name') == 'pos']
    nxt = [ev for ev in posdefs if r.path(strip_casts(ev.store_parts()[1])) is not None and r.path(strip_casts(ev.store_parts()[1])).last_field() == 'item_next']
    first = [ev for ev in posdefs if any(nd.get('op') == 'call' and nd.get('callee') == 'jls_raw_chunk_tell' for nd in walk(ev.store_parts()[1] or {}))]
    seeks = list(r.calls('jls_core_ts_seek'))
    ok = bool(nxt) and bool(first) and bool(seeks) and all(ev_dominates(seeks[0], f_) for f_ in first)
    ctx.ob('C11.4', ok, r.name, 'start at the seek position, continue with item_next', r.where(), 'pos = tell() after jls_core_ts_seek, then pos = item_next: %s' % ok)
    # the seek is for the annotation track at level 0
    if seeks:
        a = seeks[0].args
        okk = const_of(a[2]) == 0 and const_of(a[3]) == P.enum_consts['JLS_TRACK_TYPE_ANNOTATION']
        ctx.ob('C11.4', okk, r.name, 'seek on the annotation track down to the data level', seeks[0].where(), 'level %s, track %s' % (const_of(a[2]), const_of(a[3])))
    # ---- C11.3
    added = None
    for ev in r.stores():
        lhs, rhs, o = ev.store_parts()
        if strip_casts(lhs).get('name') == 'timestamp' and o == '+=':
            added = (ev, strip_casts(rhs))
    subbed = None
    for ev in r.stores():
        lhs, rhs, o = ev.store_parts()
        l0 = strip_casts(lhs)
        if l0.get('op') == 'member' and l0.get('field') == 'timestamp' and o == '-=':
            subbed = (ev, strip_casts(rhs))
    ok = added is not None and subbed is not None and added[1].get('op') == 'ref' and subbed[1].get('op') == 'ref' and added[1]['name'] == subbed[1]['name']
    if ok:
        # the variable is not modified in between and comes from the signal's sample_id_offset
        name = added[1]['name']
        defs = [ev for ev in r.stores() if strip_casts(ev.store_parts()[0]).get('name') == name]
        ok = len(defs) == 1 and any(nd.get('op') == 'member' and nd.get('field') == 'sample_id_offset' for nd in walk(defs[0].store_parts()[1] or {}))
        ok = ok and seeks and ev_dominates(added[0], seeks[0])
    ctx.ob('C11.3', bool(ok), r.name, 'same offset added before the seek and subtracted before delivery', r.where(),
           'timestamp += %s ... annotation->timestamp -= %s' % (show(added[1]) if added else '?', show(subbed[1]) if subbed else '?'))
    # ---- C11.5
    ta = [c for c in w.calls('jls_wr_ts_anno')]
    if not ta:
        ctx.ob('C11.5', False, w.name, 'index entry recorded', w.where(), 'jls_wr_ts_anno not called')
    for c in ta:
        a = [strip_casts(x) for x in c.args]
        ts_ok = a[1].get('op') == 'ref' and a[1].get('name') == 'timestamp'
        off_ok = False
        if a[2].get('op') == 'ref':
            defs, _ = df.reaching_defs(w, a[2]['name'], c.block, c.idx)
            off_ok = bool(defs) and all(any(nd.get('op') == 'call' and nd.get('callee') == 'jls_raw_chunk_tell' for nd in walk(d.store_parts()[1] or {})) for d in defs)
            wr = [x for x in w.calls('jls_raw_wr')]
            off_ok = off_ok and bool(wr) and all(ev_dominates(d, wr[0]) for d in defs) and ev_dominates(wr[0], c)
        ctx.ob('C11.5', ts_ok and off_ok, w.name, 'index entry = (timestamp, offset of the chunk just written)', c.where(), 'timestamp: %s, offset taken before the write: %s' % (ts_ok, off_ok))
        # the other summary fields
        g = P.fn('jls_wr_ts_anno')
        bad = []
        for i, p in enumerate(g.params):
            if i < len(a) and a[i].get('op') == 'ref' and p['name'] in ('annotation_type', 'group_id', 'y') and a[i]['name'] != p['name']:
                bad.append('%s <- %s' % (p['name'], a[i]['name']))
        ctx.ob('C11.5', not bad, w.name, 'summary fields passed to the parameter of the same name', c.where(), 'ok' if not bad else str(bad))
    # ---- C11.6
    class Sub:
        def __init__(self, ctx):
            self.ctx = ctx
        def __getattr__(self, k):
            return getattr(self.ctx, k)
        def ob(self, rid, ok, fn, construct, where='', detail='', witness=None):
            if where.startswith('src/wr_ts.c'):
                return self.ctx.ob('C11.6', ok, fn, construct, where, detail, witness)
            return ok
        def floor(self, *a):
            pass
    adjacency_rule(Sub(ctx), P)
    from .frames import frames_rule
    frames_rule(ctx, P, 'C11.7')
    pending_index_rule(ctx, P, 'C11.8', ('src/wr_ts.c',))


def pending_index_rule(ctx, P, rule, files):
    """an index that holds entries is written, unless its single entry is the first chunk of the level below
    (reachable through that level's own track head)"""
    from ..graph import cond_facts
    n = 0
    for fn in P.all_functions():
        if fn.file not in files:
            continue
        # functions that write an INDEX chunk together with its SUMMARY
        idx_calls = [c for c in fn.calls() if c.callee == 'jls_core_wr_index' or
                     (c.callee in P.functions and P.functions[c.callee].file == fn.file and
                      any(c2.callee == 'jls_core_wr_index' for c2 in P.functions[c.callee].calls()) and
                      not any(c2.callee == 'jls_core_wr_summary' for c2 in P.functions[c.callee].calls()))]
        if not idx_calls or not any(c.callee == 'jls_core_wr_summary' for c in fn.calls()):
            continue
        n += 1
        ctx.saw(fn, 1)
        empty_edges, single_edges, nohead_edges, null_edges = set(), set(), set(), set()
        for b in fn.blocks.values():
            if b.cond is None or len(b.succs) < 2:
                continue
            for label in ('T', 'F'):
                for (var, kind, c) in cond_facts(fn, b.cond, label):
                    v = str(var)
                    if 'index' in v and v.endswith('entry_count'):
                        if kind == 'eq' and c == 0:
                            empty_edges.add((b.id, label))
                        if (kind == 'le' and c <= 1) or (kind == 'lt' and c <= 2) or (kind == 'eq' and c in (0, 1)):
                            single_edges.add((b.id, label))
                    if 'head_offsets' in v and kind == 'eq' and c == 0:
                        nohead_edges.add((b.id, label))
                    if kind == 'eq' and c == 0 and not v.endswith('entry_count') and 'head_offsets' not in v and ('index' in v or 'summary' in v or 'level' in v or v == 'dst'):
                        null_edges.add((b.id, label))
            # compares the fact extractor does not normalise:  x <= 1,  0 == y
            e = strip_casts(b.cond)
            if e.get('op') == 'bin' and e['o'] in ('<=', '<', '==', '>', '>='):
                l, r = e['k']
                for x, y, flip in ((l, r, False), (r, l, True)):
                    cy = const_of(y)
                    xs = show(x)
                    if cy is None:
                        continue
                    o = e['o']
                    if flip:
                        o = {'<': '>', '>': '<', '<=': '>=', '>=': '<=', '==': '=='}[o]
                    if 'index' in xs and xs.endswith('entry_count'):
                        if (o == '<=' and cy <= 1) or (o == '<' and cy <= 2):
                            single_edges.add((b.id, 'T'))
                        if (o == '>' and cy <= 1) or (o == '>=' and cy <= 2):
                            single_edges.add((b.id, 'F'))
                    if 'head_offsets' in xs and o == '==' and cy == 0:
                        nohead_edges.add((b.id, 'T'))
        wrote = set(id(c) for c in idx_calls)

        def search(forbidden):
            return find_path(fn, 'entry', lambda ev, facts: 'stop' if id(ev) in wrote else
                             ('target' if (ev.k == 'ret' and ret_class(fn, ev, facts) in ('zero', 'unknown')) else None),
                             edge_ok=lambda b, s, label: (b.id, label) not in forbidden)
        # a success return without the write must have seen: index empty / buffers missing, or (single entry and no chunk of this level on disk)
        w = search(empty_edges | null_edges | single_edges) or search(empty_edges | null_edges | nohead_edges)
        ctx.ob(rule, w is None and bool(empty_edges), fn.name, 'pending index entries are written', fn.where(),
               'returns without writing only when the index is empty%s' % (' or its single entry is the first chunk of the level below' if single_edges and nohead_edges else '') if (w is None and empty_edges) else
               'a success return leaves index entries unwritten (they are the only reference to chunks of the level below): those chunks cannot be reached by a reader',
               w.render() if w else None)
    ctx.floor('index+summary writers', n, 1)
