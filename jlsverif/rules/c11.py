"""C11 — annotations round-trip in order and seeking omits nothing (narrow: shape clauses only)."""
from ..export import AnalysisBroken
from ..ir import strip_casts, const_of, walk, show, kids
from ..graph import find_path, ret_class, ev_dominates, control_deps_transitive, cond_facts
from .. import ser, df
from .c05 import r6 as adjacency_rule

EXPL = ('Shape clauses of C11 only: the annotation payload serializer matches the struct the reader casts to (every field "exactly as '
        'written"); the iteration stops when the callback asks to; the sample-id offset added before the seek is the one subtracted '
        'before delivery; the iteration follows item_next from the seek point, checks the tag of every delivered chunk and hands the '
        'callback the chunk just read; the index entry recorded for an annotation carries its timestamp and its chunk offset; INDEX is '
        'followed by SUMMARY in the time-series writer.')
NOT_DECIDED = ('Which index entry the seek chooses for equal timestamps and ordering are value semantics of a search over runtime data: not decided by a rule (the defect found there was repaired after a replay sweep).')


def run(ctx, sess):
    ctx.explanation = EXPL
    ctx.not_decided = NOT_DECIDED
    P = sess.prog('default')
    ctx.rule('C11.1', 'the serialized annotation payload has each field at the offset of the like-named field of struct jls_annotation_s')
    ctx.rule('C11.2', 'a callback that asks to stop ends the iteration: its non-zero edge reaches a return without another callback invocation')
    ctx.rule('C11.3', 'offset symmetry: the value added to the requested timestamp before the seek is the value subtracted from each delivered timestamp')
    ctx.rule('C11.4', 'iteration: from the seek point follow item_next until 0, verify the tag of every chunk, deliver the chunk just read')
    ctx.rule('C11.5', 'the index entry recorded for an annotation carries its timestamp and the offset of its chunk')
    ctx.rule('C11.7', 'sample-id frames: the signal\'s sample_id_offset is applied exactly once to each value (added to an api id, subtracted from a file id) and no compare mixes an api-relative id with a file id (forward dataflow over the annotation reader)')
    ctx.rule('C11.8', 'nothing indexed is dropped: the time-series commit returns without writing its INDEX only when the index holds no entry (or its buffers do not exist)')
    ctx.rule('C11.9', '"including all that share the same timestamp": the index-entry selection of jls_core_ts_seek either probes the entries in index order, or (any other search order, e.g. bisection) never leaves the search on an entry that is only known to equal the requested timestamp (the orderings <, =, > of the probed entry are tracked along the selection loop)')
    ctx.rule('C11.10', '"negative/offset ids": no annotation is refused because of the value of its timestamp: in jls_wr_annotation, jls_wr_ts_anno, jls_twr_annotation and the helpers they hand the timestamp to, no error return is control dependent on a condition over the timestamp - except an order check against the previous timestamp whose remembered value starts at INT64_MIN')
    ctx.rule('C11.12', 'upper index levels are keyed by the index below: in the time-series commit the timestamp stored into an entry of the level above is read from an index entry (struct jls_index_entry_s) of the level being committed - the entries that were just written as its INDEX chunk - not from its summary, whose entries are not carried upward at close')
    ctx.rule('C11.13', 'an annotation is delivered from the chunk just read: the annotation reader uses bytes of the read buffer only after a successful checked read on the same path, and through the buffer pointer as it is after that read (shared with C04.8) - a pointer taken before a read that can grow the buffer is stale')
    ctx.rule('C11.14', 'on an index entry equal to the requested timestamp the seek steps back one entry at every index level above 1 (the level condition of the step is evaluated for levels 2..15): the chunk before may end with the same timestamp')
    ctx.rule('C11.16', 'a level is committed by the commit that fills it: in the time-series commit, every path from the append of an entry to the level above to a successful return passes the test of that level for being full (which leads to its own commit) - a level left full is flushed at close without an entry in a level above (close allocates no level), and the chunk of that level written next cannot be reached from the top')
    ctx.rule('C11.15', 'close writes every level: jls_wr_ts_close commits each index level 1..JLS_SUMMARY_LEVEL_COUNT-1 itself (a level that is empty returns early and cannot be relied upon to pass the close on to the levels above)')
    ctx.rule('C11.6', 'INDEX is immediately followed by its SUMMARY in the time-series writer')
    w = P.fn('jls_wr_annotation')
    r = P.fn('jls_core_annotations')
    ctx.saw(w)
    ctx.saw(r)
    # ---- C11.1
    seq = ser.sequence(w, [ev for ev in w.calls() if ev.callee in ser.WR])
    lay = ser.layout_of(seq)
    offs = {f['name']: (f['off_bits'] // 8, f['size_bits'] // 8 if 'size_bits' in f else None) for f in P.record('jls_annotation_s')['fields']}
    n = 0
    for off, kind, width, name in lay:
        if name in offs and kind != 'pad':
            n += 1
            ctx.ob('C11.1', offs[name][0] == off and (offs[name][1] in (None, width)), w.name, 'field %s' % name, w.where(),
                   'serializer offset %d width %d, struct offset %d width %s' % (off, width, offs[name][0], offs[name][1]))
    ctx.floor('annotation fields matched by name', n, 5)
    named = set(name for _, kind, _, name in lay if kind != 'pad')
    for need in ('timestamp', 'annotation_type', 'storage_type', 'group_id', 'y'):
        ctx.ob('C11.1', need in named, w.name, '%s is serialized' % need, w.where(), '')
    # ---- C11.2 / C11.4
    cbs = [ev for ev in r.events('call') if ev.callee is None]
    if not cbs:
        raise AnalysisBroken('callback invocation not found in jls_core_annotations')
    for cb in cbs:
        from ..guard import zero_edges_of_call
        from .common import nonzero_starts
        st = nonzero_starts(r, cb)
        if not st or st == 'returned':
            ctx.ob('C11.2', False, r.name, 'callback result is tested', cb.where(), 'result not tested')
            continue
        bad = None
        for start, facts in st:
            bad = bad or find_path(r, start, lambda e2, facts_: 'target' if (e2.k == 'call' and e2.callee is None) else None, start_facts=facts)
        ctx.ob('C11.2', bad is None, r.name, 'stop request ends the iteration', cb.where(),
               'no further callback after a non-zero result' if bad is None else 'the callback is invoked again after it asked to stop', bad.render() if bad else None)
        # delivered object: the chunk just read
        a = strip_casts(cb.args[1]) if len(cb.args) > 1 else None
        ok = a is not None and a.get('op') == 'ref'
        if ok:
            defs, _ = df.reaching_defs(r, a['name'], cb.block, cb.idx)
            ok = bool(defs) and all(any(nd.get('op') == 'member' and nd.get('field') == 'start' for nd in walk(d.store_parts()[1] or {})) for d in defs)
            rd = [c for c in r.calls('jls_core_rd_chunk') if ev_dominates(c, cb)]
            ok = ok and bool(rd)
        ctx.ob('C11.4', ok, r.name, 'the callback receives the chunk just read', cb.where(), '')
        # tag check between read and delivery
        tag_edges = set()
        TAG = P.enum_consts['JLS_TAG_TRACK_ANNOTATION_DATA']
        for b in r.blocks.values():
            from .common import compare_info
            ci = compare_info(b.cond)
            if ci is not None:
                l, rr, eq = ci
                for x, y in ((l, rr), (rr, l)):
                    p = r.path(strip_casts(x))
                    if p is not None and p.last_field() == 'tag' and const_of(y) == TAG:
                        tag_edges.add((b.id, eq))
        wt = find_path(r, 'entry', lambda e2, facts: 'target' if e2 is cb else None, edge_ok=lambda b, s, label: (b.id, label) not in tag_edges, refine=False)
        ctx.ob('C11.4', wt is None and bool(tag_edges), r.name, 'only ANNOTATION_DATA chunks are delivered', cb.where(),
               'tag compared on every path to the callback' if (wt is None and tag_edges) else 'a chunk of another kind can be delivered as an annotation')
    # loop follows item_next
    posdefs = [ev for ev in r.stores() if strip_casts(ev.store_parts()[0]).get('name') == 'pos']
    nxt = [ev for ev in posdefs if r.path(strip_casts(ev.store_parts()[1])) is not None and r.path(strip_casts(ev.store_parts()[1])).last_field() == 'item_next']
    first = [ev for ev in posdefs if any(nd.get('op') == 'call' and nd.get('callee') == 'jls_raw_chunk_tell' for nd in walk(ev.store_parts()[1] or {}))]
    seeks = list(r.calls('jls_core_ts_seek'))
    ok = bool(nxt) and bool(first) and bool(seeks) and all(ev_dominates(seeks[0], f_) for f_ in first)
    ctx.ob('C11.4', ok, r.name, 'start at the seek position, continue with item_next', r.where(), 'pos = tell() after jls_core_ts_seek, then pos = item_next: %s' % ok)
    # the seek is for the annotation track at level 0
    if seeks:
        a = seeks[0].args
        okk = const_of(a[2]) == 0 and const_of(a[3]) == P.enum_consts['JLS_TRACK_TYPE_ANNOTATION']
        ctx.ob('C11.4', okk, r.name, 'seek on the annotation track down to the data level', seeks[0].where(), 'level %s, track %s' % (const_of(a[2]), const_of(a[3])))
    # ---- C11.3
    added = None
    for ev in r.stores():
        lhs, rhs, o = ev.store_parts()
        if strip_casts(lhs).get('name') == 'timestamp' and o == '+=':
            added = (ev, strip_casts(rhs))
    subbed = None
    for ev in r.stores():
        lhs, rhs, o = ev.store_parts()
        l0 = strip_casts(lhs)
        if l0.get('op') == 'member' and l0.get('field') == 'timestamp' and o == '-=':
            subbed = (ev, strip_casts(rhs))
    ok = added is not None and subbed is not None and added[1].get('op') == 'ref' and subbed[1].get('op') == 'ref' and added[1]['name'] == subbed[1]['name']
    if ok:
        # the variable is not modified in between and comes from the signal's sample_id_offset
        name = added[1]['name']
        defs = [ev for ev in r.stores() if strip_casts(ev.store_parts()[0]).get('name') == name]
        ok = len(defs) == 1 and any(nd.get('op') == 'member' and nd.get('field') == 'sample_id_offset' for nd in walk(defs[0].store_parts()[1] or {}))
        ok = ok and seeks and ev_dominates(added[0], seeks[0])
    ctx.ob('C11.3', bool(ok), r.name, 'same offset added before the seek and subtracted before delivery', r.where(),
           'timestamp += %s ... annotation->timestamp -= %s' % (show(added[1]) if added else '?', show(subbed[1]) if subbed else '?'))
    # ---- C11.5
    ta = [c for c in w.calls('jls_wr_ts_anno')]
    if not ta:
        ctx.ob('C11.5', False, w.name, 'index entry recorded', w.where(), 'jls_wr_ts_anno not called')
    for c in ta:
        a = [strip_casts(x) for x in c.args]
        ts_ok = a[1].get('op') == 'ref' and a[1].get('name') == 'timestamp'
        from .c14 import _written_offset_value
        off_ok = _written_offset_value(w, c, a[2])[0]
        ctx.ob('C11.5', ts_ok and off_ok, w.name, 'index entry = (timestamp, offset of the chunk just written)', c.where(), 'timestamp: %s, offset taken before the write: %s' % (ts_ok, off_ok))
        # the other summary fields
        g = P.fn('jls_wr_ts_anno')
        bad = []
        for i, p in enumerate(g.params):
            if i < len(a) and a[i].get('op') == 'ref' and p['name'] in ('annotation_type', 'group_id', 'y') and a[i]['name'] != p['name']:
                bad.append('%s <- %s' % (p['name'], a[i]['name']))
        ctx.ob('C11.5', not bad, w.name, 'summary fields passed to the parameter of the same name', c.where(), 'ok' if not bad else str(bad))
    # ---- C11.6
    class Sub:
        def __init__(self, ctx):
            self.ctx = ctx
        def __getattr__(self, k):
            return getattr(self.ctx, k)
        def ob(self, rid, ok, fn, construct, where='', detail='', witness=None):
            if where.startswith('src/wr_ts.c'):
                return self.ctx.ob('C11.6', ok, fn, construct, where, detail, witness)
            return ok
        def floor(self, *a):
            pass
    adjacency_rule(Sub(ctx), P)
    from .frames import frames_rule
    frames_rule(ctx, P, 'C11.7', kinds=('annotation',), minimum=1)
    pending_index_rule(ctx, P, 'C11.8', ('src/wr_ts.c',))
    seek_first_equal_rule(ctx, P, 'C11.9')
    no_timestamp_rejection_rule(ctx, P, 'C11.10')
    upper_key_rule(ctx, P, 'C11.12')
    step_back_rule(ctx, P, 'C11.14')
    close_levels_rule(ctx, P, 'C11.15')
    eager_commit_rule(ctx, P, 'C11.16')
    from .c04 import _freshness
    from .common import exceptions
    _freshness(ctx, P, exceptions('C04'), rule='C11.13', only=lambda n: 'annotation' in n, minimum=1)


def pending_index_rule(ctx, P, rule, files):
    """an index that holds entries is written, unless its single entry is the first chunk of the level below
    (reachable through that level's own track head)"""
    from ..graph import cond_facts
    n = 0
    for fn in P.all_functions():
        if fn.file not in files:
            continue
        # functions that write an INDEX chunk together with its SUMMARY
        idx_calls = [c for c in fn.calls() if c.callee == 'jls_core_wr_index' or
                     (c.callee in P.functions and P.functions[c.callee].file == fn.file and
                      any(c2.callee == 'jls_core_wr_index' for c2 in P.functions[c.callee].calls()) and
                      not any(c2.callee == 'jls_core_wr_summary' for c2 in P.functions[c.callee].calls()))]
        if not idx_calls or not any(c.callee == 'jls_core_wr_summary' for c in fn.calls()):
            continue
        n += 1
        ctx.saw(fn, 1)
        empty_edges, single_edges, nohead_edges, null_edges = set(), set(), set(), set()
        for b in fn.blocks.values():
            if b.cond is None or len(b.succs) < 2:
                continue
            for label in ('T', 'F'):
                for (var, kind, c) in cond_facts(fn, b.cond, label):
                    v = str(var)
                    if 'index' in v and v.endswith('entry_count'):
                        if kind == 'eq' and c == 0:
                            empty_edges.add((b.id, label))
                        if (kind == 'le' and c <= 1) or (kind == 'lt' and c <= 2) or (kind == 'eq' and c in (0, 1)):
                            single_edges.add((b.id, label))
                    if 'head_offsets' in v and kind == 'eq' and c == 0:
                        nohead_edges.add((b.id, label))
                    if kind == 'eq' and c == 0 and not v.endswith('entry_count') and 'head_offsets' not in v and ('index' in v or 'summary' in v or 'level' in v or v == 'dst'):
                        null_edges.add((b.id, label))
            # compares the fact extractor does not normalise:  x <= 1,  0 == y
            e = strip_casts(b.cond)
            if e.get('op') == 'bin' and e['o'] in ('<=', '<', '==', '>', '>='):
                l, r = e['k']
                for x, y, flip in ((l, r, False), (r, l, True)):
                    cy = const_of(y)
                    xs = show(x)
                    if cy is None:
                        continue
                    o = e['o']
                    if flip:
                        o = {'<': '>', '>': '<', '<=': '>=', '>=': '<=', '==': '=='}[o]
                    if 'index' in xs and xs.endswith('entry_count'):
                        if (o == '<=' and cy <= 1) or (o == '<' and cy <= 2):
                            single_edges.add((b.id, 'T'))
                        if (o == '>' and cy <= 1) or (o == '>=' and cy <= 2):
                            single_edges.add((b.id, 'F'))
                    if 'head_offsets' in xs and o == '==' and cy == 0:
                        nohead_edges.add((b.id, 'T'))
        wrote = set(id(c) for c in idx_calls)

        def search(forbidden):
            return find_path(fn, 'entry', lambda ev, facts: 'stop' if id(ev) in wrote else
                             ('target' if (ev.k == 'ret' and ret_class(fn, ev, facts) in ('zero', 'unknown')) else None),
                             edge_ok=lambda b, s, label: (b.id, label) not in forbidden)
        # a success return without the write must have seen: index empty / buffers missing, or (single entry and no chunk of this level on disk)
        w = search(empty_edges | null_edges | single_edges) or search(empty_edges | null_edges | nohead_edges)
        ctx.ob(rule, w is None and bool(empty_edges), fn.name, 'pending index entries are written', fn.where(),
               'returns without writing only when the index is empty%s' % (' or its single entry is the first chunk of the level below' if single_edges and nohead_edges else '') if (w is None and empty_edges) else
               'a success return leaves index entries unwritten (they are the only reference to chunks of the level below): those chunks cannot be reached by a reader',
               w.render() if w else None)
    ctx.floor('index+summary writers', n, 1)


def seek_first_equal_rule(ctx, P, rule):
    """the index-entry selection of jls_core_ts_seek lands on the first of a run of equal timestamps"""
    fn = P.fn('jls_core_ts_seek')
    ctx.saw(fn)
    target = fn.params[4]['name'] if len(fn.params) > 4 else 'timestamp'
    if not any(p['name'] == 'timestamp' for p in fn.params):
        raise AnalysisBroken('jls_core_ts_seek: no timestamp parameter')
    target = 'timestamp'

    def probe_of(e):
        """index expression X when e is entries[X].timestamp (directly or through a single-definition local)"""
        e = strip_casts(e)
        if e.get('op') == 'member' and e.get('field') == 'timestamp':
            for nd in walk(e['k'][0]):
                if nd.get('op') == 'sub' and any(m.get('op') == 'member' and m.get('field') == 'entries' for m in walk(nd['k'][0])):
                    return strip_casts(nd['k'][1])
        if e.get('op') == 'ref' and e.get('rk') == 'local':
            defs = [d for d in fn.events() if (d.k == 'decl' and d.name == e['name'] and d.e is not None) or
                    (d.k == 'store' and strip_casts(d.store_parts()[0]).get('name') == e['name'])]
            if len(defs) == 1:
                rhs = defs[0].e if defs[0].k == 'decl' else defs[0].store_parts()[1]
                if rhs is not None:
                    return probe_of(rhs)
        return None

    # compare blocks: probe value against the requested timestamp; the orderings each edge admits
    cmps = {}
    for b in fn.blocks.values():
        c = strip_casts(b.cond) if b.cond is not None else None
        if c is None or c.get('op') != 'bin' or c['o'] not in ('<', '<=', '>', '>=', '==', '!='):
            continue
        l, r = c['k']
        for x, y, flip in ((l, r, False), (r, l, True)):
            px = probe_of(x)
            if px is None or strip_casts(y).get('name') != target:
                continue
            o = c['o']
            if flip:
                o = {'<': '>', '>': '<', '<=': '>=', '>=': '<=', '==': '==', '!=': '!='}[o]
            t = {'<': {'<'}, '<=': {'<', '='}, '>': {'>'}, '>=': {'>', '='}, '==': {'='}, '!=': {'<', '>'}}[o]
            cmps[b.id] = (t, {'<', '=', '>'} - t, px)
    if not cmps:
        raise AnalysisBroken('jls_core_ts_seek: no compare of an index entry timestamp with the requested timestamp')
    # the loop around the compares
    def reach(src):
        seen, work = set(), [src]
        while work:
            x = work.pop()
            for s, _ in x.succs:
                if s.id not in seen:
                    seen.add(s.id)
                    work.append(s)
        return seen
    reads = {c.block.id for c in fn.calls('jls_core_rd_chunk')}

    def reach_avoiding(src, avoid):
        seen, work = set(), [src]
        while work:
            x = work.pop()
            for s, _ in x.succs:
                if s.id not in seen and s.id not in avoid:
                    seen.add(s.id)
                    work.append(s)
        return seen
    # the selection loop: the cycle through a compare that does not pass the read of the next index chunk
    sel, first = set(), None
    for cb in sorted(cmps):
        fwd2 = reach_avoiding(fn.blocks[cb], reads)
        if cb in fwd2:
            sel |= {bid for bid in fwd2 if cb in reach_avoiding(fn.blocks[bid], reads)}
            first = first or fn.blocks[cb]
    if first is None:
        raise AnalysisBroken('jls_core_ts_seek: the timestamp compares are not inside a selection loop')
    import os
    if os.environ.get('JLS_C11_DEBUG'):
        print('sel', sorted(sel), 'cmps', sorted(cmps), 'first', first.id)
    idx_vars = set()
    for cb, (_, _, px) in cmps.items():
        if cb not in sel:
            continue
        for nd in walk(px):
            if nd.get('op') == 'ref' and nd.get('rk') in ('local', 'param'):
                idx_vars.add(nd['name'])
    # kind of probing: unit-stride scan or something else (bisection)
    steps = []
    for bid in sel:
        for ev in fn.blocks[bid].events:
            if ev.k == 'store' and strip_casts(ev.store_parts()[0]).get('name') in idx_vars:
                steps.append(ev)
    scan = bool(steps) and all(ev.store_parts()[2] in ('pre++', 'post++') or
                               # an adjustment on the way out of the loop
                               not (set(s.id for s, _ in ev.block.succs) & sel and first.id in reach_avoiding(ev.block, reads))
                               for ev in steps) and any(ev.store_parts()[2] in ('pre++', 'post++') for ev in steps)
    if scan:
        ctx.ob(rule, True, fn.name, 'selection among equal timestamps', fn.blocks[first.id].where() if hasattr(fn.blocks[first.id], 'where') else fn.where(),
               'entries are probed in index order (%s advances by one): the first entry of a run of equal timestamps is the one found' % sorted(idx_vars)[0])
        return
    # not a scan: walk the selection loop with the set of orderings still possible for the entry just probed;
    # leaving the loop while only `equal` is possible means the search stopped on an arbitrary member of a run.
    bad = None
    seen = set()
    work = [(bid, frozenset('<=>'), (bid,)) for bid in sorted(sel)]
    while work and bad is None:
        bid, st, trail = work.pop()
        if (bid, st) in seen:
            continue
        seen.add((bid, st))
        b = fn.blocks[bid]
        for s, label in b.succs:
            st2 = st
            if bid in cmps and label in ('T', 'F'):
                st2 = frozenset(st & (cmps[bid][0] if label == 'T' else cmps[bid][1]))
                if not st2:
                    continue
            if s.id not in sel:
                if st2 == frozenset('='):
                    bad = trail + (s.id,)
                    break
                continue
            if any(ev.k in ('store', 'decl') and (ev.name if ev.k == 'decl' else strip_casts(ev.store_parts()[0]).get('name')) in idx_vars for ev in s.events):
                # a new probe index: nothing is known about the next entry
                work.append((s.id, frozenset('<=>'), trail + (s.id,)))
            else:
                work.append((s.id, st2, trail + (s.id,)))
    ctx.ob(rule, bad is None, fn.name, 'selection among equal timestamps', fn.where(),
           'the search never stops on an entry only known to be equal to the requested timestamp' if bad is None else
           'the entries are not probed in index order and the search stops on the first probe that equals the requested timestamp: inside a run of equal timestamps that is an arbitrary member, and the earlier ones are never delivered',
           ' -> '.join('B%d' % x for x in bad) if bad else None)


INT64_MIN = -(1 << 63)


def no_timestamp_rejection_rule(ctx, P, rule, entries=(('jls_wr_annotation', 'timestamp'), ('jls_wr_ts_anno', 'timestamp'), ('jls_twr_annotation', 'timestamp'))):
    """no annotation is refused because of the value of its timestamp (the property quantifies over all
    non-decreasing sequences, negative ones included).  An order check against the previous timestamp is
    accepted when the remembered value starts at INT64_MIN."""
    todo = []
    for name, var in entries:
        fn = P.fn(name)
        if not any(p['name'] == var for p in fn.params):
            raise AnalysisBroken('%s: no parameter `%s`' % (name, var))
        todo.append((fn, var, 0))
    done = set()
    n = 0
    while todo:
        fn, var, depth = todo.pop()
        if (fn.name, var) in done:
            continue
        done.add((fn.name, var))
        ctx.saw(fn)
        n += 1
        # helpers of the same unit that receive the timestamp
        if depth < 2:
            for c in fn.calls():
                g = P.functions.get(c.callee)
                if g is None or g.file != fn.file or not g.static:
                    continue
                for i, a in enumerate(c.args):
                    if strip_casts(a).get('op') == 'ref' and strip_casts(a).get('name') == var and i < len(g.params):
                        todo.append((g, g.params[i]['name'], depth + 1))
        failing = [r for r in fn.returns() if r.e is not None and ret_class(fn, r, frozenset()) != 'zero']
        for b in fn.blocks.values():
            c = strip_casts(b.cond) if b.cond is not None else None
            if c is None or len(b.succs) < 2:
                continue
            if not any(nd.get('op') == 'ref' and nd.get('name') == var for nd in walk(c)):
                continue
            for label in ('T', 'F'):
                # an error return that only this outcome leads to
                rej = [r for r in failing if (b.id, label) in control_deps_transitive(fn, r.block.id) and
                       const_of(strip_casts(r.e)) not in (None, 0)]
                if not rej:
                    continue
                # the accepted form: timestamp < FIELD (T) / timestamp >= FIELD (F), FIELD starting at INT64_MIN
                ok, why = False, 'the outcome %s of `%s` leads to an error return' % (label, show(c)[:60])
                if c.get('op') == 'bin' and c['o'] in ('<', '>=', '>', '<='):
                    l, r = strip_casts(c['k'][0]), strip_casts(c['k'][1])
                    o = c['o']
                    if r.get('name') == var:
                        l, r = r, l
                        o = {'<': '>', '>': '<', '<=': '>=', '>=': '<='}[o]
                    rejects_below = (o == '<' and label == 'T') or (o == '>=' and label == 'F')
                    if l.get('name') == var and r.get('op') == 'member' and rejects_below:
                        field = r.get('field')
                        inits, tracks = [], 0
                        for g in P.all_functions():
                            for ev in g.stores():
                                l2, r2, o2 = ev.store_parts()
                                if strip_casts(l2).get('op') == 'member' and strip_casts(l2).get('field') == field:
                                    if r2 is not None and const_of(r2) is not None:
                                        inits.append(const_of(r2))
                                    else:
                                        tracks += 1
                        if inits and all(v == INT64_MIN for v in inits):
                            ok, why = True, 'order check against %s, which starts at INT64_MIN: no timestamp of a non-decreasing sequence is refused' % field
                        else:
                            why = ('order check against %s, which starts at %s: every timestamp below that start is refused until the sequence reaches it (a non-decreasing sequence that begins with negative timestamps is valid)'
                                   % (field, ('%s' % inits) if inits else "0 (the instance is zero-allocated and the field has no initial store)"))
                ctx.ob(rule, ok, fn.name, 'rejection depending on %s' % var, b.events[-1].where() if b.events else fn.where(), why)
    ctx.ob(rule, True, 'annotation write path', 'functions examined for timestamp-dependent rejections', P.fn(entries[0][0]).where(),
           '%d functions (entries and their helpers receiving the timestamp)' % n)
    ctx.floor('functions of the annotation write path', n, 3)



def upper_key_rule(ctx, P, rule):
    n = 0
    for fn in P.fns_in('src/wr_ts.c'):
        if not any(c.callee == 'jls_core_wr_index' for c in fn.calls()):
            continue
        ctx.saw(fn, 1)
        # pointer locals into the entries of an index one level up:  &<X>->entries[<X>->header.entry_count++]
        ups = set()
        for ev in fn.events():
            if ev.k not in ('decl', 'store') or ev.e is None:
                continue
            rhs = ev.e if ev.k == 'decl' else ev.store_parts()[1]
            name = ev.name if ev.k == 'decl' else strip_casts(ev.store_parts()[0]).get('name')
            r0 = strip_casts(rhs) if rhs is not None else None
            if name and r0 is not None and r0.get('op') == 'un' and r0.get('o') == '&':
                sub = strip_casts(r0['k'][0])
                if sub.get('op') == 'sub' and sub.get('t', '').endswith('jls_index_entry_s') or \
                        (sub.get('op') == 'sub' and any(m.get('op') == 'member' and m.get('field') == 'entries' and 'index' in show(m) for m in walk(sub['k'][0]))):
                    ups.add(name)
        for ev in fn.stores():
            lhs, rhs, o = ev.store_parts()
            l0 = strip_casts(lhs)
            if l0.get('op') != 'member' or l0.get('field') != 'timestamp' or rhs is None:
                continue
            base = strip_casts(l0['k'][0])
            if not (base.get('op') == 'ref' and base.get('name') in ups):
                continue
            n += 1
            r0 = strip_casts(rhs)
            src_rec = r0.get('rec') if r0.get('op') == 'member' else None
            from_index = r0.get('op') == 'member' and (src_rec == 'jls_index_entry_s' or
                                                        (src_rec is None and any(m.get('op') == 'ref' and 'index' in (m.get('name') or '') for m in walk(r0))))
            first = any(m.get('op') == 'sub' and const_of(m['k'][1]) == 0 for m in walk(r0))
            ctx.ob(rule, bool(from_index and first), fn.name, 'key of the entry added to the level above', ev.where(),
                   'first entry of this level\'s index' if (from_index and first) else
                   'the key is %s (record %s): at close a level that was filled only by the close-time propagation has index entries but no summary entries, so the level above is keyed by a stale value and seeks descend into the wrong chunk' % (show(r0)[:50], src_rec))
    ctx.floor('keys propagated to an upper index level', n, 1)


def step_back_rule(ctx, P, rule):
    """on an entry equal to the requested timestamp the search steps back at every index level above 1"""
    from ..fd import FD, Top
    fn = P.fn('jls_core_ts_seek')
    fd = FD(P)
    # the equality compare of an entry timestamp with the requested one
    eqs = []
    for b in fn.blocks.values():
        c = strip_casts(b.cond) if b.cond is not None else None
        if c is not None and c.get('op') == 'bin' and c['o'] == '==' and any(m.get('op') == 'member' and m.get('field') == 'timestamp' for m in walk(c)) and \
                any(m.get('op') == 'ref' and m.get('name') == 'timestamp' for m in walk(c)):
            eqs.append(b)
    if not eqs:
        # a search that never tests equality (lower bound) has its own step after the loop; C11.9 covers the selection
        ctx.ob(rule, True, fn.name, 'step back on an equal entry', fn.where(), 'the selection has no equality arm (lower-bound search)')
        return
    n = 0
    for b in eqs:
        decs = [ev for ev in fn.stores() if ev.store_parts()[2] in ('pre--', 'post--') and (b.id, 'T') in control_deps_transitive(fn, ev.block.id)]
        n += 1
        if not decs:
            ctx.ob(rule, False, fn.name, 'step back on an equal entry', b.events[-1].where() if b.events else fn.where(),
                   'no step back on the equal edge: the chunk before may end with the same timestamp')
            continue
        for d in decs:
            bad = None
            for (bid, label) in control_deps_transitive(fn, d.block.id):
                c = strip_casts(fn.blocks[bid].cond) if fn.blocks[bid].cond is not None else None
                if c is None or bid == b.id:
                    continue
                lv = [m.get('name') for m in walk(c) if m.get('op') == 'ref' and (m.get('name') or '').startswith('lvl')]
                if not lv:
                    continue
                for L in range(2, 16):
                    try:
                        v = fd.ev(fn, c, {lv[0]: L})
                    except (Top, ZeroDivisionError):
                        continue
                    if bool(v) != (label == 'T'):
                        bad = (show(c), L)
                        break
            ctx.ob(rule, bad is None, fn.name, 'step back on an equal entry', d.where(),
                   'taken at every index level above 1' if bad is None else
                   'the step back is taken only while %s, which is false at level %d: a run of equal timestamps that straddles a chunk boundary of the level below that one is entered after its first members' % bad)
    # ... and no other compare admits equality: an arm `requested >= entry` (or `entry <= requested`) selects an equal entry
    # without the step back
    for b in fn.blocks.values():
        c = strip_casts(b.cond) if b.cond is not None else None
        if c is None or c.get('op') != 'bin' or c['o'] not in ('>=', '<='):
            continue
        l, r = strip_casts(c['k'][0]), strip_casts(c['k'][1])
        l_entry = any(m.get('op') == 'member' and m.get('field') == 'timestamp' for m in walk(l))
        r_entry = any(m.get('op') == 'member' and m.get('field') == 'timestamp' for m in walk(r))
        l_req = l.get('op') == 'ref' and l.get('name') == 'timestamp'
        r_req = r.get('op') == 'ref' and r.get('name') == 'timestamp'
        if not ((l_req and r_entry) or (l_entry and r_req)):
            continue
        sel = [ev for ev in fn.stores() if ev.k == 'store' and strip_casts(ev.store_parts()[0]).get('op') == 'ref' and (b.id, 'T') in control_deps_transitive(fn, ev.block.id)]
        steps = [ev for ev in sel if ev.store_parts()[2] in ('pre--', 'post--')]
        n += 1
        ctx.ob(rule, bool(steps) or not sel, fn.name, 'a compare that admits equality steps back', '%s:%d' % (fn.file, b.line),
               'no selection under it / it steps back' if (steps or not sel) else
               'under %s an entry equal to the requested timestamp is selected without the step back: when the run of equal timestamps began in the chunk before, its first members are not delivered' % show(c)[:70])
    ctx.floor('equality arms of the time-series seek', n, 1)



def close_levels_rule(ctx, P, rule):
    fn = P.fn('jls_wr_ts_close')
    ctx.saw(fn)
    commits = [c for c in fn.calls() if c.callee in P.functions and P.functions[c.callee].file == fn.file and
               any(c2.callee == 'jls_core_wr_index' for c2 in P.functions[c.callee].calls())]
    if not commits:
        raise AnalysisBroken('jls_wr_ts_close: no commit call')
    for c in commits:
        a = strip_casts(c.args[1]) if len(c.args) > 1 else None
        ok = False
        why = 'level argument %s' % (show(a) if a is not None else '?')
        if a is not None and a.get('op') == 'ref' and a.get('rk') == 'local':
            v = a['name']
            inc = [ev for ev in fn.stores() if strip_casts(ev.store_parts()[0]).get('name') == v and ev.store_parts()[2] in ('pre++', 'post++')]
            bound = [b for b in fn.blocks.values() if b.cond is not None and strip_casts(b.cond).get('op') == 'bin' and strip_casts(b.cond)['o'] in ('<', '<=') and
                     strip_casts(strip_casts(b.cond)['k'][0]).get('name') == v and const_of(strip_casts(b.cond)['k'][1]) is not None]
            init = [ev for ev in fn.events() if ev.k == 'decl' and ev.name == v and ev.e is not None and const_of(ev.e) == 1]
            count = P.enum_consts.get('JLS_SUMMARY_LEVEL_COUNT') if hasattr(P, 'enum_consts') else None
            if inc and bound and init:
                hi = const_of(strip_casts(bound[0].cond)['k'][1])
                hi = hi - 1 if strip_casts(bound[0].cond)['o'] == '<' else hi
                ok = count is None or hi >= count - 1
                why = 'levels 1..%d' % hi
                # the loop is left only through its bound: no break / return inside it
                head = bound[0]
                seen_, work_ = set(), [s_ for s_, l_ in head.succs if l_ == 'T']
                while work_:
                    x = work_.pop()
                    if x.id in seen_ or x is head:
                        continue
                    seen_.add(x.id)
                    work_.extend(s_ for s_, _ in x.succs)
                body = {bid for bid in seen_ if any(s_ is head or s_.id in seen_ for s_, _ in fn.blocks[bid].succs)}
                # blocks reachable from the body that cannot come back to the head = early exits
                def back(bid, memo={}):
                    seen2, w2 = set(), [fn.blocks[bid]]
                    while w2:
                        y = w2.pop()
                        if y is head:
                            return True
                        if y.id in seen2:
                            continue
                        seen2.add(y.id)
                        w2.extend(s_ for s_, _ in y.succs)
                    return False
                early = [bid for bid in seen_ if not back(bid) and any(p_.id in seen_ and back(p_.id) for p_, _ in fn.blocks[bid].preds)]
                # the normal exit goes through the head's F edge only
                if early:
                    ok = False
                    why = 'levels 1..%d, but the loop is left early (block B%d)' % (hi, early[0])
        ctx.ob(rule, ok, fn.name, 'commit of every level at close', c.where(),
               why if ok else 'close commits %s only: when that level is empty (the number of entries is a multiple of the decimation factor) the commit returns at once and the pending entries of the levels above are never written - the upper indexes miss their last chunk' % why)


def eager_commit_rule(ctx, P, rule):
    fn = P.fn('commit', 'src/wr_ts.c')
    ctx.saw(fn, 1)
    # the local that names the level above: a pointer decl initialised from index[level + 1]
    ups = set()
    for d in fn.events('decl'):
        if d.e is not None and (d.t or '').startswith('p:') and any(m.get('op') == 'member' and m.get('field') == 'index' for m in walk(d.e)) and \
                any(m.get('op') == 'bin' and m['o'] == '+' for m in walk(d.e)):
            ups.add(d.name)
    if not ups:
        raise AnalysisBroken('commit: pointer to the index of the level above not found')
    appends = []
    for ev in fn.stores():
        e = ev.e or {}
        for m in walk(e):
            if m.get('op') == 'un' and m.get('o') in ('post++', 'pre++'):
                t = strip_casts(m['k'][0])
                if t.get('op') == 'member' and t.get('field') == 'entry_count' and any(x.get('op') == 'ref' and x.get('name') in ups for x in walk(t)):
                    appends.append(ev)
    appends = list({id(a): a for a in appends}.values())
    if not appends:
        raise AnalysisBroken('commit: append to the index of the level above not found')
    full_tests = set()
    for b in fn.blocks.values():
        c = strip_casts(b.cond) if b.cond is not None else None
        if c is not None and c.get('op') == 'bin' and c['o'] in ('>=', '>', '<', '<=', '==') and \
                any(m.get('op') == 'member' and m.get('field') == 'entry_count' and any(x.get('op') == 'ref' and x.get('name') in ups for x in walk(m)) for m in walk(c)) and \
                any(m.get('op') == 'member' and m.get('field') == 'decimate_factor' for m in walk(c)):
            # ... whose full edge leads to a commit of the level above
            if any(c2.callee == fn.name for c2 in fn.calls() if find_path(fn, (b, 0), lambda e2, facts, c2=c2: 'target' if e2 is c2 else None, refine=False) is not None or
                   find_path(fn, (b, len(b.succs) - 1), lambda e2, facts, c2=c2: 'target' if e2 is c2 else None, refine=False) is not None):
                full_tests.add(b.id)
    for a in appends:
        w = find_path(fn, a, lambda e2, facts: 'target' if (e2.k == 'ret' and ret_class(fn, e2, facts) in ('zero', 'unknown')) else None,
                      on_block_end=lambda b, facts: 'stop' if b.id in full_tests else None,
                      start_facts=frozenset((u_, 'ne', 0) for u_ in ups))      # the append went through the pointer: it is not NULL
        ctx.ob(rule, w is None and bool(full_tests), fn.name, 'the level above is tested for being full after the append', a.where(),
               'every successful return behind the append passes the test that commits a full level' if (w is None and full_tests) else
               'an entry is appended to the level above and the commit returns without looking whether that level is full now: the level stays full until the next commit below it, and a track that is closed in that state flushes it without a parent entry - seeks into the chunk written after it start far too early',
               w.render() if w else None)
