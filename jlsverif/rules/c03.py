"""C03 — a writer stopped at any point leaves a file that reopens to a correct prefix (structural clauses)."""
from ..export import AnalysisBroken
from ..ir import strip_casts, const_of, walk, show, kids
from ..graph import (find_path, ret_class, ev_dominates, control_deps, control_deps_transitive, cond_facts, loops, block_dominates)
from ..guard import zero_edges_of_call
from .. import df
from . import chunks
from .common import compare_info, exceptions, consumed

EXPL = ('Admission rule of the last valid chunk (header CRC equal edge and a successful checked payload read on every path to success), '
        'the ordered repair sequence of jls_rd_open on every path from the not-closed branch to the published instance (truncate, '
        'rewrite last chunk, pointer repair loop, FSR rebuild loop, END, close, read-only reopen) with the loop bodies conditional only '
        'on the allowed skip conditions, chunk-then-link order of every data chunk writer, and who-may-truncate.')
NOT_DECIDED = ('Exact agreement with the submitted prefix and the loss bound.  A torn in-place header rewrite in mid-file is not repaired by the library (the affected signal then returns error codes); no rule covers it.')


def run(ctx, sess):
    ctx.explanation = EXPL
    ctx.not_decided = NOT_DECIDED
    ctx.rule('C03.l', 'bounded loss: what close and repair leave behind is reachable - every summary level whose index still refers to otherwise unreachable chunks is written (shared with C01.g)')
    from .common import relay
    from . import c01 as _src_c01
    relay(ctx, sess, _src_c01.run, {'C01.g': 'C03.l'})
    ctx.rule('C03.u', 'the open can step back from an INDEX without its SUMMARY: payload_prev_length of every appended chunk is the payload length of the chunk before it - last_payload_length is updated by every append and only by appends, an in-place rewrite of a head table leaves it alone (shared with C05.5)')
    from . import c05 as _src_c05
    relay(ctx, sess, _src_c05.run, {'C05.5': 'C03.u'}, minimum=3)
    P = sess.prog('default')
    ctx.rule('C03.a', 'last valid chunk: success of the backward scan requires the header-CRC equal edge and a zero result of the checked chunk read of that candidate')
    ctx.rule('C03.b', 'repair sequence: on every path from the not-closed branch to the published instance: truncate, rewrite last chunk, pointer-repair loop, FSR-rebuild loop, END, close, reopen read-only, in this order; loop bodies skip only undefined slots / undefined tracks / non-FSR signals')
    ctx.rule('C03.e', 'pair commit in pointer repair: a chunk becomes the chunk whose link is cut only after every read of its INDEX+SUMMARY pair succeeded (an index whose summary is missing is never accepted as last valid)')
    ctx.rule('C03.f', 'repair never follows a missing summary level: whenever an upper-level summary is built from level k, the buffers of level k exist on that path (allocated or already dereferenced for the current value of the level variable)')
    ctx.rule('C03.c', 'chunk then link: every data chunk is linked only after it was completely written')
    ctx.rule('C03.g', 'a track head never points at a chunk that is not in the file: a head table entry changes once, from zero to the offset of a chunk written before the store (a stop between the two leaves the head at zero, not dangling)')
    ctx.rule('C03.h', 'a stop between two complete writes never leaves a rewritten payload with its old CRC: every payload that is rewritten in place (jls_raw_wr_payload called outside the append operation) reaches the backend, together with its CRC footer, as one write (traced for the constant length the caller passes)')
    ctx.rule('C03.i', 'pointer repair writes the chunk it cut: after `X.hdr.item_next = 0` on a local chunk X every path reaches jls_core_update_chunk_header(core, &X) for the same X before X is re-assigned or the function returns')
    ctx.rule('C03.j', 'repair appends END at the end of the file: in jls_rd_open no path leads from a call that can move the file position (pointer repair, scans, FSR rebuild) to jls_core_wr_end without passing jls_raw_seek_end')
    ctx.rule('C03.k', 'the backward scan for the last valid chunk examines every 8-byte aligned offset: traced with candidates that never match, the offsets handed to the header CRC cover every multiple of 8 between the first chunk and the end of the file (no offset falls between two windows)')
    ctx.rule('C03.m', 'repair appends at the end of the file: in jls_core_repair_fsr no path leads from a call that moves the file position (seek, chunk read) to a call that can append chunks (summary reductions, track close) without passing jls_raw_seek_end')
    ctx.rule('C03.o', 'repair counts every chunk once: the calls that add the chunk just visited to the rebuilt level above (jls_core_fsr_summaryN / jls_core_fsr_summary1) run only while the flag set at a descent is clear, and the flag is cleared after the first chunk of the lower level')
    ctx.rule('C03.p', 'repair places every block by its own sample id: in the level-0 walk of the FSR rebuild a data chunk is added to the rebuilt level 1 only behind a compare of its header timestamp with the id expected after the previous chunk (blocks that were left out leave no chunk in the chain; a chunk that follows them cannot be placed and ends the signal)')
    ctx.rule('C03.q', 'repair validates a copied chunk against that chunk: a compare with the length of the read buffer (self->buf->length) that involves data copied out of the buffer earlier has no chunk read between the copy and the compare - after another read the buffer describes a different chunk (an index was checked against the length of the summary that follows it, and a file cut inside jls_wr_close could not be opened)')
    ctx.rule('C03.r', 'pointer repair ends every chain it walked: each local copy of a chunk header that jls_track_repair_pointers keeps as the last good chunk of a chain (the index, its summary, the data chunk) has its item_next cleared and is rewritten - none is left pointing past the cut')
    ctx.rule('C03.s', 'repair continues behind blocks that were left out: the offset at which the level-0 walk of the FSR rebuild starts is taken from a level-1 index entry, and an entry is 0 for a block that was left out - the walk goes back to the last entry that names a stored block, and the sample id it expects next is the end of what the stored level-1 pair covers, not the end of that block (else complete blocks that follow left-out ones are dropped although they are on disk)')
    ctx.rule('C03.t', 'the open of an unclosed file survives its own re-open: a file that needs repair has no length in its header, and jls_raw_open reports exactly that with JLS_ERROR_TRUNCATED - wherever jls_rd_open re-opens the file for writing, that result is compared with JLS_ERROR_TRUNCATED before the error exit is taken (a plain `if (rc) goto exit` turns every stop in that window into a file that cannot be opened)')
    ctx.rule('C03.v', 'repair accepts every SUMMARY the writer produces: the bound it puts on the length of a stored level summary, evaluated for a level of 10 entries of 4 x f64 (entry_size_bits 256, what 32- and 64-bit types get), is at least header + 10 x 32 bytes - a bound built on the f32 entry rejects every summary of such a signal, and the rebuild stops at the last indexed block')
    ctx.rule('C03.n', 'repair copies a chunk into a typed buffer only after checking what it is: every memcpy of the bytes just read into a level / sample buffer is preceded by a compare of the chunk tag and by a compare of the length with the capacity of the destination')
    ctx.rule('C03.d', 'truncation is reachable only from the repair branch of jls_rd_open')
    ra(ctx, P)
    seq = rb(ctx, P)
    rc_(ctx, P)
    rd(ctx, P)
    re_(ctx, P)
    rf_(ctx, P)
    single_write_rule(ctx, P)
    cut_link_rule(ctx, P)
    scan_coverage_rule(ctx, P)
    repair_position_rule(ctx, P)
    repair_copy_rule(ctx, P)
    repair_descent_rule(ctx, P, 'C03.o')
    repair_continuity_rule(ctx, P, 'C03.p')
    repair_length_rule(ctx, P, 'C03.q')
    repair_chains_rule(ctx, P, 'C03.r')
    repair_omitted_tail_rule(ctx, P, 'C03.s')
    append_open_rule(ctx, P, 'C03.t')
    repair_summary_bound_rule(ctx, P, 'C03.v')
    end_at_end_rule(ctx, P)
    from .c14 import head_table_rule, WRITER_ROOT_PREFIXES
    roots = sorted(f.name for f in P.all_functions() if f.api and f.name.startswith(WRITER_ROOT_PREFIXES))
    head_table_rule(ctx, P, P.reachable_from(roots), 'C03.g')


def ra(ctx, P):
    f = P.fn('jls_core_rd_chunk_end')
    ctx.saw(f)
    # header crc compare
    crc_edges = set()
    for b in f.blocks.values():
        ci = compare_info(b.cond)
        if ci is None:
            continue
        l, r, eq_label = ci
        def from_crc(n):
            return n.get('op') == 'call' and n.get('callee') == 'jls_crc32c_hdr'
        for x, y in ((l, r), (r, l)):
            py = f.path(strip_casts(y))
            if df.derives(f, x, from_crc, *df.cond_pos(b)) and py is not None and py.last_field() == 'crc32':
                crc_edges.add((b.id, eq_label))
    rd_edges = set()
    for c in f.calls('jls_core_rd_chunk'):
        rd_edges |= zero_edges_of_call(f, c)
    for what, edges in (('header CRC equal edge', crc_edges), ('zero result of jls_core_rd_chunk', rd_edges)):
        if not edges:
            ctx.ob('C03.a', False, f.name, what, f.where(), 'gate not found')
            continue
        w = find_path(f, 'entry', lambda ev, facts: 'target' if ev.k == 'ret' and ret_class(f, ev, facts) in ('zero', 'unknown') else None,
                      edge_ok=lambda b, s, label: (b.id, label) not in edges)
        ctx.ob('C03.a', w is None, f.name, 'success requires the %s' % what, f.where(),
               'on every path to `return 0`' if w is None else 'a candidate can be accepted without the %s (a torn last chunk would be exposed)' % what, w.render() if w else None)
    # the candidate that is read is the candidate that was CRC-checked: seek to pos_final derived from the loop index, before the read
    for c in f.calls('jls_core_rd_chunk'):
        seeks = [s for s in f.calls('jls_raw_chunk_seek') if ev_dominates(s, c)]
        ctx.ob('C03.a', bool(seeks), f.name, 'candidate is re-read through the gated path after a seek', c.where(), '%d dominating seek(s)' % len(seeks))
    # the result is positioned at the candidate again on success
    for r in f.returns():
        if r.e is not None and const_of(strip_casts(r.e)) == 0:
            seeks = [s for s in f.calls('jls_raw_chunk_seek') if ev_dominates(s, r)]
            rds = [c for c in f.calls('jls_core_rd_chunk') if ev_dominates(c, r)]
            ok = bool(rds) and any(ev_dominates(rds[0], s) for s in seeks)
            ctx.ob('C03.a', ok, f.name, 'success leaves the reader positioned at the accepted chunk', r.where(), 'seek after the validating read: %s' % ok)


def rb(ctx, P):
    f = P.fn('jls_rd_open')
    ctx.saw(f)
    END = P.enum_consts['JLS_TAG_END']
    br = None
    for b in f.blocks.values():
        ci = compare_info(b.cond)
        if ci is None:
            continue
        l, r, eq_label = ci
        for x, y in ((l, r), (r, l)):
            px = f.path(strip_casts(x))
            if px is not None and px.last_field() == 'tag' and const_of(y) == END:
                br = (b, 'F' if eq_label == 'T' else 'T')
    if br is None:
        raise AnalysisBroken('jls_rd_open: `tag != JLS_TAG_END` branch not found')
    b0, lab = br
    si = [i for i, (s, l2) in enumerate(b0.succs) if l2 == lab][0]
    # the branch condition is evaluated on the chunk found by the backward scan
    ce = list(f.calls('jls_core_rd_chunk_end'))
    ok = bool(ce) and all(block_dominates(f, c.block.id, b0.id) for c in ce)
    ctx.ob('C03.b', ok, f.name, 'not-closed test uses the chunk found by jls_core_rd_chunk_end', '%s:%d' % (f.file, b0.line), '')
    # target: *instance = self
    pub = [ev for ev in f.stores() if strip_casts(ev.store_parts()[0]).get('op') == 'un' and strip_casts(ev.store_parts()[0])['o'] == '*'
           and strip_casts(strip_casts(ev.store_parts()[0])['k'][0]).get('name') == f.params[0]['name']]
    if not pub:
        raise AnalysisBroken('jls_rd_open: publication `*instance = self` not found')
    pub = pub[0]
    lp = loops(f)

    def loop_of_call(callee):
        for c in f.calls(callee):
            best = None
            for h, body in lp.items():
                if c.block.id in body and b0.id not in body and (best is None or len(body) > len(lp[best])):
                    best = h
            if best is not None:
                return c, best
        return None, None

    steps = []
    def call_step(name, pred=None):
        cs = [c for c in f.calls(name) if (pred is None or pred(c)) and find_path(f, (b0, si), lambda e2, facts, c=c: 'target' if e2 is c else None, refine=False) is not None]
        return cs
    trunc = call_step('jls_bk_truncate')
    rewrite = call_step('jls_raw_wr')
    end = call_step('jls_core_wr_end')
    close = [c for c in call_step('jls_raw_close') if end and ev_dominates(end[0], c)]
    reopen = [c for c in call_step('jls_raw_open') if len(c.args) > 2 and strip_casts(c.args[2]).get('s') == 'r' and close and ev_dominates(close[0], c)]
    rp_call, rp_loop = loop_of_call('jls_track_repair_pointers')
    rf_call, rf_loop = loop_of_call('jls_core_repair_fsr')
    seq = [('truncate after the last valid chunk', trunc[:1]), ('rewrite the last chunk (stamps payload_prev_length)', rewrite[:1]),
           ('pointer-repair loop', ('loop', rp_loop, rp_call)), ('FSR summary rebuild loop', ('loop', rf_loop, rf_call)),
           ('write END', end[:1]), ('close the repaired file', close[:1]), ('reopen read-only', reopen[:1])]

    def passes(item):
        """pred(event) / block id set for must-pass"""
        if isinstance(item, tuple):
            _, hdr, call = item
            return (lambda e2: False), ({hdr} if hdr is not None else set())
        evs = item
        return (lambda e2: any(e2 is x for x in evs)), set()

    prev_desc = None
    prev_item = None
    for desc, item in seq:
        present = (item[1] is not None) if isinstance(item, tuple) else bool(item)
        if not present:
            ctx.ob('C03.b', False, f.name, desc, f.where(), 'step missing on the repair path')
            continue
        pred, hdrs = passes(item)
        w = find_path(f, (b0, si), lambda e2, facts: 'stop' if pred(e2) else ('target' if e2 is pub else None),
                      on_block_end=lambda b, facts: 'stop' if b.id in hdrs else None)
        ctx.ob('C03.b', w is None, f.name, desc, (item[2].where() if isinstance(item, tuple) else item[0].where()),
               'on every path from the not-closed branch to the published instance' if w is None else 'the instance can be published without this step', w.render() if w else None)
        # order with the previous step
        if prev_item is not None:
            a = prev_item[2] if isinstance(prev_item, tuple) else prev_item[0]
            bb = item[2] if isinstance(item, tuple) else item[0]
            # no path from b back to ... : a must precede b: b not reachable before a  <=> every path branch->b passes a
            preda, hdra = passes(prev_item)
            w2 = find_path(f, (b0, si), lambda e2, facts: 'stop' if preda(e2) else ('target' if e2 is bb else None),
                           on_block_end=lambda b, facts: 'stop' if b.id in hdra else None)
            ctx.ob('C03.b', w2 is None, f.name, '%s precedes %s' % (prev_desc.split(' (')[0], desc.split(' (')[0]), bb.where(),
                   'ordered' if w2 is None else 'order violated', w2.render() if w2 else None)
        prev_desc, prev_item = desc, item
    # every FSR rebuild call (not only the first one found) comes after the pointer-repair loop, and every
    # pointer repair comes after the truncation
    if rp_loop is not None:
        for c in f.calls('jls_core_repair_fsr'):
            w3 = find_path(f, (b0, si), lambda e2, facts, c=c: 'target' if e2 is c else None, on_block_end=lambda b, facts: 'stop' if b.id == rp_loop else None)
            ctx.ob('C03.b', w3 is None, f.name, 'FSR rebuild only after the pointer repair', c.where(),
                   'ordered' if w3 is None else 'jls_core_repair_fsr can run on links that were not repaired yet', w3.render() if w3 else None)
    if trunc:
        for c in f.calls('jls_track_repair_pointers'):
            w3 = find_path(f, (b0, si), lambda e2, facts, c=c: 'stop' if e2 is trunc[0] else ('target' if e2 is c else None))
            ctx.ob('C03.b', w3 is None, f.name, 'pointer repair only after the truncation', c.where(), 'ordered' if w3 is None else 'pointer repair before truncation', w3.render() if w3 else None)
    # loop bodies: bound and allowed skip conditions
    cd = control_deps(f)
    for desc, call, hdr, allowed_fields in (('pointer-repair', rp_call, rp_loop, ('signal_id', 'parent')), ('FSR rebuild', rf_call, rf_loop, ('signal_id', 'signal_type'))):
        if call is None:
            continue
        body = lp[hdr]
        # loop bound is the table size
        hb = f.blocks[hdr]
        bounds = set()
        for bid in body:
            c = strip_casts(f.blocks[bid].cond) if f.blocks[bid].cond else None
            if c is not None and c.get('op') == 'bin' and c['o'] == '<' and const_of(c['k'][1]) is not None:
                bounds.add(const_of(c['k'][1]))
        # outermost enclosing loop for the signal index
        outer = [h for h, bd in lp.items() if call.block.id in bd]
        allb = set()
        for h in outer:
            for bid in lp[h]:
                c = strip_casts(f.blocks[bid].cond) if f.blocks[bid].cond else None
                if c is not None and c.get('op') == 'bin' and c['o'] == '<' and const_of(c['k'][1]) is not None:
                    allb.add(const_of(c['k'][1]))
        ctx.ob('C03.b', 256 in allb, f.name, '%s loop covers all %d signal slots' % (desc, 256), call.where(), 'loop bounds %s' % sorted(allb))
        # conditions the call depends on inside the loops
        bad = []
        for (bid, label) in control_deps_transitive(f, call.block.id):
            if not any(bid in lp[h] for h in outer):
                continue
            c = f.blocks[bid].cond
            e = strip_casts(c) if c else None
            if e is None:
                continue
            fields = set(nd.get('field') for nd in walk(e) if nd.get('op') == 'member')
            is_loop_cond = e.get('op') == 'bin' and e['o'] == '<' and const_of(e['k'][1]) is not None
            is_rc = e.get('op') == 'ref' and e.get('name') in ('rc', 'rc__')
            if is_loop_cond or is_rc:
                continue
            if not (fields & set(allowed_fields)):
                bad.append(show(e)[:60])
        ctx.ob('C03.b', not bad, f.name, '%s is skipped only for undefined slots / tracks / non-FSR signals' % desc, call.where(),
               'conditions use only %s' % (allowed_fields,) if not bad else 'extra condition(s) guard the repair call: %s' % bad)
    # results of the repair steps are consumed (GOE) except the best-effort pointer repair
    for name in ('jls_bk_truncate', 'jls_raw_wr', 'jls_core_repair_fsr', 'jls_core_wr_end', 'jls_raw_close', 'jls_raw_open'):
        for c in f.calls(name):
            okc, how = consumed(f, c)
            ctx.ob('C03.b', okc, f.name, 'result of %s()' % name, c.where(), how)
    return seq


def rc_(ctx, P):
    n = 0
    for fn, ev, hp, cp in chunks.link_calls(P):
        n += 1
        ctx.saw(fn, 1)
        w = chunks.written_before_link(fn, ev, cp)
        ctx.ob('C03.c', w is not None, fn.name, 'link %s' % cp, ev.where(),
               'chunk completely written before the link' if w else 'a crash between the link and the write leaves item_next pointing past the last valid chunk; repair copies whatever is later written there')
    ctx.floor('link call sites', n, 8)
    # jls_raw_wr writes header then payload (a linked chunk is complete)
    r = P.fn('jls_raw_wr')
    h = list(r.calls('jls_raw_wr_header'))
    p = list(r.calls('jls_raw_wr_payload'))
    ctx.ob('C03.c', bool(h) and bool(p) and ev_dominates(h[0], p[0]), r.name, 'append = header then payload', r.where(), '')


def rd(ctx, P):
    callers = P.callers().get('jls_bk_truncate', [])
    for fn, ev in callers:
        ctx.ob('C03.d', fn.name == 'jls_rd_open', fn.name, 'caller of jls_bk_truncate', ev.where(), 'only the repair branch may truncate')
    ctx.floor('callers of jls_bk_truncate', len(callers), 1)
    # the truncation point is the end of the last valid chunk: seek to pos, checked read, then truncate
    f = P.fn('jls_rd_open')
    for t in f.calls('jls_bk_truncate'):
        rds = [c for c in f.calls('jls_core_rd_chunk') if ev_dominates(c, t)]
        sk = [c for c in f.calls('jls_raw_chunk_seek') if rds and ev_dominates(c, rds[-1])]
        ctx.ob('C03.d', bool(rds) and bool(sk), f.name, 'truncate right after re-reading the last valid chunk', t.where(), 'seek -> checked read -> truncate: %s' % (bool(rds) and bool(sk)))


def re_(ctx, P):
    f = P.fn('jls_track_repair_pointers')
    ctx.saw(f)
    lp = loops(f)
    reads = list(f.calls('jls_core_rd_chunk'))
    zero = {id(c): zero_edges_of_call(f, c) for c in reads}
    n = 0
    seen = set()
    for uc in f.calls('jls_core_update_chunk_header'):
        a = strip_casts(uc.args[1])
        if a.get('op') == 'un' and a['o'] == '&':
            a = strip_casts(a['k'][0])
        if a.get('op') != 'ref' or a['name'] in seen:
            continue
        X = a['name']
        seen.add(X)
        # the loop (outermost) in which X is committed
        commits = [ev for ev in f.stores() if ev.k == 'store' and strip_casts(ev.store_parts()[0]).get('op') == 'ref' and strip_casts(ev.store_parts()[0]).get('name') == X
                   and ev.store_parts()[2] == '=' and ev.store_parts()[1] is not None and strip_casts(ev.store_parts()[1]).get('t', '').startswith('s:')]
        for cm in commits:
            # does the committed value come from the chunk just read?
            rhs = strip_casts(cm.store_parts()[1])
            src_is_read = False
            p_ = f.path(rhs)
            if p_ is not None and p_.last_field() == 'chunk_cur':
                src_is_read = True
            elif rhs.get('op') == 'ref':
                for d in f.stores():
                    if strip_casts(d.store_parts()[0]).get('name') == rhs['name'] and d.store_parts()[1] is not None:
                        pd = f.path(strip_casts(d.store_parts()[1]))
                        if pd is not None and pd.last_field() == 'chunk_cur':
                            src_is_read = True
            if not src_is_read:
                continue
            n += 1
            inloops = [h for h, body in lp.items() if cm.block.id in body]
            body = set()
            for h in inloops:
                if len(lp[h]) > len(body):
                    body = lp[h]
            loop_reads = [c for c in reads if c.block.id in body]
            need = 2 if len(loop_reads) >= 2 else 1
            cds = control_deps_transitive(f, cm.block.id)
            got = sum(1 for c in loop_reads if zero[id(c)] & cds)
            ctx.ob('C03.e', got >= need, f.name, 'commit of `%s` after %d successful read(s)' % (X, need), cm.where(),
                   'control dependent on %d successful chunk reads' % got if got >= need else
                   '`%s` is committed after %d of the %d reads of the INDEX+SUMMARY pair: an index whose summary was lost stays linked and repair later parses it as data' % (X, got, need))
    ctx.floor('chunk commits in pointer repair', n, 2)


def rf_(ctx, P):
    """Every call jls_core_fsr_summaryN(T, L, ..) reads T->level[L - 1] unconditionally: on every path to the call there
    must be evidence that this element exists for the *current* value of the index variable."""
    g = P.fn('jls_core_fsr_summaryN')
    # the callee really dereferences level[level - 1] without a test
    src_decl = [ev for ev in g.events('decl') if ev.e is not None and any(nd.get('op') == 'sub' and strip_casts(nd['k'][0]).get('field') == 'level'
                                                                          and strip_casts(nd['k'][1]).get('op') == 'bin' and strip_casts(nd['k'][1])['o'] == '-' for nd in walk(ev.e))]
    if not src_decl:
        raise AnalysisBroken('jls_core_fsr_summaryN: source level local (level[level - 1]) not found')
    n = 0
    for fn, c in P.callers().get('jls_core_fsr_summaryN', []):
        n += 1
        ctx.saw(fn, 1)
        L = strip_casts(c.args[1])
        # index variable and offset: L = v + 1  -> source index v ; L = v -> source index v - 1
        if L.get('op') == 'bin' and L['o'] == '+' and const_of(L['k'][1]) == 1 and strip_casts(L['k'][0]).get('op') == 'ref':
            v, src_txt = strip_casts(L['k'][0])['name'], strip_casts(L['k'][0])['name']
        elif L.get('op') == 'ref':
            v, src_txt = L['name'], '(%s - 1)' % L['name']
        else:
            ctx.ob('C03.f', False, fn.name, 'source level of jls_core_fsr_summaryN(%s)' % show(L), c.where(), 'level argument not understood')
            continue

        def evidence(e2):
            # allocation of that level, or a dereference of T->level[src]
            if e2.k == 'call' and e2.callee == 'jls_core_fsr_summary_level_alloc' and show(strip_casts(e2.args[1])).replace('(u8)', '') in (src_txt, v if src_txt == v else src_txt):
                return True
            if e2.e is not None:
                for nd in walk(e2.e):
                    if nd.get('op') == 'member' and nd.get('arrow'):
                        base = strip_casts(nd['k'][0])
                        if base.get('op') == 'sub' and strip_casts(base['k'][0]).get('field') == 'level' and show(strip_casts(base['k'][1])) == src_txt:
                            return True
            # (re)definition of an alias from that very element on this path (it is dereferenced right after)
            if e2.k in ('store', 'decl') and e2.store_parts()[1] is not None and e2.store_parts()[2] == '=':
                e3 = strip_casts(e2.store_parts()[1])
                if e3.get('op') == 'sub' and strip_casts(e3['k'][0]).get('field') == 'level' and show(strip_casts(e3['k'][1])) == src_txt:
                    return True
            return False

        def modifies(e2):
            if e2.k == 'store':
                l0 = strip_casts(e2.store_parts()[0])
                return l0.get('op') == 'ref' and l0.get('name') == v
            return False

        starts = ['entry'] + [e2 for e2 in fn.events('store') if modifies(e2)]
        w = None
        for st in starts:
            w = find_path(fn, st, lambda e2, facts, st=st: 'stop' if (evidence(e2) or (modifies(e2) and e2 is not st)) else ('target' if e2 is c else None),
                          on_block_end=lambda b, facts: 'stop' if (b.cond is not None and any(evidence_cond(nd, src_txt) for nd in [b.cond])) else None)
            if w is not None:
                break
        ctx.ob('C03.f', w is None, fn.name, 'level[%s] exists when jls_core_fsr_summaryN(%s) reads it' % (src_txt, show(L)), c.where(),
               'allocated or dereferenced for the current `%s` on every path' % v if w is None else
               'after `%s` changes, the call can be reached without the buffers of that level existing: jls_core_fsr_summaryN dereferences a NULL level (crash while repairing a file with more than one summary level)' % v,
               w.render() if w else None)
    ctx.floor('callers of jls_core_fsr_summaryN', n, 2)


def evidence_cond(cond, src_txt):
    for nd in walk(cond):
        if nd.get('op') == 'member' and nd.get('arrow'):
            base = strip_casts(nd['k'][0])
            if base.get('op') == 'sub' and strip_casts(base['k'][0]).get('field') == 'level' and show(strip_casts(base['k'][1])) == src_txt:
                return True
    return False


def single_write_rule(ctx, P):
    from ..fd import trace_calls, Top
    from ..ir import path_of
    wr = P.fn('jls_raw_wr_payload')
    n = 0
    for fn, ev in P.callers().get('jls_raw_wr_payload', []):
        if fn.name == 'jls_raw_wr':
            continue            # the append operation: header and payload of a new chunk
        L = const_of(ev.args[1])
        n += 1
        ctx.saw(fn, 1)
        if L is None:
            ctx.ob('C03.h', False, fn.name, 'in-place payload rewrite', ev.where(), 'the rewritten length %s is not a constant: cannot be traced' % show(ev.args[1]))
            continue
        env = {'payload_length': L, 'self': 1, 'payload': 0x500000, 'self.hdr.tag': 1, 'self.backend.fpos': 0, 'self.backend.fend': 1 << 40,
               'self.hdr.payload_length': L, 'hdr.payload_length': L}
        try:
            calls = trace_calls(P, wr, env, assume_calls=0)
        except Top:
            ctx.ob('C03.h', False, fn.name, 'in-place payload rewrite of %d bytes' % L, ev.where(), 'write sequence not decidable')
            continue
        nw = [c for c in calls if c[0] == 'jls_bk_fwrite']
        ctx.ob('C03.h', len(nw) == 1, fn.name, 'in-place payload rewrite of %d bytes' % L, ev.where(),
               'payload and CRC footer leave in one backend write' if len(nw) == 1 else
               '%d backend writes (payload, then pad + CRC): a writer stopped between them leaves the new payload with the old CRC and the next open fails on that chunk' % len(nw))
    ctx.floor('in-place payload rewrites', n, 1)


def cut_link_rule(ctx, P):
    fn = P.fn('jls_track_repair_pointers')
    ctx.saw(fn, 1)
    n = 0
    for ev in fn.stores():
        lhs, rhs, o = ev.store_parts()
        p = fn.path(strip_casts(lhs))
        if p is None or p.last_field() != 'item_next' or rhs is None or const_of(rhs) != 0 or p.root_kind != 'local':
            continue
        x = p.root
        n += 1

        def on_event(e2, facts, x=x):
            if e2.k == 'call' and e2.callee == 'jls_core_update_chunk_header':
                a = strip_casts(e2.args[1])
                tgt = strip_casts(a['k'][0]).get('name') if (a.get('op') == 'un' and a.get('o') == '&') else None
                return 'stop' if tgt == x else None
            if e2.k == 'store':
                l2 = strip_casts(e2.store_parts()[0])
                if l2.get('op') == 'ref' and l2.get('name') == x:
                    return 'target'          # X re-assigned before it was written
            if e2.k == 'ret':
                return 'target'
            return None
        w = find_path(fn, ev, on_event, refine=False)
        ctx.ob('C03.i', w is None, fn.name, 'cut of %s.hdr.item_next is written' % x, ev.where(),
               'followed by jls_core_update_chunk_header(core, &%s) on every path' % x if w is None else
               'the link of %s is cleared in memory but another chunk (or none) is rewritten: the dangling link stays in the file and repair appends a chunk of another kind at that offset' % x,
               w.render() if w else None)
    ctx.floor('link cuts in pointer repair', n, 2)


def end_at_end_rule(ctx, P):
    fn = P.fn('jls_rd_open')
    ctx.saw(fn, 1)
    movers = set(g.name for g in P.all_functions() if 'jls_raw_chunk_seek' in P.reachable_from([g.name])) | {'jls_raw_chunk_seek', 'jls_raw_chunk_next'}
    ends = list(fn.calls('jls_core_wr_end'))
    n = 0
    for e_ in ends:
        n += 1
        bad = None
        for mv in [c for c in fn.calls() if c.callee in movers]:
            w = find_path(fn, mv, lambda e2, facts: 'stop' if (e2.k == 'call' and e2.callee == 'jls_raw_seek_end') else ('target' if e2 is e_ else None), refine=False)
            if w is not None:
                bad = (mv, w)
                break
        ctx.ob('C03.j', bad is None, fn.name, 'END is appended at the end of the file', e_.where(),
               'jls_raw_seek_end lies between every position-changing call and jls_core_wr_end' if bad is None else
               'after %s() the file position can be in the middle of the file when END is written: END overwrites a valid chunk (a file without FSR signals never seeks back to the end)' % bad[0].callee,
               bad[1].render() if bad else None)
    ctx.floor('END writes in repair', n, 1)


def scan_coverage_rule(ctx, P):
    from ..fd import trace_calls, Top
    fn = P.fn('jls_core_rd_chunk_end')
    ctx.saw(fn, 1)
    hdr = P.record('jls_chunk_header_s')['size']
    bad = []
    sizes = (4096, 5000, 7777, 1024, 1056, 2056, 12345)
    tested_total = 0
    for fend in sizes:
        env = {'backend.fend': fend, 'self': 1, 'h.crc32': 1}
        try:
            # with candidates that never match the scan runs past the first chunk (infeasible on a file that was opened:
            # the chunks read during the open are valid); a prefix of the call sequence is enough
            calls = trace_calls(P, fn, env, assume_calls=0, max_steps=40000, partial=True)
        except Top:
            bad.append('file size %d: the scan skeleton is not decidable' % fend)
            continue
        pos = None
        tested = set()
        for callee, args, ev in calls:
            if callee == 'jls_bk_fseek' and len(args) > 1 and isinstance(args[1], int):
                pos = args[1]
            if callee == 'jls_crc32c_hdr' and args and isinstance(args[0], tuple) and args[0][0] == 'off' and pos is not None:
                tested.add(pos + args[0][2])
        tested_total += len(tested)
        end = fend & ~7
        want = set(range(8, end - hdr + 1, 8))
        missing = sorted(want - tested)
        if missing:
            bad.append('file size %d: offsets %s%s are never examined' % (fend, missing[:4], ' ...' if len(missing) > 4 else ''))
    ctx.ob('C03.k', not bad, fn.name, 'backward scan covers every aligned offset', fn.where(),
           '%d candidate offsets traced over %d file sizes, none skipped' % (tested_total, len(sizes)) if not bad else
           '; '.join(bad[:2]) + ': a last chunk that starts there is not found and the chunk before it is taken as the end of the file (one more chunk is lost)')
    ctx.floor('candidate offsets traced in the backward scan', tested_total, 1000)


def repair_position_rule(ctx, P):
    fn = P.fn('jls_core_repair_fsr')
    ctx.saw(fn, 1)
    movers = {'jls_raw_chunk_seek', 'jls_core_rd_chunk', 'jls_raw_chunk_next', 'jls_raw_rd', 'jls_raw_rd_header'}
    # functions that can append on a path that ends in success (an allocation helper that closes the track when malloc fails does not count)
    cand = set(g.name for g in P.all_functions() if 'jls_raw_wr' in P.reachable_from([g.name]) and g.name not in movers)
    appenders = {'jls_raw_wr'}
    changed = True
    while changed:
        changed = False
        for name in sorted(cand - appenders):
            g = P.functions[name]
            hits = [c for c in g.calls() if c.callee in appenders]
            for h_ in hits:
                w_ = find_path(g, h_, lambda e2, facts: 'target' if (e2.k == 'ret' and ret_class(g, e2, facts) in ('zero', 'void', 'unknown')) else None)
                if w_ is not None:
                    appenders.add(name)
                    changed = True
                    break
    appenders.discard('jls_raw_wr')
    n = 0
    for a in [c for c in fn.calls() if c.callee in appenders]:
        n += 1
        bad = None
        for mv in [c for c in fn.calls() if c.callee in movers]:
            w = find_path(fn, mv, lambda e2, facts: 'stop' if (e2.k == 'call' and e2.callee == 'jls_raw_seek_end') else ('target' if e2 is a else None), refine=False)
            if w is not None:
                bad = (mv, w)
                break
        ctx.ob('C03.m', bad is None, fn.name, '%s() appends at the end of the file' % a.callee, a.where(),
               'jls_raw_seek_end lies between every position-changing call and this call' if bad is None else
               'after %s() the position is inside the file when %s() may write an index / summary chunk: it lands on top of existing chunks (another signal\'s repaired index)' % (bad[0].callee, a.callee),
               bad[1].render() if bad else None)
    ctx.floor('appending calls in FSR repair', n, 3)


def repair_copy_rule(ctx, P):
    from ..graph import cond_facts
    fn = P.fn('jls_core_repair_fsr')
    n = 0
    for mc in fn.calls(('memcpy', '__builtin_memcpy', '__builtin___memcpy_chk')):
        srcp = fn.path(strip_casts(mc.args[1]))
        if srcp is None or srcp.last_field() != 'start':
            continue
        n += 1
        tag_edges, size_edges = set(), set()
        for b in fn.blocks.values():
            if b.cond is None or len(b.succs) < 2:
                continue
            c = strip_casts(b.cond)
            names = [nd for nd in walk(c) if nd.get('op') == 'member']
            if any(nd.get('field') == 'tag' for nd in names) and c.get('op') == 'bin' and c['o'] in ('==', '!='):
                tag_edges.add((b.id, 'T' if c['o'] == '==' else 'F'))
            if any(nd.get('field') in ('length', 'payload_length') for nd in names) and c.get('op') == 'bin' and c['o'] in ('<', '<=', '>', '>='):
                # the edge on which the length is the smaller side
                l, r = c['k']
                lf = any(nd.get('op') == 'member' and nd.get('field') in ('length', 'payload_length') for nd in walk(l))
                small_on_T = (lf and c['o'] in ('<', '<=')) or ((not lf) and c['o'] in ('>', '>='))
                size_edges.add((b.id, 'T' if small_on_T else 'F'))
        w1 = find_path(fn, 'entry', lambda e2, facts: 'target' if e2 is mc else None, refine=False, edge_ok=lambda b_, s_, lab: (b_.id, lab) not in tag_edges)
        w2 = find_path(fn, 'entry', lambda e2, facts: 'target' if e2 is mc else None, refine=False, edge_ok=lambda b_, s_, lab: (b_.id, lab) not in size_edges)
        # the check must concern the chunk just read: between the last read and the copy
        ok = w1 is None and w2 is None
        ctx.ob('C03.n', ok, fn.name, 'copy of the chunk just read into %s' % show(mc.args[0])[:40], mc.where(),
               'tag and length are checked first' if ok else
               'the chunk is copied %s: after a broken link the chunk at that offset can be of another kind and larger than the destination (heap overflow in repair)' % (
                   'without a tag check' if w1 is not None else 'without comparing its length with the destination'),
               (w1 or w2).render() if (w1 or w2) else None)
    ctx.floor('chunk copies in FSR repair', n, 3)



def repair_descent_rule(ctx, P, rule):
    """a chunk that the level above already accounts for is not summarised a second time after the descent"""
    fn = P.fn('jls_core_repair_fsr')
    ctx.saw(fn, 1)
    # where the walk descends: stores that decrement the level variable
    decs = [ev for ev in fn.stores() if ev.store_parts()[2] in ('pre--', 'post--', '-=') and strip_casts(ev.store_parts()[0]).get('op') == 'ref']
    lvl_names = {strip_casts(ev.store_parts()[0]).get('name') for ev in decs if 'level' in (strip_casts(ev.store_parts()[0]).get('name') or '') or 'lvl' in (strip_casts(ev.store_parts()[0]).get('name') or '')}
    decs = [ev for ev in decs if strip_casts(ev.store_parts()[0]).get('name') in lvl_names]
    if not decs:
        raise AnalysisBroken('jls_core_repair_fsr: no descent (decrement of the level) found')
    # the flag(s) set true next to a descent
    flags = set()
    for d in decs:
        for ev in d.block.events:
            if ev.k == 'store':
                lhs, rhs, o = ev.store_parts()
                l0 = strip_casts(lhs)
                if l0.get('op') == 'ref' and o == '=' and rhs is not None and const_of(strip_casts(rhs)) == 1:
                    flags.add(l0['name'])
    summ = [c for c in fn.calls() if c.callee in ('jls_core_fsr_summaryN', 'jls_core_fsr_summary1')]
    if len(summ) < 2:
        raise AnalysisBroken('jls_core_repair_fsr: %d summarising calls' % len(summ))
    for c in summ:
        guarded = False
        for (bid, label) in control_deps_transitive(fn, c.block.id):
            cc = strip_casts(fn.blocks[bid].cond) if fn.blocks[bid].cond is not None else None
            if cc is None:
                continue
            neg = False
            while cc.get('op') == 'un' and cc.get('o') == '!':
                neg = not neg
                cc = strip_casts(cc['k'][0])
            if cc.get('op') == 'ref' and cc.get('name') in flags and ((neg and label == 'T') or (not neg and label == 'F')):
                guarded = True
        ctx.ob(rule, guarded and bool(flags), fn.name, '%s() skipped for the first chunk after a descent' % c.callee, c.where(),
               'runs only while the descent flag (%s) is clear' % '/'.join(sorted(flags)) if guarded else
               'the chunk the walk descends to is already counted in the rebuilt level above; summarising it again doubles its entries there (statistics served from that level are wrong after a repair)')
    # and the flag is cleared once the first chunk was passed
    for f in sorted(flags):
        clears = [ev for ev in fn.stores() if strip_casts(ev.store_parts()[0]).get('name') == f and ev.store_parts()[1] is not None and const_of(strip_casts(ev.store_parts()[1])) == 0]
        ctx.ob(rule, len(clears) >= len(summ), fn.name, 'descent flag %s cleared after each guarded call' % f, fn.where(), '%d clearing stores for %d summarising calls' % (len(clears), len(summ)))



def repair_continuity_rule(ctx, P, rule):
    fn = P.fn('jls_core_repair_fsr')
    s1 = list(fn.calls('jls_core_fsr_summary1'))
    if not s1:
        raise AnalysisBroken('jls_core_repair_fsr: no level-0 summarising call')
    # compares  <chunk header>.timestamp  ==/!=  <local that is advanced by the block size>
    guards = set()
    for b in fn.blocks.values():
        for c in ([strip_casts(b.cond)] if b.cond is not None else []):
            for nd in walk(c):
                if nd.get('op') != 'bin' or nd['o'] not in ('==', '!='):
                    continue
                l, r = strip_casts(nd['k'][0]), strip_casts(nd['k'][1])
                for x, y in ((l, r), (r, l)):
                    ts_side = any(m.get('op') == 'member' and m.get('field') == 'timestamp' for m in walk(x)) or \
                        (x.get('op') == 'ref' and any(e_.k == 'decl' and e_.name == x.get('name') and e_.e is not None and
                                                      any(m.get('op') == 'member' and m.get('field') == 'timestamp' for m in walk(e_.e)) for e_ in fn.events()))
                    if not ts_side or y.get('op') != 'ref' or y.get('rk') != 'local':
                        continue
                    adv = [e_ for e_ in fn.stores() if strip_casts(e_.store_parts()[0]).get('name') == y['name'] and e_.store_parts()[1] is not None and
                           any(m.get('op') == 'member' and m.get('field') in ('samples_per_data', 'entry_count') for m in walk(e_.store_parts()[1]))]
                    if adv:
                        guards.add(b.id)
    # `have_previous && (timestamp != expected)`: the flag that says there is a previous chunk guards the compare
    for b in list(fn.blocks.values()):
        c0 = strip_casts(b.cond) if b.cond is not None else None
        if c0 is not None and c0.get('op') == 'ref' and c0.get('rk') == 'local' and any(s_.id in guards and lab == 'T' for s_, lab in b.succs):
            guards.add(b.id)
    for c in s1:
        reads = [r_ for r_ in fn.calls('jls_core_rd_chunk') if find_path(fn, r_, lambda e2, facts: 'target' if e2 is c else None, refine=False) is not None]
        w = None
        for r_ in reads:
            w = w or find_path(fn, r_, lambda e2, facts: 'stop' if (e2.k == 'call' and e2.callee == 'jls_core_rd_chunk') else ('target' if e2 is c else None),
                               refine=False, edge_ok=lambda b_, s_, lab: b_.id not in guards)
        ctx.ob(rule, bool(guards) and w is None, fn.name, 'data chunks are placed by their sample id', c.where(),
               'the timestamp of the chunk just read is compared with the id expected after the previous chunk' if (guards and w is None) else
               'every chunk of the data chain is appended to the rebuilt level 1 as if it followed the previous one: after blocks that were left out (constant data, or on request) the index has fewer entries than blocks, the reported length exceeds what can be read and the summaries sit at the wrong sample ranges',
               w.render() if w else None)



def repair_length_rule(ctx, P, rule):
    from .. import df
    fn = P.fn('jls_core_repair_fsr')
    copies = []
    for mc in fn.calls(('memcpy', '__builtin_memcpy', '__builtin___memcpy_chk')):
        srcp = fn.path(strip_casts(mc.args[1]))
        if srcp is not None and srcp.last_field() == 'start':
            copies.append((mc, show(strip_casts(mc.args[0]))))
    reads = list(fn.calls('jls_core_rd_chunk'))
    n = 0
    for b in fn.blocks.values():
        c = strip_casts(b.cond) if b.cond is not None else None
        if c is None or c.get('op') != 'bin' or c['o'] not in ('<', '<=', '>', '>='):
            continue
        if not any(m.get('op') == 'member' and m.get('field') == 'length' and m.get('rec') == 'jls_buf_s' for m in walk(c)):
            continue
        # what the other side derives from: follow locals back to a copied object
        texts = set()
        work = [m for m in walk(c) if m.get('op') == 'ref' and m.get('rk') == 'local']
        seen = set()
        while work:
            m = work.pop()
            if m['name'] in seen:
                continue
            seen.add(m['name'])
            for e_ in fn.events():
                rhs = None
                if e_.k == 'decl' and e_.name == m['name']:
                    rhs = e_.e
                elif e_.k == 'store' and strip_casts(e_.store_parts()[0]).get('name') == m['name'] and e_.store_parts()[2] == '=':
                    rhs = e_.store_parts()[1]
                if rhs is None:
                    continue
                texts.add(show(strip_casts(rhs)))
                work.extend(x for x in walk(rhs) if x.get('op') == 'ref' and x.get('rk') == 'local')
        anchor = b.events[-1] if b.events else None
        for mc, dst in copies:
            if dst not in texts or anchor is None:
                continue
            n += 1
            w = None
            for r_ in reads:
                w1 = find_path(fn, mc, lambda e2, facts: 'target' if e2 is r_ else ('stop' if e2 is mc else None), refine=False)
                if w1 is None:
                    continue
                w2 = find_path(fn, r_, lambda e2, facts: 'stop' if e2 is mc else ('target' if e2 is anchor else None), refine=False)
                if w2 is not None:
                    w = w2
                    break
            ctx.ob(rule, w is None, fn.name, 'length check of the copy of %s' % dst[:30], anchor.where(),
                   'no chunk read between the copy and the compare with the buffer length' if w is None else
                   'the data was copied out of the read buffer, another chunk was read, and only then is its size compared with self->buf->length - the length of the other chunk: a short chunk that follows (an empty summary at close) makes a valid index look too long and the open fails',
                   w.render() if w else None)
    ctx.ob(rule, True, fn.name, 'compares with the read buffer length examined', fn.where(),
           '%d copies out of the read buffer, %d compares of copied data with self->buf->length' % (len(copies), n))



def repair_chains_rule(ctx, P, rule):
    fn = P.fn('jls_track_repair_pointers')
    ctx.saw(fn, 1)
    # local chunk copies that are (transitively) taken from the chunk just read and describe the last good chunk of a chain
    copies = set()
    changed = True
    while changed:
        changed = False
        for ev in fn.stores():
            lhs, rhs, o = ev.store_parts()
            l0 = strip_casts(lhs)
            if l0.get('op') != 'ref' or rhs is None or o != '=' or not (l0.get('t') or '').endswith('jls_core_chunk_s'):
                continue
            r0 = strip_casts(rhs)
            src_ok = (r0.get('op') == 'member' and r0.get('field') == 'chunk_cur') or (r0.get('op') == 'ref' and r0.get('name') in copies)
            if src_ok and l0['name'] not in copies:
                copies.add(l0['name'])
                changed = True
    # intermediates that are only handed on to another copy are not chain ends
    handed = set()
    for ev in fn.stores():
        lhs, rhs, o = ev.store_parts()
        if rhs is not None and strip_casts(rhs).get('op') == 'ref' and strip_casts(rhs).get('name') in copies and strip_casts(lhs).get('op') == 'ref':
            handed.add(strip_casts(rhs)['name'])
    ends = sorted(copies - handed)
    # every chunk the walk reads successfully is kept in one of the copies (else nothing can cut its link later)
    reads = list(fn.calls('jls_core_rd_chunk'))
    if len(reads) < 3:
        raise AnalysisBroken('jls_track_repair_pointers: %d chunk reads' % len(reads))
    takes = [ev for ev in fn.stores() if strip_casts(ev.store_parts()[0]).get('op') == 'ref' and strip_casts(ev.store_parts()[0]).get('name') in copies and
             ev.store_parts()[1] is not None and strip_casts(ev.store_parts()[1]).get('op') == 'member' and strip_casts(ev.store_parts()[1]).get('field') == 'chunk_cur']
    for r_ in reads:
        w = find_path(fn, r_, lambda e2, facts: 'target' if e2 in takes else ('stop' if (e2.k == 'call' and e2.callee == 'jls_core_rd_chunk') or e2.k == 'ret' else None), refine=False)
        ctx.ob(rule, w is not None, fn.name, 'header of the chunk read at line %d is kept' % r_.ln, r_.where(),
               'copied into a local chunk before the next read' if w is not None else
               'the chunk read here (the SUMMARY of a pair, or a data chunk) is not remembered: when it turns out to be the last good one of its chain, its item_next cannot be cleared and keeps naming an offset past the cut')
    for name in ends:
        clears = [ev for ev in fn.stores() if show(strip_casts(ev.store_parts()[0])) == '%s.hdr.item_next' % name and ev.store_parts()[1] is not None and const_of(strip_casts(ev.store_parts()[1])) == 0]
        writes = [c for c in fn.calls('jls_core_update_chunk_header') if len(c.args) > 1 and show(strip_casts(c.args[1])) == '&%s' % name]
        ok = bool(clears) and bool(writes) and all(any(find_path(fn, cl, lambda e2, facts, w_=w_: 'target' if e2 is w_ else None, refine=False) is not None for w_ in writes) for cl in clears)
        ctx.ob(rule, ok, fn.name, 'end of the chain kept in %s' % name, (clears[0] if clears else fn).where() if hasattr((clears[0] if clears else fn), 'where') else fn.where(),
               'item_next cleared and the header rewritten' if ok else
               'the last good chunk kept in %s is never cut off (%d clearing stores, %d rewrites): after a truncation its item_next still names an offset past the end of the file, or a chunk that the repair writes there later' % (name, len(clears), len(writes)))
        # a copy that is taken straight from the chunk just read inside a loop that also reads an INDEX before it is the
        # SUMMARY of a pair: the SUMMARY chain is completed while the pairs are walked (the writer links SUMMARY n to n+1
        # only after it wrote n+1; the statistics reader follows exactly that chain)
        direct = [t_ for t_ in takes if strip_casts(t_.store_parts()[0]).get('name') == name]
        lp_ = loops(fn)
        in_pair_loop = [t_ for t_ in direct if any(t_.block.id in body and sum(1 for r_ in reads if r_.block.id in body) >= 2 for body in lp_.values())]
        if in_pair_loop and any(strip_casts(h_.store_parts()[1]).get('name') != name for h_ in fn.stores() if h_.store_parts()[1] is not None and strip_casts(h_.store_parts()[0]).get('op') == 'ref' and strip_casts(h_.store_parts()[0]).get('name') in copies and strip_casts(h_.store_parts()[1]).get('op') == 'ref'):
            t_ = in_pair_loop[0]
            links = [ev for ev in fn.stores() if show(strip_casts(ev.store_parts()[0])) == '%s.hdr.item_next' % name and ev.store_parts()[1] is not None and
                     'chunk_cur.offset' in show(strip_casts(ev.store_parts()[1]))]
            ok_l = False
            for l_ in links:
                for w_ in writes:
                    if find_path(fn, l_, lambda e2, facts, w_=w_: 'target' if e2 is w_ else ('stop' if e2 is t_ else None), refine=False) is not None and \
                            find_path(fn, w_, lambda e2, facts: 'target' if e2 is t_ else None, refine=False) is not None:
                        ok_l = True
            ctx.ob(rule, ok_l, fn.name, 'SUMMARY chain completed while the pairs are walked (%s)' % name, t_.where(),
                   'the previous SUMMARY is linked to the one just read and rewritten before the copy moves on' if ok_l else
                   'the copy of the previous SUMMARY is replaced without looking at its item_next: when the writer stopped after it wrote a SUMMARY and before it linked the previous one to it, the INDEX chain is complete and the SUMMARY chain ends one pair early - the open succeeds and a statistics request over the whole signal fails (the reader follows the SUMMARY chain)')
        # the cut depends on nothing but "the chain ended here" and "there is a last good chunk": a further condition (the
        # descend offset taken from the last index entry, which is 0 for a block that was left out) leaves the link in place
        loop_heads = set(loops(fn).keys())
        cursors = set(strip_casts(ev.store_parts()[0]).get('name') for ev in fn.stores() if ev.store_parts()[1] is not None and
                      strip_casts(ev.store_parts()[0]).get('op') == 'ref' and show(strip_casts(ev.store_parts()[1])).endswith('.hdr.item_next'))
        flags = set()
        for ev in fn.events():
            if ev.k == 'decl' and (ev.t or '') in ('u1', 'bool', '_Bool'):
                flags.add(ev.name)
        nxt_stores = [ev for ev in fn.stores() if show(strip_casts(ev.store_parts()[0])) == '%s.hdr.item_next' % name]
        cut_writes = [w_ for w_ in writes if any(find_path(fn, cl, lambda e2, facts, w_=w_, cl=cl: 'target' if e2 is w_ else ('stop' if (e2 in nxt_stores and e2 is not cl) else None), refine=False) is not None for cl in clears)]
        for w_ in cut_writes:
            extra = []
            for bid, lab in control_deps_transitive(fn, w_.block.id):
                b_ = fn.blocks[bid]
                c_ = strip_casts(b_.cond) if b_.cond is not None else None
                if c_ is None or bid in loop_heads:
                    continue
                names = set(m.get('name') for m in walk(c_) if m.get('op') == 'ref' and m.get('rk') in ('local', 'param'))
                if any(m.get('op') == 'call' for m in walk(c_)):
                    continue        # the seek / read that found the end of the chain
                if names & (cursors | flags):
                    continue        # the walk cursor is 0, or the flag a failed read sets
                if names and names <= copies and all(m.get('field') in ('offset', None) for m in walk(c_) if m.get('op') == 'member'):
                    continue        # there is a last good chunk
                extra.append(show(c_))
            ctx.ob(rule, not extra, fn.name, 'cut of the chain kept in %s depends only on the chain having ended' % name, w_.where(),
                   'guarded by the end of the walk and the presence of a last good chunk' if not extra else
                   'the link is cut only when %s holds as well: when it does not (the last entry of an FSR index is 0 for a block that was left out) the last complete pair keeps an item_next past the cut, and the chunks that the repair appends there are read as the continuation of this chain (a signal took over the index of another one and reported more samples than were written)' % ' and '.join(sorted(set(extra))))


def repair_omitted_tail_rule(ctx, P, rule):
    from ..graph import loops
    fn = P.fn('jls_core_repair_fsr')
    ctx.saw(fn, 1)
    def is_entry(e):
        e = strip_casts(e)
        return e.get('op') == 'sub' and any(m.get('op') == 'member' and m.get('field') == 'offsets' and m.get('rec') == 'jls_fsr_index_s' for m in walk(e))
    # the cursor of the walks: the local that receives index entries
    entry_stores = [ev for ev in fn.stores() if ev.store_parts()[1] is not None and is_entry(ev.store_parts()[1]) and strip_casts(ev.store_parts()[0]).get('op') == 'ref']
    cursors = set(strip_casts(ev.store_parts()[0])['name'] for ev in entry_stores)
    if len(cursors) != 1:
        raise AnalysisBroken('jls_core_repair_fsr: index entries are stored into %s' % sorted(cursors))
    cur = cursors.pop()
    lp = loops(fn)
    def tests_zero(c):
        c = strip_casts(c) if c is not None else None
        if c is None:
            return False
        for nd in walk(c):
            if nd.get('op') == 'bin' and nd['o'] in ('==', '!='):
                l, r = strip_casts(nd['k'][0]), strip_casts(nd['k'][1])
                for x, y in ((l, r), (r, l)):
                    if x.get('op') == 'ref' and x.get('name') == cur and const_of(y) == 0:
                        return True
        c0 = c
        while c0.get('op') == 'un' and c0['o'] == '!':
            c0 = strip_casts(c0['k'][0])
        return c0.get('op') == 'ref' and c0.get('name') == cur
    back = []
    for h, body in lp.items():
        inner = [ev for ev in entry_stores if ev.block.id in body]
        if inner and any(tests_zero(fn.blocks[b_].cond) for b_ in body | {h}):
            back.extend(inner)
    ctx.ob(rule, bool(back), fn.name, 'descent from a level-1 index skips entries of blocks that were left out', (back[0] if back else entry_stores[0]).where(),
           'a loop steps back over entries that are 0' if back else
           'the walk starts at the last entry of the index even when it is 0 (a block that was left out): it then visits no data chunk at all, and the complete blocks that follow the stored pair - chained behind the last stored block - are dropped from the signal')
    # the id expected behind the block reached by the descent
    guards = []
    for b in fn.blocks.values():
        c = strip_casts(b.cond) if b.cond is not None else None
        if c is None or c.get('op') != 'bin' or c['o'] not in ('==', '!='):
            continue
        l, r = strip_casts(c['k'][0]), strip_casts(c['k'][1])
        for x, y in ((l, r), (r, l)):
            if y.get('op') == 'ref' and y.get('rk') == 'local' and x.get('op') == 'ref' and x.get('rk') == 'local' and \
                    any(e_.k == 'decl' and e_.name == x['name'] and e_.e is not None and any(m.get('field') == 'timestamp' for m in walk(e_.e) if m.get('op') == 'member') for e_ in fn.events()):
                guards.append((b, y['name']))
    if not guards:
        return      # no compare of a chunk sample id with an expected id at all: C03.p reports that
    for b, exp in guards:
        # values that flow into the expected id (directly or through one local)
        srcs = []
        work = [exp]
        seen = set()
        while work:
            v = work.pop()
            if v in seen:
                continue
            seen.add(v)
            for ev in list(fn.stores()) + [e_ for e_ in fn.events() if e_.k == 'decl' and e_.e is not None]:
                if ev.k == 'decl':
                    nm, rhs = ev.name, ev.e
                else:
                    l0 = strip_casts(ev.store_parts()[0])
                    nm, rhs = (l0.get('name') if l0.get('op') == 'ref' else None), ev.store_parts()[1]
                if nm != v or rhs is None:
                    continue
                srcs.append(rhs)
                for m in walk(rhs):
                    if m.get('op') == 'ref' and m.get('rk') == 'local':
                        work.append(m['name'])
        covered = any(any(m.get('op') == 'member' and m.get('field') == 'timestamp' for m in walk(r_)) and
                      any(m.get('op') == 'member' and m.get('field') == 'sample_decimate_factor' for m in walk(r_)) for r_ in srcs)
        ctx.ob(rule, covered, fn.name, 'expected sample id %s accounts for what the stored level-1 pair covers' % exp, fn.where() if not hasattr(b, 'where') else fn.where(),
               'one of its values is the first id of the summary chunk plus its entries times the decimation' if covered else
               'the id expected behind the block reached by the descent is always the end of that block: when the index ends in blocks that were left out, the next stored block starts later, is taken for a gap and ends the signal - complete blocks on disk are lost')


def append_open_rule(ctx, P, rule):
    fn = P.fn('jls_rd_open')
    ctx.saw(fn, 1)
    TRUNC = P.enum_consts.get('JLS_ERROR_TRUNCATED')
    if TRUNC is None:
        raise AnalysisBroken('JLS_ERROR_TRUNCATED not found')
    n = 0
    for c in fn.calls('jls_raw_open'):
        if len(c.args) < 3 or strip_casts(c.args[2]).get('s') in ('r', None):
            continue
        n += 1
        # the local that receives the result
        var = None
        for ev in fn.stores():
            lhs, rhs, o = ev.store_parts()
            if rhs is not None and any(nd.get('op') == 'call' and nd.get('id') == c.e.get('id') for nd in walk(rhs)) and strip_casts(lhs).get('op') == 'ref':
                var = strip_casts(lhs)['name']
        tolerant = False
        if var is not None:
            # blocks reachable from the call before the result is overwritten
            seen = set()
            work = [c.block]
            first = True
            while work:
                b = work.pop()
                if b.id in seen:
                    continue
                seen.add(b.id)
                evs = b.events[c.idx + 1:] if (first and b is c.block) else b.events
                first = False
                killed = any(e2.k == 'store' and strip_casts(e2.store_parts()[0]).get('name') == var and
                             not any(nd.get('op') == 'call' and nd.get('id') == c.e.get('id') for nd in walk(e2.store_parts()[1] or {})) for e2 in evs)
                if killed:
                    continue
                cc = strip_casts(b.cond) if b.cond is not None else None
                if cc is not None and cc.get('op') == 'bin' and cc['o'] in ('!=', '==') and TRUNC in (const_of(cc['k'][0]), const_of(cc['k'][1])) and \
                        any(nd.get('op') == 'ref' and nd.get('name') == var for nd in walk(cc)):
                    tolerant = True
                    break
                for s_, _ in b.succs:
                    work.append(s_)
        ctx.ob(rule, tolerant, fn.name, 'jls_raw_open(.., "%s") of a file that may have no header length' % strip_casts(c.args[2]).get('s'), c.where(),
               'the result is compared with JLS_ERROR_TRUNCATED before it counts as a failure' if tolerant else
               'any non-zero result ends the open: jls_raw_open returns JLS_ERROR_TRUNCATED for a header without a length - the very state this branch is there to repair - so the file cannot be opened (once; the error path may leave a length behind)')
    ctx.floor('writable re-opens in jls_rd_open', n, 2)


def repair_summary_bound_rule(ctx, P, rule):
    from ..fd import FD, Top
    fn = P.fn('jls_core_repair_fsr')
    ctx.saw(fn, 1)
    fd = FD(P)
    n = 0
    for b in fn.blocks.values():
        c = strip_casts(b.cond) if b.cond is not None else None
        if c is None or c.get('op') != 'bin' or c['o'] not in ('>', '>='):
            continue
        l, r = strip_casts(c['k'][0]), c['k'][1]
        if not (l.get('op') == 'member' and l.get('field') == 'payload_length'):
            continue
        if not any(m.get('op') == 'member' and m.get('field') == 'summary_entries' for m in walk(r)):
            continue
        n += 1
        env = {}
        for m in walk(r):
            if m.get('op') == 'member' and fn.path(m) is not None:
                if m.get('field') == 'summary_entries':
                    env[str(fn.path(m))] = 10
                if m.get('field') == 'entry_size_bits':
                    env[str(fn.path(m))] = 256
        try:
            v = fd.ev(fn, r, env)
        except (Top, ZeroDivisionError):
            raise AnalysisBroken('jls_core_repair_fsr: bound on the summary length not evaluable: %s' % show(r)[:80])
        ok = v >= 16 + 10 * 32
        ctx.ob(rule, ok, fn.name, 'bound on the length of a stored SUMMARY', '%s:%d' % (fn.file, b.line),
               'allows %d bytes for 10 entries of 256 bits' % v if ok else
               'allows only %d bytes for 10 entries of 256 bits (header + 10 x 32 = 336 are needed): every level summary of an i32 / u32 / i64 / u64 / f64 signal is taken for a broken link, the rebuild of an unclosed file stops there and the signal ends at the last indexed block' % v)
    ctx.floor('bounds on a stored SUMMARY in the FSR rebuild', n, 1)
