"""Chunk constructors and the write-then-link discipline (shared by C03, C05, C14)."""
from ..ir import strip_casts, walk, show, kids, Path, obj_prefix
from ..graph import ev_dominates, find_path, ret_class

FROZEN = ('tag', 'rsv0_u8', 'chunk_meta', 'payload_length', 'item_prev')
HDR_REC = 'jls_chunk_header_s'


class Ctor:
    """A chunk constructor inside one function: X.offset = jls_raw_chunk_tell(); ... jls_raw_wr(&X.hdr)."""

    def __init__(self, fn, obj, offset_store, wr_calls):
        self.fn = fn
        self.obj = obj                  # Path of the jls_core_chunk_s object
        self.offset_store = offset_store
        self.wr_calls = wr_calls        # jls_raw_wr events on X.hdr
        self.tag = None
        self.tag_expr = None
        self.helper = None              # name of the constructor helper when the header is filled in by a callee

    @property
    def hdr(self):
        return Path(tuple(self.obj) + ('.hdr',))


def ctor_helpers(P):
    """Functions that initialise a jls_core_chunk_s handed in by pointer (X->offset = jls_raw_chunk_tell(), header fields)
    and leave the write to their caller:  name -> (index of the chunk parameter, {header field: parameter index or None})."""
    if getattr(P, '_ctor_helpers', None) is not None:
        return P._ctor_helpers
    from .. import df
    out = {}
    for fn in P.all_functions():
        if any(True for _ in fn.calls('jls_raw_wr')):
            continue
        names = [q['name'] for q in fn.params]
        for ev in fn.stores():
            lhs, rhs, o = ev.store_parts()
            l0 = strip_casts(lhs)
            if rhs is None or o != '=' or l0.get('op') != 'member' or l0.get('field') != 'offset' or l0.get('rec') != 'jls_core_chunk_s':
                continue
            if not df.derives(fn, rhs, lambda n: n.get('op') == 'call' and n.get('callee') == 'jls_raw_chunk_tell', ev.block, ev.idx):
                continue
            base = strip_casts(l0['k'][0])
            if base.get('op') == 'ref' and base.get('rk') == 'param' and base['name'] in names:
                fields = {}
                for s2 in fn.stores():
                    l2, r2, o2 = s2.store_parts()
                    l2 = strip_casts(l2)
                    if l2.get('op') == 'member' and l2.get('rec') == HDR_REC and r2 is not None:
                        r0 = strip_casts(r2)
                        fields[l2['field']] = names.index(r0['name']) if (r0.get('op') == 'ref' and r0.get('name') in names) else None
                out[fn.name] = (names.index(base['name']), fields)
    P._ctor_helpers = out
    return out


def constructors(P):
    """All chunk constructors of the program (member-wise in a function, or through a constructor helper)."""
    out = []
    from ..ir import const_of as _const_of
    for hname, (qi, fields) in ctor_helpers(P).items():
        for fn, call in P.callers().get(hname, []):
            if qi >= len(call.args):
                continue
            obj = fn.path(call.args[qi])
            if obj is None:
                continue
            hdrp = tuple(obj) + ('.hdr',)
            wr = [c for c in fn.calls('jls_raw_wr') if len(c.args) >= 2 and fn.path(c.args[1]) is not None
                  and tuple(fn.path(c.args[1])) == hdrp]
            c = Ctor(fn, Path(tuple(obj)), call, wr)
            c.helper = hname
            ti = fields.get('tag')
            if ti is not None and ti < len(call.args):
                c.tag_expr = call.args[ti]
                c.tag = _const_of(call.args[ti])
            out.append(c)
    for fn in P.all_functions():
        for ev in fn.stores():
            lhs, rhs, o = ev.store_parts()
            if rhs is None or o != '=':
                continue
            l0 = strip_casts(lhs)
            if l0.get('op') != 'member' or l0.get('field') != 'offset' or l0.get('rec') != 'jls_core_chunk_s':
                continue
            from .. import df
            if not df.derives(fn, rhs, lambda n: n.get('op') == 'call' and n.get('callee') == 'jls_raw_chunk_tell', ev.block, ev.idx):
                continue
            p = fn.path(l0)
            obj = Path(tuple(p[:-1]))
            hdrp = tuple(obj) + ('.hdr',)
            wr = [c for c in fn.calls('jls_raw_wr') if len(c.args) >= 2 and fn.path(c.args[1]) is not None
                  and tuple(fn.path(c.args[1])) == hdrp]
            if fn.name in ctor_helpers(P):
                continue          # the helper itself: its call sites are the constructors
            c = Ctor(fn, obj, ev, wr)
            for s in fn.stores():
                l2, r2, o2 = s.store_parts()
                l2 = strip_casts(l2)
                if l2.get('op') == 'member' and l2.get('field') == 'tag' and l2.get('rec') == HDR_REC:
                    p2 = fn.path(l2)
                    if p2 is not None and tuple(p2[:-1]) == hdrp:
                        c.tag_expr = r2
                        from ..ir import const_of
                        c.tag = const_of(r2)
            out.append(c)
    return out


def hdr_field_stores(P):
    """(fn, event, field, path) for every member-wise store to a field of a
    jls_chunk_header_s object anywhere in the program."""
    for fn in P.all_functions():
        for ev in fn.stores():
            lhs, rhs, o = ev.store_parts()
            l0 = strip_casts(lhs)
            if l0.get('op') == 'member' and l0.get('rec') == HDR_REC:
                yield fn, ev, l0['field'], fn.path(l0)


def link_calls(P, _callee='jls_core_update_item_head', _head_i=1, _chunk_i=2, _depth=0):
    """(fn, event, head path, chunk path) for every site that links a chunk: direct calls of
    jls_core_update_item_head, and calls of wrappers that pass their own parameters straight through
    (the obligation then sits with the wrapper's callers)."""
    for fn, ev in P.callers().get(_callee, []):
        a = ev.args
        if len(a) <= max(_head_i, _chunk_i):
            continue
        hp, cp = fn.path(a[_head_i]), fn.path(a[_chunk_i])
        names = [p['name'] for p in fn.params]
        ca = strip_casts(a[_chunk_i])
        if ca.get('op') == 'ref' and ca.get('rk') == 'param' and ca['name'] in names and _depth < 3 and \
                not any(True for _ in fn.calls('jls_raw_wr')):
            ha = strip_casts(a[_head_i])
            hi = names.index(ha['name']) if ha.get('op') == 'ref' and ha.get('rk') == 'param' and ha['name'] in names else None
            if hi is not None and P.callers().get(fn.name):
                for x in link_calls(P, fn.name, hi, names.index(ca['name']), _depth + 1):
                    yield x
                continue
        yield fn, ev, hp, cp


def written_before_link(fn, link_ev, chunk_path):
    """Is the link call dominated by jls_raw_wr(&X.hdr) for the chunk X it links?"""
    if chunk_path is None:
        return None
    hdrp = tuple(chunk_path) + ('.hdr',)
    for c in fn.calls('jls_raw_wr'):
        if len(c.args) >= 2:
            p = fn.path(c.args[1])
            if p is not None and tuple(p) == hdrp and ev_dominates(c, link_ev):
                return c
    return None
