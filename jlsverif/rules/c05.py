"""C05 — files conform to the published format (writer side, independent of the reader)."""
import os
import json
import subprocess
import tempfile

from ..export import AnalysisBroken, VERIF, unit_flags
from ..ir import strip_casts, const_of, walk, show, kids, Path
from ..graph import find_path, ret_class, ev_dominates, control_deps_transitive, cond_facts
from ..fd import FD, Top, values_at
from .. import ser, df
from . import chunks
from .common import exceptions, compare_info

EXPL = ('Compile-time witnesses (static asserts over the repository headers, clang and gcc) for the published layout; finite-domain '
        'evaluation of the tag packing and of the padding arithmetic over all byte residues (writer and reader expressions); ordering '
        'rules on the header writer, the append operation, index/summary adjacency, END-before-close; serializer layout of the '
        'annotation payload against the struct an independent reader casts to; list membership of every chunk constructor.')
NOT_DECIDED = 'Agreement with an independent decoder on content (timestamps of upper levels, sample values).'


def run(ctx, sess):
    ctx.explanation = EXPL
    ctx.not_decided = NOT_DECIDED
    from .common import relay
    P = sess.prog('default')
    exc = exceptions('C05')
    ctx.rule('C05.1', 'layout witnesses: sizeof/offsetof of every on-disk struct and the format constants equal the published table (static asserts compiled against the repository headers)')
    ctx.rule('C05.2', 'tag table: every track tag equals FLAG | type << 3 | chunk, the pack helper produces it and the parse helpers invert it (finite-domain evaluation over all 4 x 5 pairs)')
    ctx.rule('C05.3', 'header stamping: in the header writer the CRC store follows every other store to the header and dominates the write of the header')
    ctx.rule('C05.4', 'padding: writer and reader compute the same on-disk payload size for every byte residue, header + payload + pad + crc is a multiple of 8, the pad is zero-filled, the payload CRC is little-endian at the end')
    ctx.rule('C05.12', 'a repaired file has no INDEX without its SUMMARY: on the not-closed branch of jls_rd_open the tag of the last complete chunk is examined before the truncation, and when it is an INDEX (its SUMMARY was cut off by the crash) the cut moves to the chunk before it (jls_raw_chunk_prev) - the pair is written again by the rebuild')
    ctx.rule('C05.13', 'next-item pointers of a repaired file lead to chunks: pointer repair cuts the link of every chain end it keeps - index, summary and data chunk (shared with C03.r)')
    ctx.rule('C05.15', 'track heads of a repaired file lead to chunks of the expected kind: what pointer repair changes in the head table in memory is written back on every success path (shared with C19.4) - a level that was dropped in memory only keeps its stale offset on disk, where the repair then appends chunks of another track')
    ctx.rule('C05.16', 'the reader of a repaired file returns the time-series entries a walk of the file finds: for every track kind whose index the repair does not rebuild, the reader starts at level 0 and follows the DATA chain (shared with C17.9)')
    ctx.rule('C05.17', 'item lists of a repaired file end where the file ends: for each list head the reader keeps from its first scan (user data, source definitions, signal definitions) the repairing branch of jls_rd_open calls, after the truncation and before anything is appended, a walk that follows item_next and clears it on the last chunk that can still be read and belongs to the list - a link that survives a lost tail names an offset at which the repair then writes an INDEX')
    ctx.rule('C05.18', 'the index tree reaches every chunk: at close every FSR summary level whose index holds entries is written, unless its single entry is the first chunk of the level below (shared with C01.g) - a pair that no level above names is in the file, passes every CRC and link check, and is invisible to the reader')
    ctx.rule('C05.20', 'the tracked end of the file (fend) follows a truncation: raw.c decides append vs. in-place, and with it the payload_prev_length stamp, from fpos >= fend')
    ctx.rule('C05.19', 'the definitions recovered are the ones the data was laid out with: a refused definition changes nothing in the live definition (shared with C13.2)')
    ctx.rule('C05.14', 'the recorded file length equals the file size also when the writer stopped after END: jls_rd_open remembers that the file header came without its length (TRUNCATED) and, on the path on which the END chunk is found, tests that before it succeeds (and then writes the header through a writable close)')
    ctx.rule('C05.11', 'FSR summary chunks carry what their header announces: the payload length handed to the summary writer is header + entry_count x the entry size that was stored in entry_size_bits (4 x f32 or 4 x f64, chosen by data type), not the size of a fixed struct type')
    ctx.rule('C05.5', 'previous-length bookkeeping: every successful append updates last_payload_length when at the end of the file (also for an empty payload)')
    ctx.rule('C05.6', 'adjacency: after an INDEX chunk is written, the next chunk written on every path is the SUMMARY of the same level')
    ctx.rule('C05.7', 'a chunk is linked (header cached for rewrite) only after it was written and stamped')
    ctx.rule('C05.8', 'close: END is written before the file is closed, and the file header length is the size of the file at that moment')
    ctx.rule('C05.9', 'annotation payload layout produced by the serializer equals the struct layout an independent reader casts to; chunk_meta carries signal | level << 12 at every writer site and is parsed with the same constants')
    ctx.rule('C05.10', 'every chunk constructor other than END links its chunk into a list on every success path, and item_prev comes from that list\'s head')
    r1(ctx, sess, P)
    r2(ctx, P)
    r3(ctx, P)
    r4(ctx, P)
    r5(ctx, P)
    r5b(ctx, P)
    r5c(ctx, P)
    r11(ctx, P)
    r12(ctx, P)
    r14(ctx, P)
    item_lists_rule(ctx, P, 'C05.17')
    from . import c01 as _c01, c13 as _c13
    relay(ctx, sess, _c01.run, {'C01.g': 'C05.18'}, minimum=1)
    relay(ctx, sess, _c13.run, {'C13.2': 'C05.19'}, only_functions=('jls_wr_signal_def', 'jls_wr_source_def'), minimum=2)
    from .common import relay
    from . import c19 as _c19, c17 as _c17
    relay(ctx, sess, _c19.run, {'C19.4': 'C05.15'}, minimum=1)
    relay(ctx, sess, _c17.run, {'C17.9': 'C05.16'}, minimum=1)
    from .c03 import repair_chains_rule
    repair_chains_rule(ctx, P, 'C05.13')
    r6(ctx, P)
    r7(ctx, P)
    r8(ctx, P)
    r9(ctx, P)
    r10(ctx, P)


def r1(ctx, sess, P):
    tab = json.load(open(os.path.join(VERIF, 'tables', 'format_layout.json')))
    lines = ['#include <stddef.h>', '#include <stdint.h>', '#include "jls/format.h"', '#include "jls/core.h"']
    names = []
    for rec, spec in tab.items():
        if rec in ('_comment', 'constants', 'identification'):
            continue
        kw = 'union' if rec.endswith('_u') else 'struct'
        if 'size' in spec:
            names.append('sizeof(%s) == %d' % (rec, spec['size']))
            lines.append('_Static_assert(sizeof(%s %s) == %d, "W%d");' % (kw, rec, spec['size'], len(names)))
        for f, off in spec['fields'].items():
            names.append('offsetof(%s, %s) == %d' % (rec, f, off))
            lines.append('_Static_assert(offsetof(%s %s, %s) == %d, "W%d");' % (kw, rec, f, off, len(names)))
    for c, v in tab['constants'].items():
        names.append('%s == %d' % (c, v))
        lines.append('_Static_assert((%s) == %d, "W%d");' % (c, v, len(names)))
    ident = tab['identification']
    lines.append('static const uint8_t ident__[] = JLS_HEADER_IDENTIFICATION;')
    names.append('sizeof(JLS_HEADER_IDENTIFICATION) == 16')
    lines.append('_Static_assert(sizeof(ident__) == %d, "W%d");' % (len(ident), len(names)))
    # scalar fields little-endian / naturally sized: sizes of the scalar fields
    for rec, fld, sz in (('jls_chunk_header_s', 'item_next', 8), ('jls_chunk_header_s', 'chunk_meta', 2), ('jls_chunk_header_s', 'payload_length', 4),
                         ('jls_payload_header_s', 'entry_size_bits', 2), ('jls_annotation_s', 'y', 4)):
        names.append('sizeof(%s.%s) == %d' % (rec, fld, sz))
        lines.append('_Static_assert(sizeof(((struct %s *) 0)->%s) == %d, "W%d");' % (rec, fld, sz, len(names)))
    src = os.path.join(sess.scratch, 'witness.c')
    with open(src, 'w') as f:
        f.write('\n'.join(lines) + '\n')
    failed = {}
    for cc, extra in (('clang', ['-ferror-limit=0']), ('gcc', ['-fmax-errors=0'])):
        flags = [x for x in unit_flags(sess.repo, 'witness.c', []) if not x.startswith('-resource-dir') and not x.startswith('/usr/lib/llvm')]
        # drop the clang-only resource dir pair
        flags2 = []
        skip = False
        for x in unit_flags(sess.repo, 'witness.c', []):
            if skip:
                skip = False
                continue
            if x == '-resource-dir':
                skip = True
                continue
            if x == '-Wno-everything' and cc == 'gcc':
                flags2.append('-w')
                continue
            flags2.append(x)
        p = subprocess.run([cc, '-fsyntax-only'] + flags2 + extra + [src], stdout=subprocess.PIPE, stderr=subprocess.STDOUT, text=True)
        out = p.stdout
        import re
        bad = set(int(m) for m in re.findall(r'W(\d+)', out))
        if p.returncode != 0 and not bad:
            raise AnalysisBroken('witness unit does not compile with %s:\n%s' % (cc, out[-1500:]))
        failed[cc] = bad
    for i, n in enumerate(names, 1):
        bad = [cc for cc in failed if i in failed[cc]]
        ctx.ob('C05.1', not bad, 'format.h', n, 'include/jls/format.h', 'holds for clang and gcc' if not bad else 'static assertion fails (%s): the on-disk layout differs from the published format' % ','.join(bad))
    # the identification bytes themselves (global initialiser of raw.c)
    g = P.glob('FILE_HDR')
    vals = [const_of(x) for x in kids(g['init'])] if g.get('init') else []
    ctx.ob('C05.1', vals == ident, 'FILE_HDR', 'identification bytes', '%s:%d' % (g['file'], g['line']), 'bytes %s' % vals[:16])
    ctx.note('C05.1: %d static assertions compiled with clang and gcc' % len(names))


def r2(ctx, P):
    fd = FD(P)
    types = {it['name'][len('JLS_TRACK_TYPE_'):]: it['v'] for it in P.enum('jls_track_type_e')['items'] if it['name'] != 'JLS_TRACK_TYPE_COUNT'}
    chunks_ = {it['name'][len('JLS_TRACK_CHUNK_'):]: it['v'] for it in P.enum('jls_track_chunk_e')['items']}
    flag = 0x20
    pack = P.fn('jls_track_tag_pack')
    ptype = P.fn('jls_core_tag_parse_track_type')
    pchunk = P.fn('jls_core_tag_parse_track_chunk')
    n = 0
    for tn, tv in sorted(types.items()):
        for cn, cv in sorted(chunks_.items()):
            name = 'JLS_TAG_TRACK_%s_%s' % (tn, cn)
            if name not in P.enum_consts:
                ctx.ob('C05.2', False, 'jls_tag_e', name, 'include/jls/format.h', 'enumerator missing')
                continue
            n += 1
            want = flag | ((tv & 3) << 3) | (cv & 7)
            got = P.enum_consts[name]
            try:
                packed = fd.call(pack, [tv, cv])
                t2 = fd.call(ptype, [got])
                c2 = fd.call(pchunk, [got])
            except Top:
                raise AnalysisBroken('tag helpers not evaluable')
            ok = got == want and packed == want and t2 == tv and c2 == cv
            ctx.ob('C05.2', ok, 'jls_tag_e', name, 'include/jls/format.h',
                   'value 0x%02x = FLAG | %d << 3 | %d; pack -> 0x%02x; parse -> (%d, %d)' % (got, tv, cv, packed, t2, c2))
    ctx.floor('track tags', n, 20)
    # the constructors of track chunks use the pack helper with the matching chunk kind
    for fname, kind in (('jls_core_wr_data', 'DATA'), ('jls_core_wr_index', 'INDEX'), ('jls_core_wr_summary', 'SUMMARY'), ('jls_track_wr_def', 'DEF'), ('jls_track_wr_head', 'HEAD')):
        f = P.fn(fname)
        ctx.saw(f)
        ok = False
        for fn2, ev, field, p in chunks.hdr_field_stores(P):
            if fn2 is f and field == 'tag':
                rhs = strip_casts(ev.store_parts()[1])
                if rhs.get('op') == 'call' and rhs.get('callee') == 'jls_track_tag_pack' and const_of(kids(rhs)[1]) == chunks_[kind]:
                    ok = True
        ctx.ob('C05.2', ok, fname, 'tag = pack(track_type, %s)' % kind, f.where(), 'constructor stamps the %s chunk kind' % kind)


def r3(ctx, P):
    f = P.fn('jls_raw_wr_header')
    ctx.saw(f)
    hp = f.params[1]['name']
    crc_st = None
    others = []
    for ev in f.stores():
        lhs, rhs, o = ev.store_parts()
        l0 = strip_casts(lhs)
        p = f.path(l0)
        if l0.get('op') == 'member' and p is not None and p.root == hp:
            if l0['field'] == 'crc32':
                crc_st = ev
            else:
                others.append(ev)
    wr = [c for c in f.calls('jls_bk_fwrite') if f.path(c.args[1]) is not None and f.path(c.args[1]).root == hp]
    if crc_st is None or not wr:
        ctx.ob('C05.3', False, f.name, 'crc stamp', f.where(), 'crc store or header write not found')
        return
    rhs = crc_st.store_parts()[1]
    ok_src = any(n.get('op') == 'call' and n.get('callee') == 'jls_crc32c_hdr' and f.path(kids(n)[0]) is not None and f.path(kids(n)[0]).root == hp for n in walk(rhs))
    ctx.ob('C05.3', ok_src, f.name, 'crc32 = jls_crc32c_hdr(hdr)', crc_st.where(), 'CRC computed over the header being written')
    for o in others:
        late = find_path(f, crc_st, lambda e2, facts: 'target' if e2 is o else None, refine=False)
        ctx.ob('C05.3', late is None, f.name, 'store to %s precedes the CRC' % strip_casts(o.store_parts()[0])['field'], o.where(),
               'before the CRC store' if late is None else 'a header field is modified after the CRC was computed', late.render() if late else None)
    for w in wr:
        ctx.ob('C05.3', ev_dominates(crc_st, w), f.name, 'CRC store dominates the header write', w.where(), '')
        # no store to the header between crc and write
        for o in others:
            if ev_dominates(crc_st, o) and ev_dominates(o, w):
                ctx.ob('C05.3', False, f.name, 'no header store between CRC and write', o.where(), '')


def r4(ctx, P):
    from ..fd import trace_calls
    fd = FD(P)
    wr = P.fn('jls_raw_wr_payload')
    need = P.fn('payload_size_on_disk')
    ctx.saw(wr)
    ctx.saw(need)
    hdr_size = P.record('jls_chunk_header_s')['size']
    fw = [c for c in wr.calls('jls_bk_fwrite')]
    if not fw:
        raise AnalysisBroken('jls_raw_wr_payload: no backend write')
    # the footer array: the local array whose elements are stored with crc bytes
    foot_name = None
    for ev in wr.stores():
        l0 = strip_casts(ev.store_parts()[0])
        if l0.get('op') == 'sub' and strip_casts(l0['k'][0]).get('op') == 'ref' and ev.store_parts()[1] is not None and \
                any(nd.get('op') == 'bin' and nd['o'] == '>>' for nd in walk(ev.store_parts()[1])):
            foot_name = strip_casts(l0['k'][0])['name']
    if foot_name is None:
        raise AnalysisBroken('jls_raw_wr_payload: CRC footer array not found')
    foot = [c for c in fw if any(nd.get('op') == 'ref' and nd.get('name') == foot_name for nd in walk(c.args[1]))]
    foot = foot[0] if foot else fw[-1]
    PAY = 0x500000
    from ..ir import path_of
    hp = None
    for c in fw:
        for a_ in c.args[1:]:
            for nd in walk(a_):
                if nd.get('op') == 'member' and nd.get('field') == 'payload_length':
                    hp = nd
    bad = []
    vals = {}
    shapes = set()
    for L in list(range(1, 65)) + [255, 256, 257, 300, 1000, 4093]:
        env = {'payload_length': L, 'self': 1, 'payload': PAY, 'self.hdr.tag': 1, 'self.backend.fpos': 0, 'self.backend.fend': 0}
        if hp is not None:
            for pp in (wr.path(hp), path_of(hp)):
                if pp is not None:
                    env[str(pp)] = L
        try:
            calls = trace_calls(P, wr, env, assume_calls=0)
        except Top:
            bad.append('L=%d: the write sequence is not decidable from the payload length' % L)
            break
        filled = {}
        stream = []      # (source, offset in source, length)
        err = None
        for callee, args, ev in calls:
            if callee in ('memcpy', '__builtin_memcpy', '__builtin___memcpy_chk') and len(args) >= 3:
                dst, src, n = args[0], args[1], args[2]
                if isinstance(dst, tuple) and dst[0] in ('var', 'off') and isinstance(n, int):
                    off = dst[2] if dst[0] == 'off' else 0
                    filled.setdefault(dst[1], []).append((off, src, n))
            if callee != 'jls_bk_fwrite' or len(args) < 3:
                continue
            buf, n = args[1], args[2]
            if not isinstance(n, int):
                err = 'write length not decidable'
                break
            if isinstance(buf, int):
                stream.append(('payload', buf - PAY, n))
            elif isinstance(buf, tuple) and buf[0] == 'var' and buf[1] == foot_name:
                stream.append(('footer', 0, n))
            elif isinstance(buf, tuple) and buf[0] == 'var' and buf[1] in filled:
                pos = 0
                for off, src, m in sorted(filled[buf[1]], key=lambda t: t[0]):
                    if off != pos:
                        err = 'staging buffer %s has a hole at %d' % (buf[1], pos)
                        break
                    if isinstance(src, int):
                        stream.append(('payload', src - PAY, m))
                    elif isinstance(src, tuple) and src[0] == 'var' and src[1] == foot_name:
                        stream.append(('footer', 0, m))
                    else:
                        err = 'staging buffer %s filled from an unknown source' % buf[1]
                        break
                    pos += m
                if err is None and pos != n:
                    err = 'staging buffer %s: %d bytes filled, %d written' % (buf[1], pos, n)
            else:
                err = 'write from an unknown buffer'
            if err:
                break
        try:
            want = fd.call(need, [L])
        except Top:
            raise AnalysisBroken('payload_size_on_disk not evaluable')
        if err is None:
            shapes.add(tuple(s_[0] for s_ in stream))
            if [s_[0] for s_ in stream] != ['payload', 'footer'] or stream[0][1] != 0 or stream[0][2] != L or stream[1][1] != 0:
                err = 'bytes on disk are not payload[0..L) followed by the footer from its first byte: %s' % stream
        if err is None:
            total = stream[0][2] + stream[1][2]
            vals[L % 8] = total - L
            if total != want:
                err = 'writer emits %d bytes, reader expects %d' % (total, want)
            elif (hdr_size + total) % 8:
                err = 'chunk size %d is not a multiple of 8' % (hdr_size + total)
        if err:
            bad.append('L=%d: %s' % (L, err))
    ctx.ob('C05.4', not bad, wr.name, 'on-disk payload size agrees with the reader for every residue', foot.where(),
           'payload then footer; pad+crc per residue %s' % sorted(vals.items()) if not bad else '; '.join(bad[:3]))
    # zero fill: memset(footer, 0, sizeof) dominates the footer stores and the write
    class _FP(tuple):
        @property
        def root(self):
            return self[1]
    fp = _FP(('local', foot_name))
    ms = [c for c in wr.calls(('memset', '__builtin_memset', '__builtin___memset_chk')) if wr.path(c.args[0]) is not None
          and wr.path(c.args[0]).root == foot_name and const_of(c.args[1]) == 0]
    ok = bool(ms) and all(ev_dominates(ms[0], c_) for c_ in fw)
    full = bool(ms) and const_of(ms[0].args[2]) is not None and const_of(ms[0].args[2]) >= 11
    ctx.ob('C05.4', ok and full, wr.name, 'pad bytes are zero', foot.where(), 'footer zero-filled (%s bytes) before use' % (const_of(ms[0].args[2]) if ms else None))
    # crc bytes at footer[pad + i] with shift 8*i, from jls_crc32c(payload, length)
    got = set()
    for ev in wr.stores():
        lhs, rhs, o = ev.store_parts()
        l0 = strip_casts(lhs)
        if l0.get('op') == 'sub' and fp is not None and wr.path(l0) is not None and wr.path(l0).root == fp.root:
            idx = strip_casts(l0['k'][1])
            k = const_of(idx['k'][1]) if idx.get('op') == 'bin' and idx['o'] == '+' else (0 if idx.get('op') == 'ref' else None)
            r = strip_casts(rhs)
            sh = 0
            while r is not None and r.get('op') == 'bin' and r['o'] == '&':
                r = strip_casts(r['k'][0])
            if r is not None and r.get('op') == 'bin' and r['o'] == '>>':
                sh = const_of(r['k'][1])
            got.add((k, sh))
    ctx.ob('C05.4', got == {(0, 0), (1, 8), (2, 16), (3, 24)}, wr.name, 'payload CRC little-endian after the pad', foot.where(), 'footer[pad + k] = crc >> s: %s' % sorted(got, key=str))
    # footer write length = pad + CRC and it starts at footer[0]
    ctx.ob('C05.4', fp is not None and len(fp) == 2, wr.name, 'footer written from its first byte', foot.where(), str(fp))


def r5(ctx, P):
    f = P.fn('jls_raw_wr_payload')
    ctx.saw(f)
    stores = []
    for ev in f.stores():
        l0 = strip_casts(ev.store_parts()[0])
        if l0.get('op') == 'member' and l0.get('field') == 'last_payload_length':
            stores.append(ev)
    # edges meaning "not at the end of the file" (fpos < fend)
    not_append = set()
    for b in f.blocks.values():
        e = strip_casts(b.cond) if b.cond else None
        if e is not None and e.get('op') == 'bin' and e['o'] in ('>=', '>', '<', '<='):
            lp, rp = f.path(strip_casts(e['k'][0])), f.path(strip_casts(e['k'][1]))
            if lp is not None and rp is not None and {lp.last_field(), rp.last_field()} == {'fpos', 'fend'}:
                o = e['o']
                if lp.last_field() == 'fend':
                    o = {'>=': '<=', '>': '<', '<': '>', '<=': '>='}[o]
                not_append.add((b.id, 'F' if o in ('>=', '>') else 'T'))

    def on_event(ev, facts):
        if ev in stores:
            return 'stop'
        if ev.k == 'ret' and ret_class(f, ev, facts) in ('zero',):
            return 'target'
        return None
    w = find_path(f, 'entry', on_event, edge_ok=lambda b, s, label: (b.id, label) not in not_append)
    ctx.ob('C05.5', w is None and bool(stores), f.name, 'last_payload_length updated on every successful append', f.where(),
           'every zero return at end-of-file passes the update' if (w is None and stores) else
           'a successful append can return without updating last_payload_length (empty payload): the next chunk header then carries the payload_prev_length of an older chunk and backward navigation lands inside a chunk',
           w.render() if w else None)
    # ... and only an append updates it: a payload rewritten in place (a track head table) is not the last chunk of the file
    append_edges = set((bid, 'T' if lab == 'F' else 'F') for bid, lab in not_append)
    for st in stores:
        deps = control_deps_transitive(f, st.block.id)
        guarded = any((bid, lab) in append_edges for bid, lab in deps)
        ctx.ob('C05.5', guarded, f.name, 'last_payload_length changes only at the end of the file', st.where(),
               'behind the fpos >= fend test' if guarded else
               'the length of a payload that is rewritten in place (the 128-byte head table of a track) is recorded as the length of the last chunk: the next appended chunk carries it as payload_prev_length, and stepping back from that chunk (the open does so when an unclosed file ends in an INDEX) lands inside another chunk')
    # the value stored is the length just written
    for st in stores:
        rhs = strip_casts(st.store_parts()[1])
        ok = (rhs.get('op') == 'ref' and rhs.get('name') == 'payload_length') or (f.path(rhs) is not None and f.path(rhs).last_field() == 'payload_length') or const_of(rhs) == 0
        ctx.ob('C05.5', ok, f.name, 'value stored is the payload length just written', st.where(), show(rhs))
    # the header writer stamps from it
    h = P.fn('jls_raw_wr_header')
    ok = False
    for ev in h.stores():
        lhs, rhs, o = ev.store_parts()
        if strip_casts(lhs).get('field') == 'payload_prev_length' and rhs is not None and h.path(strip_casts(rhs)) is not None and h.path(strip_casts(rhs)).last_field() == 'last_payload_length':
            ok = True
    ctx.ob('C05.5', ok, h.name, 'payload_prev_length = last_payload_length', h.where(), '')


def r5c(ctx, P):
    """the tracked end of the file follows a truncation: raw.c decides append vs. in-place (and with it the
    payload_prev_length stamp and last_payload_length) from fpos >= fend"""
    f = P.fn('jls_bk_truncate')
    ctx.saw(f)
    n = 0
    for ev in f.stores():
        lhs, rhs, o = ev.store_parts()
        l0 = strip_casts(lhs)
        if l0.get('op') == 'member' and l0.get('field') == 'fend' and rhs is not None:
            rp = f.path(strip_casts(rhs))
            if rp is not None and rp.last_field() == 'fpos':
                # unconditional, or conditional only on comparisons (fend vs. fpos; the error return of the system call)
                n += 1
    ctx.ob('C05.20', n >= 1, f.name, 'fend is lowered to fpos after the file was cut there', f.where(),
           'fend = fpos present' if n else
           'after the truncation the tracked end still names the old length: the chunks the repair appends are taken for in-place rewrites (fpos < fend), payload_prev_length is not stamped and last_payload_length not updated, so the backward chain from END lands inside a chunk')


def r5b(ctx, P):
    """a file opened for appending knows the payload length of its last chunk before anything is appended"""
    from ..graph import success_return
    # functions that store last_payload_length (non-constant) and those that always reach one before returning 0
    setters = set()
    for g in P.fns_in('src/raw.c'):
        for ev in g.stores():
            lhs, rhs, o = ev.store_parts()
            if strip_casts(lhs).get('field') == 'last_payload_length' and rhs is not None and const_of(rhs) is None:
                setters.add(g.name)
    changed = True
    while changed:
        changed = False
        for g in P.all_functions():
            if g.name in setters or not any(c.callee in setters for c in g.calls()):
                continue
            w = find_path(g, 'entry', lambda ev, facts: 'stop' if (ev.k == 'call' and ev.callee in setters) else
                          ('target' if (ev.k == 'ret' and ret_class(g, ev, facts) in ('zero',)) else None))
            if w is None:
                setters.add(g.name)
                changed = True
    appenders = set(g.name for g in P.all_functions() if 'jls_raw_wr_header' in P.reachable_from([g.name])) | {'jls_raw_wr_header'}
    n = 0
    for fn in P.all_functions():
        for op in fn.calls('jls_raw_open'):
            m = strip_casts(op.args[2]) if len(op.args) > 2 else None
            mode = m.get('s') if m is not None else None
            if mode is None and m is not None:
                mode = m.get('str') or m.get('v')
            if mode != 'a':
                continue
            n += 1
            ctx.saw(fn, 1)
            # only continuations on which every call so far succeeded (error exits close the file and give up)
            from ..guard import zero_edges_of_call
            err_edges = set()
            for c in fn.calls():
                for (bid, lab) in zero_edges_of_call(fn, c):
                    err_edges.add((bid, 'F' if lab == 'T' else 'T'))
            err_edges -= set(e_ for c in fn.calls() for e_ in zero_edges_of_call(fn, c))
            w = find_path(fn, op, lambda ev, facts: 'stop' if (ev.k == 'call' and ev.callee in setters) else
                          ('target' if (ev.k == 'call' and ev.callee in appenders) else None),
                          edge_ok=lambda b, s_, label: (b.id, label) not in err_edges)
            ctx.ob('C05.5', w is None, fn.name, 'append-mode open establishes last_payload_length before the first append', op.where(),
                   'the first writing call after the open is one of %s' % sorted(setters & set(c.callee for c in fn.calls())) if w is None else
                   'after reopening the file for append a chunk header is written while last_payload_length is still 0: the next chunk carries payload_prev_length 0 and the file cannot be walked backwards',
                   w.render() if w else None)
    ctx.floor('append-mode opens', n, 1)


def r6(ctx, P):
    writers = set(f.name for f in P.all_functions() if 'jls_raw_wr' in P.reachable_from([f.name]) or f.name == 'jls_raw_wr')

    def only_writes(fn, allowed, depth=0):
        """fn's chunk-writing callees are all in `allowed` (wrappers)."""
        cw = [ev.callee for ev in fn.calls() if ev.callee in writers]
        return bool(cw) and all(c in allowed for c in cw)
    IDX = {'jls_core_wr_index'}
    SUM = {'jls_core_wr_summary'}
    for f in P.all_functions():
        if f.name not in IDX and only_writes(f, IDX):
            IDX.add(f.name)
        if f.name not in SUM and only_writes(f, SUM):
            SUM.add(f.name)
    n = 0
    for f in P.all_functions():
        if f.name in IDX:
            continue
        for ev in f.calls():
            if ev.callee not in IDX:
                continue
            n += 1
            ctx.saw(f, 1)
            lvl_i = _level_arg(P, ev)

            hit = {}

            def on_event(e2, facts):
                if e2.k == 'call' and e2.callee in SUM:
                    lv = _level_arg(P, e2)
                    if lvl_i is not None and lv is not None and lv != lvl_i:
                        hit['why'] = 'summary written for level `%s`, index for `%s`' % (lv, lvl_i)
                        return 'target'
                    return 'stop'
                if e2.k == 'call' and e2.callee in writers:
                    hit['why'] = '%s() writes another chunk between the INDEX and its SUMMARY' % e2.callee
                    return 'target'
                if e2.k == 'ret' and ret_class(f, e2, facts) in ('zero',):
                    hit['why'] = 'success is returned after the INDEX with no SUMMARY written'
                    return 'target'
                return None
            # start: the index write succeeded
            from .common import nonzero_starts
            from ..guard import zero_edges_of_call
            ze = zero_edges_of_call(f, ev)
            w = None
            if ze:
                for (bid, lab) in ze:
                    b2 = f.blocks[bid]
                    for i, (s, l2) in enumerate(b2.succs):
                        if l2 == lab:
                            w = w or find_path(f, (b2, i), on_event)
            else:
                w = find_path(f, ev, on_event)
            ctx.ob('C05.6', w is None, f.name, 'SUMMARY follows %s()' % ev.callee, ev.where(),
                   'the next chunk written is the SUMMARY of the same level' if w is None else hit.get('why', ''), w.render() if w else None)
    ctx.floor('index write sites', n, 2)


def _level_arg(P, ev):
    g = P.functions.get(ev.callee)
    if g is None:
        return None
    for i, p in enumerate(g.params):
        if p['name'] == 'level' and i < len(ev.args):
            return show(strip_casts(ev.args[i]))
    return None


def r7(ctx, P):
    n = 0
    for fn, ev, hp, cp in chunks.link_calls(P):
        n += 1
        ctx.saw(fn, 1)
        w = chunks.written_before_link(fn, ev, cp)
        ctx.ob('C05.7', w is not None, fn.name, 'link %s' % cp, ev.where(),
               'written and stamped before it is cached' if w else 'linked before jls_raw_wr: the cached header lacks payload_prev_length/crc32 and a later rewrite puts payload_prev_length 0 on disk')
    ctx.floor('link call sites', n, 8)


def r8(ctx, P):
    for fname in ('jls_wr_close', 'jls_rd_open'):
        f = P.fn(fname)
        ctx.saw(f)
        ends = list(f.calls('jls_core_wr_end'))
        closes = list(f.calls('jls_raw_close'))
        if fname == 'jls_wr_close':
            ok = bool(ends) and bool(closes) and all(any(ev_dominates(e, c) for e in ends) for c in closes)
            ctx.ob('C05.8', ok, fname, 'END before close', f.where(), 'jls_core_wr_end dominates jls_raw_close: %s' % ok)
        else:
            # repair path: the close that follows the truncate is preceded by END
            tr = list(f.calls('jls_bk_truncate'))
            for t in tr:
                after = [c for c in closes if ev_dominates(t, c)]
                ok = bool(after) and all(any(ev_dominates(e, c) and ev_dominates(t, e) for e in ends) for c in after)
                ctx.ob('C05.8', ok, fname, 'repair: END before close', t.where(), 'jls_core_wr_end lies between truncate and close: %s' % ok)
    # file header length = size of the file
    w = P.fn('wr_file_header')
    ctx.saw(w)
    ok = False
    detail = 'length initialiser not found'
    for ev in w.events('decl'):
        if ev.t == 's:jls_file_header_s' and ev.e is not None and ev.e.get('op') == 'init':
            fields = ev.e.get('fields', [])
            if 'length' in fields:
                le = kids(ev.e)[fields.index('length')]
                v = strip_casts(le)
                if v.get('op') == 'ref':
                    defs, _ = df.reaching_defs(w, v['name'], ev.block, ev.idx)
                    tell = all(any(n.get('op') == 'call' and n.get('callee') == 'jls_bk_ftell' for n in walk(d.store_parts()[1] or {})) for d in defs) and bool(defs)
                    seek_end = [c for c in w.calls('jls_bk_fseek') if const_of(c.args[2]) == 2 and const_of(c.args[1]) == 0 and defs and all(ev_dominates(c, d) for d in defs)]
                    # no other seek between SEEK_END and the tell
                    ok = tell and bool(seek_end)
                    for c in w.calls('jls_bk_fseek'):
                        if seek_end and c is not seek_end[-1] and ev_dominates(seek_end[-1], c) and all(ev_dominates(c, d) for d in defs):
                            ok = False
                    detail = 'length = ftell after seek(0, SEEK_END): %s' % ok
    ctx.ob('C05.8', ok, w.name, 'header length is the file size', w.where(), detail)
    c = P.fn('jls_raw_close')
    ok = any(ev.callee == 'wr_file_header' for ev in c.calls())
    ctx.ob('C05.8', ok, c.name, 'close rewrites the file header', c.where(), '')


def r9(ctx, P):
    w = P.fn('jls_wr_annotation')
    r = P.fn('jls_core_annotations')
    ctx.saw(w)
    ctx.saw(r)
    seq = ser.sequence(w, [ev for ev in w.calls() if ev.callee in ser.WR])
    lay = ser.layout_of(seq)
    rec = P.record('jls_annotation_s')
    offs = {f['name']: f['off_bits'] // 8 for f in rec['fields']}
    n = 0
    for off, kind, width, name in lay:
        if name in offs and kind != 'pad':
            n += 1
            ctx.ob('C05.9', offs[name] == off, w.name, 'payload offset of %s' % name, w.where(), 'serializer %d, struct %d' % (off, offs[name]))
    # the length word precedes the data at data_size / data
    tail = [t for t in lay if t[1] in ('bin', 'str')]
    pre = [t for t in lay if t[0] == offs['data_size']]
    ctx.ob('C05.9', bool(pre) and pre[0][1] == 'u' and pre[0][2] == 4, w.name, 'u32 length word at data_size', w.where(), str(pre))
    ctx.floor('annotation fields matched by name', n, 5)
    # the reader casts the payload to the struct
    cast = False
    for ev in r.stores():
        rhs = ev.store_parts()[1]
        if rhs is not None and rhs.get('t') == 'p:s:jls_annotation_s' and any(nd.get('op') == 'member' and nd.get('field') == 'start' for nd in walk(rhs)):
            cast = True
    ctx.ob('C05.9', cast, r.name, 'payload read through struct jls_annotation_s', r.where(), '')
    # chunk_meta packing
    shifts = {}
    for fn, ev, field, p in chunks.hdr_field_stores(P):
        if field != 'chunk_meta':
            continue
        rhs = ev.store_parts()[1]
        lv = [nd for nd in walk(rhs) if nd.get('op') == 'bin' and nd['o'] == '<<']
        if lv:
            shifts[fn.name] = sorted(set(const_of(x['k'][1]) for x in lv))
    n2 = 0
    for fname in ('jls_core_wr_data', 'jls_core_wr_summary', 'jls_core_wr_index'):
        n2 += 1
        ctx.ob('C05.9', shifts.get(fname) == [12], fname, 'chunk_meta = signal_id | level << 12', P.fn(fname).where(), 'shift constants %s' % shifts.get(fname))
    # reader sites: >> 12 and & 0x0fff
    rd = set()
    for fn in P.all_functions():
        for b in fn.blocks.values():
            items = [ev.e for ev in b.events if ev.e is not None] + ([b.cond] if b.cond is not None else [])
            for e in items:
                for nd in walk(e):
                    if nd.get('op') == 'bin' and nd['o'] in ('>>', '&') and const_of(nd['k'][1]) is not None and \
                            any(x.get('op') == 'member' and x.get('field') == 'chunk_meta' for x in walk(nd['k'][0])):
                        rd.add((nd['o'], const_of(nd['k'][1])))
    ok = all(c in (('>>', 12), ('&', 0x0fff), ('&', 0x0f), ('&', 0xf000), ('&', 0x00ff)) for c in rd) and ('&', 0x0fff) in rd
    ctx.ob('C05.9', ok, 'readers', 'chunk_meta parsed with >> 12 / & 0x0fff', 'src/', 'constants used %s' % sorted(rd))


def r10(ctx, P):
    ctors = [c for c in chunks.constructors(P) if c.wr_calls]
    END = P.enum_consts['JLS_TAG_END']
    n = 0
    for c in ctors:
        if c.tag == END:
            continue
        n += 1
        fn = c.fn
        ctx.saw(fn)
        links = [(ev, hp) for (f2, ev, hp, cp) in chunks.link_calls(P) if f2 is fn and cp is not None and tuple(cp) == tuple(c.obj)]
        # every path from a successful jls_raw_wr to a zero return passes the link
        bad = None
        for w in c.wr_calls:
            def on_event(e2, facts):
                if any(e2 is l for l, _ in links):
                    return 'stop'
                if e2.k == 'ret' and ret_class(fn, e2, facts) in ('zero', 'unknown'):
                    # `return jls_core_update_item_head(...)` is the link itself
                    if e2.e is not None and any(nd.get('op') == 'call' and nd.get('callee') == 'jls_core_update_item_head' for nd in walk(e2.e)):
                        return 'stop'
                    return 'target'
                return None
            bad = bad or find_path(fn, w, on_event)
        ctx.ob('C05.10', bad is None and bool(links), fn.name, 'chunk %s is linked on every success path' % c.obj, c.offset_store.where(),
               'linked' if (bad is None and links) else 'a chunk is written but not linked into its list (unreachable by item_next/item_prev)', bad.render() if bad else None)
        # item_prev from the same head
        for ev in fn.stores():
            lhs, rhs, o = ev.store_parts()
            l0 = strip_casts(lhs)
            if l0.get('op') == 'member' and l0.get('field') == 'item_prev':
                p = fn.path(l0)
                if p is None or tuple(p[:-1]) != tuple(c.hdr):
                    continue
                rp = fn.path(strip_casts(rhs))
                heads = [hp for _, hp in links if hp is not None]
                ok = rp is not None and rp.last_field() == 'offset' and any(tuple(rp[:-1]) == tuple(h) for h in heads)
                ctx.ob('C05.10', ok, fn.name, 'item_prev of %s comes from its list head' % c.obj, ev.where(),
                       'item_prev = %s, linked into %s' % (rp, [str(h) for h in heads]))
    ctx.floor('linked chunk constructors', n, 8)


def r11(ctx, P):
    fn = P.fn('wr_summary', 'src/wr_fsr.c')
    ctx.saw(fn, 1)
    # the function that decides the entry width: the one whose result is stored into summary header.entry_size_bits
    width_fns = set()
    for g in P.fns_in('src/wr_fsr.c'):
        for ev in g.stores():
            lhs, rhs, o = ev.store_parts()
            if strip_casts(lhs).get('field') == 'entry_size_bits' and rhs is not None and 'summary' in str(g.path(strip_casts(lhs)) or ''):
                for nd in walk(rhs):
                    if nd.get('op') == 'call' and nd.get('callee') in P.functions:
                        width_fns.add(nd['callee'])
                    if nd.get('op') == 'ref' and nd.get('rk') == 'local':
                        d_ = df.resolve_local(g, nd, ev.block, ev.idx)
                        for m in walk(d_ or {}):
                            if m.get('op') == 'call' and m.get('callee') in P.functions:
                                width_fns.add(m['callee'])
    if not width_fns:
        raise AnalysisBroken('no function found that decides the summary entry width')
    n = 0
    for c in fn.calls('jls_core_wr_summary'):
        n += 1
        ln = c.args[-1]
        dep_w = df.derives(fn, ln, lambda nd: (nd.get('op') == 'call' and nd.get('callee') in width_fns) or
                           (nd.get('op') == 'member' and nd.get('field') == 'entry_size_bits'), c.block, c.idx, must=True)
        dep_n = df.derives(fn, ln, lambda nd: nd.get('op') == 'member' and nd.get('field') == 'entry_count', c.block, c.idx, must=True)
        ctx.ob('C05.11', dep_w and dep_n, fn.name, 'summary payload length', c.where(),
               'computed from entry_count and the entry width (%s)' % ', '.join(sorted(width_fns)) if (dep_w and dep_n) else
               'the payload length does not depend on the entry width chosen for this data type: summaries of types with 4 x f64 entries are written half and the reader runs past the payload')
    ctx.floor('FSR summary writes', n, 1)



def r12(ctx, P):
    fn = P.fn('jls_rd_open')
    ctx.saw(fn)
    tr = list(fn.calls('jls_bk_truncate'))
    if not tr:
        if hasattr(ctx, '_map') and 'C05.12' not in ctx._map:
            return          # run for another property that shares other rules of this set: C03.b reports the missing truncation
        raise AnalysisBroken('jls_rd_open: no truncation')
    # compares of the chunk tag with the INDEX kind
    tests = []
    for b in fn.blocks.values():
        c = strip_casts(b.cond) if b.cond is not None else None
        if c is None or c.get('op') != 'bin' or c['o'] not in ('==', '!='):
            continue
        if any(m.get('op') == 'member' and m.get('field') == 'tag' for m in walk(c)) and \
                (const_of(c['k'][1]) == 3 or any(m.get('op') == 'ref' and 'INDEX' in (m.get('name') or '') for m in walk(c))):
            tests.append((b, 'T' if c['o'] == '==' else 'F'))
    for t in tr:
        ok = False
        why = 'no test of the last chunk\'s tag for the INDEX kind before the truncation'
        for b, lab in tests:
            i_ = [k for k, (s_, l_) in enumerate(b.succs) if l_ == lab]
            if not i_:
                continue
            w = find_path(fn, (b, i_[0]), lambda e2, facts: 'stop' if (e2.k == 'call' and e2.callee == 'jls_raw_chunk_prev') else ('target' if e2 is t else None), refine=False)
            if w is None and find_path(fn, (b, i_[0]), lambda e2, facts: 'target' if e2 is t else None, refine=False) is not None:
                ok = True
            else:
                why = 'on the INDEX edge the truncation is reached without stepping to the chunk before'
        # ... for the INDEX of every track type (annotation and UTC indices are cut off from their SUMMARY by a crash just as well)
        if ok:
            from ..fd import FD, Top
            fd_ = FD(P)
            prevs = list(fn.calls('jls_raw_chunk_prev'))
            idx_tags = {it['name']: it['v'] for it in P.enum('jls_tag_e')['items'] if it['name'].endswith('_INDEX')}
            missed = []
            for pc in prevs:
                deps = [(bid, lab) for bid, lab in control_deps_transitive(fn, pc.block.id)
                        if fn.blocks[bid].cond is not None and any(m.get('op') == 'member' and m.get('field') == 'tag' for m in walk(fn.blocks[bid].cond))]
                if not deps:
                    continue
                for name, v in sorted(idx_tags.items()):
                    taken = True
                    for bid, lab in deps:
                        c_ = fn.blocks[bid].cond
                        keys = set(str(fn.path(m)) for m in walk(c_) if m.get('op') == 'member' and m.get('field') == 'tag' and fn.path(m) is not None)
                        try:
                            val = fd_.ev(fn, c_, {k_: v for k_ in keys})
                        except (Top, ZeroDivisionError):
                            continue
                        if bool(val) != (lab == 'T'):
                            taken = False
                    if not taken:
                        missed.append(name)
            if missed:
                ok = False
                why = 'the step back before the INDEX is taken only for some track types (not for %s)' % ', '.join(sorted(set(missed)))
        ctx.ob('C05.12', ok, fn.name, 'truncation when the last complete chunk is an INDEX', t.where(),
               'the cut moves before the INDEX' if ok else why + ': the crash fell between an INDEX and its SUMMARY, the INDEX stays in the file, the rebuild appends a new INDEX / SUMMARY pair after it, and the file then holds INDEX INDEX SUMMARY with the links of the orphan pointing at chunks that no longer point back')



def r14(ctx, P):
    fn = P.fn('jls_rd_open')
    TRUNC = P.enum_consts.get('JLS_ERROR_TRUNCATED')
    END = P.enum_consts['JLS_TAG_END']
    flags = set()
    for e_ in fn.events():
        if e_.k in ('decl', 'store') and e_.e is not None:
            rhs = e_.e if e_.k == 'decl' else e_.store_parts()[1]
            name = e_.name if e_.k == 'decl' else strip_casts(e_.store_parts()[0]).get('name')
            if rhs is not None and name and any(m_.get('op') == 'bin' and m_['o'] == '==' and TRUNC in (const_of(m_['k'][0]), const_of(m_['k'][1])) for m_ in walk(rhs)):
                flags.add(name)
    tests = {b.id for b in fn.blocks.values() if b.cond is not None and any(m_.get('op') == 'ref' and m_.get('name') in flags for m_ in walk(b.cond))}
    # the END-found edge
    ends = []
    for b in fn.blocks.values():
        ci = compare_info(b.cond) if b.cond is not None else None
        if ci is None:
            continue
        l, r_, eq_label = ci
        for x, y in ((l, r_), (r_, l)):
            px = fn.path(strip_casts(x))
            if px is not None and px.last_field() == 'tag' and const_of(y) == END:
                ends.append((b, eq_label))
    if not ends:
        raise AnalysisBroken('jls_rd_open: test of the last chunk for END not found')
    for b, lab in ends:
        i_ = [k for k, (s_, l_) in enumerate(b.succs) if l_ == lab]
        w = find_path(fn, (b, i_[0]), lambda e2, facts: 'target' if (e2.k == 'ret' and ret_class(fn, e2, facts) in ('zero', 'unknown')) else None,
                      edge_ok=lambda b_, s_, l_: b_.id not in tests, refine=False) if i_ else None
        ctx.ob('C05.14', bool(flags) and w is None, fn.name, 'file header without its length, END chunk present', b.events[-1].where() if b.events else fn.where(),
               'the open tests the remembered TRUNCATED result before it succeeds' if (flags and w is None) else
               'jls_raw_open reports the missing length (TRUNCATED), the open tolerates it, finds the END chunk and succeeds: the file keeps a header length of 0 for good (the writer stopped between the END chunk and the header update of jls_wr_close)',
               w.render() if w else None)


def item_lists_rule(ctx, P, rule):
    fn = P.fn('jls_rd_open')
    ctx.saw(fn, 1)
    core_rec = P.record('jls_core_s')
    heads = [fl['name'] for fl in core_rec['fields'] if fl['name'].endswith('_head') and 'jls_core_chunk_s' in (fl.get('t') or fl.get('type') or '')]
    if not heads:
        heads = [fl['name'] for fl in core_rec['fields'] if fl['name'] in ('user_data_head', 'source_head', 'signal_head')]
    if len(heads) < 3:
        raise AnalysisBroken('jls_core_s: list heads found: %s' % heads)
    # walkers: functions that follow item_next in a loop and can clear it and rewrite the header
    walkers = set()
    for g in P.all_functions():
        if g.file not in ('src/reader.c', 'src/core.c', 'src/track.c'):
            continue
        follows = any(ev.k in ('store', 'decl') and ev.e is not None and any(m.get('op') == 'member' and m.get('field') == 'item_next' for m in walk(ev.e)) for ev in g.events()) or \
            any(b.cond is not None and any(m.get('op') == 'member' and m.get('field') == 'item_next' for m in walk(b.cond)) for b in g.blocks.values())
        clears = any(ev.k == 'store' and strip_casts(ev.store_parts()[0]).get('op') == 'member' and strip_casts(ev.store_parts()[0]).get('field') == 'item_next' and
                     ev.store_parts()[1] is not None and const_of(strip_casts(ev.store_parts()[1])) == 0 for ev in g.stores())
        rewrites = any(c.callee in ('jls_core_update_chunk_header', 'jls_raw_wr_header') for c in g.calls())
        reads = any(c.callee == 'jls_core_rd_chunk' for c in g.calls())
        if follows and clears and rewrites and reads and g.params and any('jls_core_chunk_s' in (p_.get('t') or '') for p_ in g.params):
            walkers.add(g.name)
    tr = list(fn.calls('jls_bk_truncate'))
    appenders = [c for c in fn.calls() if c.callee in ('jls_core_repair_fsr', 'jls_core_wr_end')]
    for h in heads:
        calls = [c for c in fn.calls(tuple(walkers)) if any(m.get('op') == 'member' and m.get('field') == h for a in c.args for m in walk(a))] if walkers else []
        ok = False
        why = 'no walk of the list that starts at %s' % h
        for c in calls:
            after_cut = all(find_path(fn, t, lambda e2, facts, c=c: 'target' if e2 is c else None, refine=False) is not None for t in tr) if tr else False
            before_append = all(find_path(fn, a, lambda e2, facts, c=c: 'target' if e2 is c else None, refine=False) is None for a in appenders)
            if after_cut and before_append:
                ok = True
            else:
                why = 'the walk of %s is not placed between the truncation and the first append' % h
        ctx.ob(rule, ok, fn.name, 'list that starts at %s is ended by the repair' % h, (calls[0] if calls else fn).where(),
               'walked after the truncation and before the rebuild appends chunks' if ok else
               why + ': when the lost tail held a chunk of this list that the previous one already links to, the link stays, the rebuild writes an INDEX at that offset, and the iteration over the repaired file ends with NOT_FOUND')
