"""Helpers shared by the per-property rule sets."""
import json
import os

from ..export import VERIF, AnalysisBroken
from ..ir import strip_casts, const_of, walk, show, kids, maximal_lvalues, obj_prefix, Path
from ..graph import find_path, ret_class

READ_CHAIN = ['jls_raw_rd', 'jls_raw_rd_header', 'jls_raw_rd_payload', 'jls_core_rd_chunk',
              'jls_core_fsr_seek', 'jls_core_rd_fsr_level1', 'jls_core_rd_fsr_data0', 'jls_bk_fread']


def exceptions(prop):
    p = os.path.join(VERIF, 'tables', 'exceptions.json')
    if not os.path.exists(p):
        return {}
    with open(p) as f:
        d = json.load(f)
    return d.get(prop, {})


def compare_info(cond):
    """For a leaf condition `a == b` / `a != b` (possibly under !): returns
    (a, b, label under which a == b holds), else None."""
    if cond is None:
        return None
    e = strip_casts(cond)
    neg = False
    while e.get('op') == 'un' and e['o'] == '!':
        neg = not neg
        e = strip_casts(e['k'][0])
    if e.get('op') == 'bin' and e['o'] in ('==', '!='):
        eq_true = (e['o'] == '==') != neg
        return e['k'][0], e['k'][1], 'T' if eq_true else 'F'
    return None


def gate_obligations(fn, start_ev, gates, success=('zero', 'unknown', 'void')):
    """gates: [(block, pass_label)].  Obligation: (a) no path from start_ev to a
    success return avoids all pass edges; (b) from each fail edge only non-zero
    returns are reachable (before passing through start_ev again).
    Returns (ok, detail, witness)."""
    forb = set((b.id, lab) for b, lab in gates)

    def edge_ok(b, s, label):
        return (b.id, label) not in forb

    def on_event(ev, facts):
        if ev.k == 'ret' and ret_class(fn, ev, facts) in success:
            return 'target'
        return None

    w = find_path(fn, start_ev, on_event, edge_ok=edge_ok, on_exit=None)
    if w is not None:
        return False, 'a zero/unknown return is reachable from the read without passing the gate\'s pass edge', w.render()
    for b, lab in gates:
        for i, (s, l2) in enumerate(b.succs):
            if l2 == lab or l2 not in ('T', 'F'):
                continue

            def on_event2(ev, facts):
                if ev is start_ev:
                    return 'stop'
                if ev.k == 'ret' and ret_class(fn, ev, facts) in success:
                    return 'target'
                return None
            w2 = find_path(fn, (b, i), on_event2)
            if w2 is not None:
                return False, 'the failing edge of the gate at line %d reaches a zero/unknown return' % b.line, w2.render()
    return True, 'gate at line(s) %s' % ','.join(str(b.line) for b, _ in gates), None


def _consumed_ids(fn):
    if getattr(fn, '_consumed_ids', None) is not None:
        return fn._consumed_ids
    ids = set()
    for b in fn.blocks.values():
        if b.cond is not None:
            for n in walk(b.cond):
                ids.add(n.get('id'))
        for ev in b.events:
            if ev.e is None:
                continue
            top = ev.e.get('id')
            if ev.k == 'decl' or ev.k == 'ret':
                top = None     # the whole init / return expression is a use
            for n in walk(ev.e):
                if n.get('id') != top:
                    ids.add(n.get('id'))
    fn._consumed_ids = ids
    return ids


def consumed(fn, call_ev):
    """The call's value is used: assigned, tested, returned, or an operand."""
    ids = _consumed_ids(fn)
    if call_ev.e.get('id') in ids:
        return True, 'used'
    return False, 'result discarded'


def call_arg_path(fn, ev, i):
    a = ev.args
    if i >= len(a):
        return None
    return fn.path(a[i])


def api_roots(P, prefixes):
    return sorted(f.name for f in P.all_functions() if f.api and any(f.name.startswith(p) for p in prefixes))


def nonzero_starts(fn, call_ev):
    """Where the search for 'what happens when this call failed' starts.
    Returns list of (start, start_facts) for find_path, or 'returned' when the
    value is returned directly, or None when the use is not understood."""
    cid = call_ev.e.get('id')
    b = call_ev.block
    # tested directly in the block's condition
    if b.cond is not None and any(n.get('id') == cid for n in walk(b.cond)):
        e = strip_casts(b.cond)
        neg = False
        while e.get('op') == 'un' and e['o'] == '!':
            neg = not neg
            e = strip_casts(e['k'][0])
        labels = None
        if e.get('id') == cid:
            labels = 'F' if neg else 'T'
        else:
            ci = compare_info(b.cond)
            if ci is not None:
                l, r, eq_label = ci
                l0, r0 = strip_casts(l), strip_casts(r)
                other = r0 if l0.get('id') == cid else (l0 if r0.get('id') == cid else None)
                if other is not None and const_of(other) == 0:
                    labels = 'F' if eq_label == 'T' else 'T'
        if labels is None:
            return None
        return [((b, i), frozenset()) for i, (s, lab) in enumerate(b.succs) if lab == labels]
    for ev in b.events[call_ev.idx + 1:]:
        if ev.e is None:
            continue
        if ev.k in ('store', 'decl'):
            lhs, rhs, o = ev.store_parts()
            if rhs is not None and strip_casts(rhs).get('id') == cid and o == '=':
                l0 = strip_casts(lhs)
                if l0.get('op') == 'ref' and l0.get('rk') in ('local', 'param'):
                    return [(ev, frozenset([(l0['name'], 'ne', 0)]))]
                return None
        if ev.k == 'ret' and strip_casts(ev.e).get('id') == cid:
            return 'returned'
    return None


def propagation(fn, call_ev, same=None):
    """With the call's result non-zero, is a zero return reachable before the
    same callee is called again?  Returns (ok, detail, witness) or None when the
    use of the result is not of a known form."""
    st = nonzero_starts(fn, call_ev)
    if st is None:
        return None
    if st == 'returned':
        return True, 'returned to the caller', None
    callee = call_ev.callee
    again = same or {callee}

    def on_event(ev, facts):
        if ev.k == 'call' and ev.callee in again and ev is not call_ev:
            return 'stop'
        if ev is call_ev:
            return 'stop'
        if ev.k == 'ret' and ret_class(fn, ev, facts) in ('zero',):
            return 'target'
        return None
    for start, facts in st:
        w = find_path(fn, start, on_event, start_facts=facts)
        if w is not None:
            return False, 'with %s() != 0 a `return 0` is reachable' % callee, w.render()
    return True, 'non-zero result never reaches a zero return', None


# ---- outputs of the read chain: the objects whose content is only valid when
# the call returned 0 (DESIGN C04.7)
CORE_OUT = ('.chunk_cur', '.buf', '.rd_index', '.rd_summary', '.rd_index_chunk', '.rd_summary_chunk')
READ_OUTPUTS = {
    'jls_raw_rd': ('args', (1, 3)),
    'jls_raw_rd_header': ('args', (1,)),
    'jls_raw_rd_payload': ('args', (2,)),
    'jls_bk_fread': ('args', (1,)),
    'jls_core_rd_chunk': ('core', 0),
    'jls_core_fsr_seek': ('core', 0),
    'jls_core_rd_fsr_level1': ('core', 0),
    'jls_core_rd_fsr_data0': ('core', 0),
}
# result codes under which (part of) the output is valid by contract
BENIGN_CODES = {
    'jls_raw_rd': {'JLS_ERROR_TOO_BIG': 'the header was read and CRC-checked; no payload byte was read'},
    'jls_raw_rd_payload': {'JLS_ERROR_TOO_BIG': 'no payload byte was read; the cached header stays valid'},
}
NOT_A_USE = {'jls_log_printf', 'free', 'jls_buf_realloc', 'jls_buf_free', 'memset'}


def output_objects(fn, call_ev):
    kind, spec = READ_OUTPUTS[call_ev.callee]
    objs = []
    if kind == 'args':
        for i in spec:
            if i < len(call_ev.args):
                a = strip_casts(call_ev.args[i])
                if const_of(a) == 0:
                    continue
                p = fn.path(a)
                if p is not None:
                    objs.append(p)
    else:
        p = fn.path(call_ev.args[spec])
        if p is not None:
            for f in CORE_OUT:
                objs.append(Path(tuple(p) + (f,)))
    return objs


def failed_output_use(P, fn, call_ev):
    """With the call's result non-zero (and not a benign code), is a load of one
    of its output objects reachable before a read-chain call refills it?
    Returns (ok, detail, witness) or None (use of the result not understood)."""
    st = nonzero_starts(fn, call_ev)
    if st is None:
        return None
    if st == 'returned':
        return True, 'returned to the caller', None
    objs = output_objects(fn, call_ev)
    if not objs:
        return True, 'no output object', None
    benign = set(P.enum_consts.get(n) for n in BENIGN_CODES.get(call_ev.callee, {}))
    resvar = None
    for start, facts in st:
        for f in facts:
            resvar = f[0]

    def uses(e, skip_top_lhs=None):
        for n in maximal_lvalues(e):
            if skip_top_lhs is not None and n.get('id') == skip_top_lhs:
                continue
            p = fn.path(n)
            if p is None:
                continue
            for o in objs:
                if obj_prefix(o, p):
                    return p
        return None

    def benign_now(facts):
        if resvar is None:
            return False
        return any(v == resvar and k == 'eq' and c in benign for (v, k, c) in facts)

    hit = {}

    def on_event(ev, facts):
        if ev is call_ev:
            return 'stop'
        if ev.k == 'call' and ev.callee in READ_OUTPUTS:
            return 'stop'          # refilled (and re-decided) by another read
        if benign_now(facts):
            return None
        if ev.k == 'call':
            if ev.callee in NOT_A_USE:
                return None
            for a in ev.args:
                u = uses(a)
                if u is not None:
                    hit['u'] = (str(u), ev.where())
                    return 'target'
            return None
        if ev.k in ('store', 'decl'):
            lhs, rhs, o = ev.store_parts()
            u = uses(rhs) if rhs is not None else None
            if u is None and o != '=':
                u = uses(lhs)
            if u is None:
                # index expressions / base of the lhs other than the stored-to lvalue itself
                u = uses(lhs, skip_top_lhs=strip_casts(lhs).get('id'))
            if u is not None:
                hit['u'] = (str(u), ev.where())
                return 'target'
            return None
        if ev.k == 'ret' and ev.e is not None:
            u = uses(ev.e)
            if u is not None:
                hit['u'] = (str(u), ev.where())
                return 'target'
        return None

    for start, facts in st:
        w = find_path(fn, start, on_event, start_facts=facts)
        if w is not None:
            return False, 'with %s() failed, %s is still used at %s' % (call_ev.callee, hit['u'][0], hit['u'][1]), w.render()
    return True, 'outputs unused on the failure paths', None


class _Relay:
    """a context that re-emits selected obligations of another property's rule set under this property's rule ids
    (the clause is shared: both properties need it)"""
    def __init__(self, ctx, mapping, only_functions=None):
        self._ctx = ctx
        self._map = mapping
        self._only = only_functions
        self.explanation = ''
        self.not_decided = ''
        self.analysed = {'units': set(), 'functions': set(), 'call_sites': 0, 'configs': []}
        self.selftest = {}
        self.tier = ctx.tier
        self.prop = ctx.prop
        self.count = 0

    @property
    def obligations(self):
        return self._ctx.obligations

    def rule(self, rid, text):
        pass

    def saw(self, fn=None, call_sites=0):
        pass

    def floor(self, what, n, minimum):
        pass

    def note(self, s):
        pass

    def ob(self, rid, ok, function, construct, where='', detail='', witness=None):
        if rid in self._map and (self._only is None or function in self._only):
            self.count += 1
            return self._ctx.ob(self._map[rid], ok, function, construct, where, detail, witness)
        return ok


def relay(ctx, sess, module_run, mapping, only_functions=None, minimum=1):
    # nested: this rule set is itself being run for another property, which wants only some of its rules; a
    # relay whose results that property does not ask for is skipped (so that, say, a vanished anchor in the CRC
    # kernel does not break the check of the time map, which only shares C04.9)
    if isinstance(ctx, _Relay) and not (set(mapping.values()) & set(ctx._map)):
        return 0
    r = _Relay(ctx, mapping, only_functions)
    module_run(r, sess)
    ctx.floor('shared obligations %s' % sorted(mapping.values()), r.count, minimum)
    return r.count
