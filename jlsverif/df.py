"""Small dataflow helpers: reaching definitions of locals, derivation queries."""
from .ir import strip_casts, walk, path_of, const_of, kids


def stores_to_local(ev, name):
    if ev.k == 'decl':
        return ev.name == name
    if ev.k != 'store':
        return False
    lhs = strip_casts(ev.store_parts()[0])
    return lhs.get('op') == 'ref' and lhs.get('name') == name and lhs.get('rk') in ('local', 'param')


def reaching_defs(fn, name, block, idx):
    """Store/decl events assigning local `name` that reach position (block, idx)
    (idx == len(block.events) means the block's condition).  'ENTRY' is included
    when a path from the entry reaches the position with no definition."""
    res = []
    seen = set()
    work = [(block, idx)]
    entry_reaches = False
    while work:
        b, i = work.pop()
        found = False
        for ev in reversed(b.events[:i]):
            if stores_to_local(ev, name):
                if ev not in res:
                    res.append(ev)
                found = True
                break
        if found:
            continue
        if b.id == fn.entry.id:
            entry_reaches = True
        for p, _ in b.preds:
            if p.id not in seen:
                seen.add(p.id)
                work.append((p, len(p.events)))
    return res, entry_reaches


def derives(fn, e, pred, block, idx, depth=0, must=True):
    """Does the value of expression e at position (block, idx) derive from a
    node satisfying pred?  Locals are followed through their reaching
    definitions (all of them when must=True, any when must=False).  Compound
    updates (+=, ++) of a variable keep its derivation."""
    if e is None or depth > 6:
        return False
    for n in walk(e):
        if pred(n):
            return True
    for n in walk(e):
        if n.get('op') == 'ref' and n.get('rk') == 'local':
            defs, entry = reaching_defs(fn, n['name'], block, idx)
            if not defs:
                continue
            oks = []
            for d in defs:
                lhs, rhs, o = d.store_parts()
                if rhs is None:
                    # ++/--: depends on the previous value
                    oks.append(derives(fn, lhs, pred, d.block, d.idx, depth + 1, must) if o not in ('=',) else False)
                    continue
                r = derives(fn, rhs, pred, d.block, d.idx, depth + 1, must)
                if not r and o != '=':
                    r = derives(fn, lhs, pred, d.block, d.idx, depth + 1, must)
                oks.append(r)
            if (all(oks) if must else any(oks)) and not (must and entry and False):
                return True
    return False


def cond_pos(block):
    return (block, len(block.events))


def expr_mentions_path(fn, e, path, exact=False):
    """Some lvalue inside e has access path equal to / inside `path`."""
    for n in walk(e):
        if n.get('op') in ('ref', 'member', 'sub'):
            p = fn.path(n)
            if p is None:
                continue
            if exact:
                if tuple(p) == tuple(path):
                    return True
            elif p[1] == path[1] and tuple(p[2:2 + len(path) - 2]) == tuple(path[2:]):
                return True
    return False


def resolve_local(fn, e, block, idx, depth=0):
    """Follow a plain local through its single reaching definition (copies such
    as `uint32_t n = hdr->payload_length;`)."""
    e0 = strip_casts(e)
    while e0 is not None and e0.get('op') == 'ref' and e0.get('rk') == 'local' and depth < 4:
        defs, entry = reaching_defs(fn, e0['name'], block, idx)
        if len(defs) != 1 or entry:
            break
        lhs, rhs, o = defs[0].store_parts()
        if rhs is None or o != '=':
            break
        block, idx = defs[0].block, defs[0].idx
        e0 = strip_casts(rhs)
        depth += 1
    return e0
