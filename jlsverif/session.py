"""Per-run session: lazily exports configurations of /repo's working tree."""
import os

from . import export
from .ir import Program


class Session:
    def __init__(self, ctx, scratch):
        self.ctx = ctx
        self.scratch = scratch
        self._progs = {}
        self.remap = {}          # thorough tier: analyse another configuration in place of 'default'
        self.built, self.included = export.check_unit_coverage(export.REPO)

    def prog(self, config='default'):
        config = self.remap.get(config, config)
        if config not in self._progs:
            outdir = os.path.join(self.scratch, config)
            _, paths = export.export(config, export.REPO, outdir)
            units = export.load_units(paths)
            self._progs[config] = Program(units, config)
            self.ctx.analysed['configs'].append({'config': config, 'units': len(units),
                                                 'functions': len(self._progs[config].functions)})
        return self._progs[config]

    @property
    def repo(self):
        return export.REPO
