"""Obligation bookkeeping, known findings, evidence and replay files."""
import hashlib
import json
import os
import time

from .export import VERIF, AnalysisBroken

KNOWN_FILE = os.path.join(VERIF, 'known_findings.json')
FLOORS_FILE = os.path.join(VERIF, 'tables', 'floors.json')


def load_known():
    if not os.path.exists(KNOWN_FILE):
        return []
    with open(KNOWN_FILE) as f:
        return json.load(f)['findings']


def load_floors():
    if not os.path.exists(FLOORS_FILE):
        return {}
    with open(FLOORS_FILE) as f:
        return json.load(f)


class Ctx:
    """One run of one property's rule set."""

    def __init__(self, prop, tier, seed=0):
        self.prop = prop
        self.tier = tier
        self.seed = seed
        self.t0 = time.time()
        self.obligations = []      # dicts
        self.rules = {}            # rule id -> {'text':..., 'n':0, 'failed':0}
        self.analysed = {'units': set(), 'functions': set(), 'call_sites': 0, 'configs': []}
        self.notes = []
        self.floors = []
        self._dedupe = set()
        self.selftest = {}
        self.trusted = ['clang 14 front end + CFG builder', 'jlsx exporter', 'python rule engines (jlsverif)',
                        'tables/exceptions.json']
        self.explanation = ''
        self.not_decided = ''

    def rule(self, rid, text):
        self.rules.setdefault(rid, {'text': text, 'n': 0, 'failed': 0})

    def saw(self, fn=None, call_sites=0):
        if fn is not None:
            self.analysed['functions'].add(fn.name)
            self.analysed['units'].add(fn.file)
        self.analysed['call_sites'] += call_sites

    def ob(self, rid, ok, function, construct, where='', detail='', witness=None):
        """Record one obligation.  `function` + `construct` form the stable key
        (no line numbers); `where` is file:line for the report only."""
        if rid not in self.rules:
            raise KeyError('rule %s not declared' % rid)
        dk = (rid, function, construct, where)
        if dk in self._dedupe:
            return ok
        self._dedupe.add(dk)
        self.rules[rid]['n'] += 1
        if not ok:
            self.rules[rid]['failed'] += 1
        self.obligations.append({
            'rule': rid, 'ok': bool(ok), 'function': function, 'construct': construct,
            'where': where, 'detail': detail, 'witness': witness,
        })
        return ok

    def floor(self, what, n, minimum):
        """Instance floor confirmed by hand: a miss is 'analysis broken' (exit 2),
        reported only when no obligation failed (DESIGN 2.4)."""
        self.floors.append((what, n, minimum))

    def note(self, s):
        self.notes.append(s)

    # ------------------------------------------------------------------
    def finish(self, replay_only=None):
        floors = load_floors().get(self.prop, {})
        known = [k for k in load_known() if k['property'] == self.prop]
        failed = [o for o in self.obligations if not o['ok']]
        lines = []
        violations = []
        known_hit = []
        for o in failed:
            match = None
            for k in known:
                if k.get('status') != 'known':
                    continue
                kk = k['key']
                if kk.get('rule') == o['rule'] and kk.get('function') == o['function'] and kk.get('construct') == o['construct']:
                    match = k
                    break
            if match is not None:
                known_hit.append((o, match))
            else:
                violations.append(o)
        # vacuity / floors: only when no obligation failed
        broken = ['%s: %d instances, confirmed floor is %d' % f for f in self.floors if f[1] < f[2]]
        for rid, r in self.rules.items():
            fl = floors.get(rid)
            if fl is not None and r['n'] < fl:
                broken.append('rule %s matched %d instances, confirmed floor is %d' % (rid, r['n'], fl))
            if r['n'] == 0 and fl is None:
                broken.append('rule %s matched 0 instances' % rid)
        dry = bool(os.environ.get('JLS_NO_EVIDENCE'))
        if not dry:
            os.makedirs(os.path.join(VERIF, 'replay', self.prop), exist_ok=True)
        for o, k in known_hit:
            lines.append('KNOWN-FINDING: property=%s rule=%s %s :: %s — %s' % (self.prop, o['rule'], o['function'], o['construct'], k['what']))
        for o in violations:
            h = hashlib.sha1(('%s|%s|%s' % (o['rule'], o['function'], o['construct'])).encode()).hexdigest()[:10]
            path = os.path.join(VERIF, 'replay', self.prop, '%s-%s.json' % (o['rule'], h))
            if dry:
                print('FAILED ' + json.dumps({'rule': o['rule'], 'function': o['function'], 'construct': o['construct'], 'where': o['where']}))
            else:
                with open(path, 'w') as f:
                    json.dump({'property': self.prop, **o, 'rule_text': self.rules[o['rule']]['text']}, f, indent=1)
            lines.append('  %s %s: rule %s [%s] fails at %s :: %s%s' % (
                self.prop, o['where'], o['rule'], self.rules[o['rule']]['text'], o['function'], o['construct'],
                (' — ' + o['detail']) if o['detail'] else ''))
            if o.get('witness'):
                lines.append('    path: %s' % o['witness'])
            lines.append('VIOLATION property=%s replay=%s' % (self.prop, path))
        if not dry:
            self.write_evidence(len(violations), known_hit)
        for ln in lines:
            print(ln)
        nob = len(self.obligations)
        print('%s: %d obligations, %d discharged, %d known findings, %d violations; rules: %s' % (
            self.prop, nob, nob - len(failed), len(known_hit), len(violations),
            ', '.join('%s=%d' % (r, v['n']) for r, v in sorted(self.rules.items()))))
        if violations:
            return 1
        if broken:
            for b in broken:
                print('ANALYSIS-BROKEN property=%s %s' % (self.prop, b))
            return 2
        return 0

    def write_evidence(self, nviol, known_hit):
        nob = len(self.obligations)
        ndis = sum(1 for o in self.obligations if o['ok'])
        # samples: a few obligations per rule, written out
        samples = []
        per = {}
        for o in self.obligations:
            per.setdefault(o['rule'], [])
            if len(per[o['rule']]) < 3:
                per[o['rule']].append(o)
        for rid in sorted(per):
            for o in per[rid]:
                samples.append({'rule': rid, 'function': o['function'], 'construct': o['construct'],
                                'where': o['where'], 'ok': o['ok'], 'detail': o['detail'][:200]})
        distinct = len(set((o['rule'], o['function'], o['construct']) for o in self.obligations))
        ev = {
            'property_id': self.prop,
            'tier': self.tier,
            'seed': self.seed,
            'level': 'other',
            'coverage': {
                'explanation': self.explanation,
                'not_decided': self.not_decided,
                'obligations': nob,
                'discharged': ndis,
                'evaluations': max(nob, 1),
                'distinct_nontrivial': distinct,
                'rule': 'one evaluation = one rule instance (obligation) found in /repo\'s current source by the '
                        'exporter and decided by the rule engine; distinct = distinct (rule, function, construct) keys',
                'samples': samples,
                'rules': [{'id': rid, 'text': r['text'], 'instances': r['n'], 'failed': r['failed']} for rid, r in sorted(self.rules.items())],
                'units': sorted(self.analysed['units']),
                'functions_analysed': len(self.analysed['functions']),
                'functions': sorted(self.analysed['functions'])[:400],
                'call_sites': self.analysed['call_sites'],
                'configs': self.analysed['configs'],
                'known_findings_hit': [{'rule': o['rule'], 'function': o['function'], 'construct': o['construct']} for o, _ in known_hit],
                'selftest': self.selftest,
                'trusted_base': self.trusted,
                'checker_cmd': './check %s --tier %s' % (self.prop, self.tier),
                'notes': self.notes,
                'exhaustive': False,
            },
            'assumptions': self.trusted,
            'wall_s': round(time.time() - self.t0, 3),
            'violations': nviol,
        }
        os.makedirs(os.path.join(VERIF, 'evidence'), exist_ok=True)
        with open(os.path.join(VERIF, 'evidence', self.prop + '.json'), 'w') as f:
            json.dump(ev, f, indent=1, sort_keys=False)
