"""Thorough-tier cross-check of the AST call graph against an independent
extraction from -O0 LLVM IR (DESIGN §2.4): any direct edge between two
repository functions present in one and absent in the other is an analysis
failure (exit 2), never a verdict."""
import os
import re
import subprocess
from concurrent.futures import ThreadPoolExecutor

from . import export
from .export import AnalysisBroken

DEF = re.compile(r'^define\s.*?@([A-Za-z_][A-Za-z0-9_.]*)\(')
CALL = re.compile(r'\b(?:call|invoke)\b[^@\n]*@([A-Za-z_][A-Za-z0-9_.]*)\(')


def ir_edges(repo, units):
    def one(unit):
        src = os.path.join(repo, 'src', unit)
        flags = [f for f in export.unit_flags(repo, unit, []) if f != '-Wno-everything']
        cmd = ['clang', '-O0', '-Xclang', '-disable-O0-optnone', '-g0', '-S', '-emit-llvm', '-w', '-o', '-', src] + flags
        p = subprocess.run(cmd, stdout=subprocess.PIPE, stderr=subprocess.PIPE, text=True)
        if p.returncode != 0:
            raise AnalysisBroken('IR generation failed for %s: %s' % (unit, p.stderr[-500:]))
        edges = set()
        cur = None
        for line in p.stdout.splitlines():
            m = DEF.match(line)
            if m:
                cur = m.group(1)
                edges.add((cur, None))       # marker: this function is emitted
                continue
            if line.startswith('}'):
                cur = None
                continue
            if cur is not None:
                for c in CALL.findall(line):
                    edges.add((cur, c))
        return edges
    with ThreadPoolExecutor(max_workers=8) as ex:
        out = set()
        for e in ex.map(one, units):
            out |= e
    return out


def cross_check(P, repo):
    units = export.cmake_sources(repo)
    ir = ir_edges(repo, units)
    defined = set(f.name for f in P.all_functions())
    emitted = set(a for (a, b) in ir if b is None)
    ir_in = set((a, b) for (a, b) in ir if b is not None and a in defined and b in defined)
    ast = set()
    for f in P.all_functions():
        if f.name not in emitted:
            continue       # unused static inline helpers are not emitted at -O0: nothing to compare
        for ev in f.calls():
            if ev.callee in defined:
                ast.add((f.name, ev.callee))
    only_ast = sorted(ast - ir_in)
    only_ir = sorted(ir_in - ast)
    return {'ast_edges': len(ast), 'ir_edges': len(ir_in), 'only_ast': only_ast, 'only_ir': only_ir}
