"""Export /repo's current working tree to event-CFG JSON (one file per unit and
configuration) with the jlsx LibTooling exporter, and load it.

Nothing is cached between invocations: every check run re-parses the tree.
"""
import json
import os
import re
import shutil
import subprocess
import tempfile
from concurrent.futures import ThreadPoolExecutor

VERIF = os.path.dirname(os.path.dirname(os.path.abspath(__file__)))
REPO = os.environ.get('JLS_REPO', '/repo')
JLSX = os.path.join(VERIF, 'tools', 'jlsx', 'jlsx')


class AnalysisBroken(Exception):
    """The analysis itself cannot run (exit 2): missing anchor, parse error,
    vacuous rule.  Never a verdict on the property."""


def _resource_dir():
    return subprocess.check_output(['clang', '-print-resource-dir'], text=True).strip()


def cmake_sources(repo=REPO):
    """The set(SOURCES ...) list of src/CMakeLists.txt plus the POSIX backend
    (what the shipped build compiles on this platform)."""
    txt = open(os.path.join(repo, 'src', 'CMakeLists.txt')).read()
    m = re.search(r'set\(SOURCES\s+([^)]*)\)', txt)
    if not m:
        raise AnalysisBroken('src/CMakeLists.txt: set(SOURCES ...) not found')
    srcs = m.group(1).split()
    if 'backend_posix.c' not in srcs:
        srcs.append('backend_posix.c')
    return srcs


BASE_FLAGS = ['-std=gnu99', '-msse4.2', '-DNDEBUG', '-Wno-everything']

CONFIGS = {
    # name -> (extra flags, only these units or None)
    'default': ([], None),
    'crc_sw': (['-DJLS_OPTIMIZE_CRC_DISABLE=1'], ['crc32c.c']),
    'assert': (['-UNDEBUG'], None),
    'logall': (['-DJLS_LOG_LEVEL=JLS_LOG_LEVEL_ALL'], None),
    # the NEON CRC unit is not reachable from crc32c.c on this platform: parse it stand-alone for aarch64
    'neon': (['--target=aarch64-linux-gnu', '-march=armv8-a+crc', '-ffreestanding', '-isystem', os.path.join(VERIF, 'tools', 'stubs')], ['crc32c_arm_neon.c']),
}


def unit_flags(repo, unit, extra):
    base = [f for f in BASE_FLAGS if not (f == '-msse4.2' and any(x.startswith('--target=aarch64') for x in extra))]
    return base + [
        '-I' + os.path.join(repo, 'include'),
        '-I' + os.path.join(repo, 'include_prv'),
        '-D__FILENAME__="%s"' % unit,
        '-resource-dir', _resource_dir(),
    ] + extra


def export(config='default', repo=REPO, outdir=None, units=None):
    """Run jlsx over the units of a configuration.  Returns (outdir, [json paths])."""
    if not os.path.exists(JLSX):
        raise AnalysisBroken('exporter not built: run `make -C /verif/tools`')
    extra, only = CONFIGS[config]
    srcs = units or cmake_sources(repo)
    if only and not units:
        srcs = [s for s in srcs if s in only] or list(only)
    if outdir is None:
        outdir = tempfile.mkdtemp(prefix='jlsx-%s-' % config, dir=os.environ.get('JLS_SCRATCH', None))
    os.makedirs(outdir, exist_ok=True)

    def one(unit):
        src = os.path.join(repo, 'src', unit)
        out = os.path.join(outdir, unit + '.json')
        if not os.path.exists(src):
            raise AnalysisBroken('unit listed in CMakeLists.txt does not exist: src/%s' % unit)
        cmd = [JLSX, repo, out, src, '--'] + unit_flags(repo, unit, extra)
        p = subprocess.run(cmd, stdout=subprocess.PIPE, stderr=subprocess.STDOUT, text=True)
        if p.returncode != 0:
            raise AnalysisBroken('jlsx failed on src/%s (%s):\n%s' % (unit, config, p.stdout[-2000:]))
        return out

    with ThreadPoolExecutor(max_workers=16) as ex:
        outs = list(ex.map(one, srcs))
    return outdir, outs


def check_unit_coverage(repo=REPO):
    """Every .c under src/ is either built (SOURCES + posix backend), the other
    platform's backend, or textually included by crc32c.c."""
    built = set(cmake_sources(repo))
    allc = set(f for f in os.listdir(os.path.join(repo, 'src')) if f.endswith('.c'))
    crc = open(os.path.join(repo, 'src', 'crc32c.c')).read()
    included = set(re.findall(r'#include\s+"(crc32c_[a-z0-9_]+\.c)"', crc))
    other = allc - built - included - {'backend_win.c'}
    if other:
        raise AnalysisBroken('source files not covered by any analysed unit: %s' % sorted(other))
    return sorted(built), sorted(included)


def load_units(paths):
    units = []
    for p in paths:
        with open(p) as f:
            units.append(json.load(f))
    return units


def cleanup(outdir):
    shutil.rmtree(outdir, ignore_errors=True)


def macros(repo=REPO, unit='core.c', extra=()):
    """Object-like macro definitions visible at the end of a unit (-dM -E)."""
    cmd = ['clang', '-dM', '-E', os.path.join(repo, 'src', unit)] + unit_flags(repo, unit, list(extra))
    out = subprocess.run(cmd, stdout=subprocess.PIPE, stderr=subprocess.DEVNULL, text=True).stdout
    res = {}
    for line in out.splitlines():
        m = re.match(r'#define (\w+) (.*)$', line)
        if m:
            res[m.group(1)] = m.group(2).strip()
    return res
